"""C02 — Only Liquid errors escape parsing and rendering."""

from __future__ import annotations

import math
import re
import warnings

from ..core import Check, classify_exc, run_async

IMPORTS = "ExnFlow"

UNDEF = object()  # the variable is not passed to render
HUGE = 10 ** 5000  # more digits than sys.get_int_max_str_digits()

# ----------------------------------------------------------------------------------------------- representatives
# (name, python value, class tag, primary?)  The class tag is assigned by hand; g_value() derives the Coq term from the
# spelling of the value, not from the primitives whose outcome tables the model states (those are checked separately).
REPS = [
    ("none", None, "None", 1), ("undef", UNDEF, "Undef", 1),
    ("true", True, "Bool", 1), ("false", False, "Bool", 0),
    ("i0", 0, "Int0", 1), ("i7", 7, "IntSmall", 1), ("ineg", -3, "IntSmall", 0), ("i1", 1, "IntSmall", 0),
    ("ibig", 2 ** 70, "IntBig", 1), ("ibigneg", -(2 ** 64), "IntBig", 0),
    ("ifl", 10 ** 400, "IntBeyondFloat", 1), ("imax", 10 ** 4300 - 1, "IntBeyondFloat", 0),
    ("ihuge", HUGE, "IntHuge", 1), ("ihugeneg", -(10 ** 4300), "IntHuge", 0),
    ("f0", 0.0, "Float0", 1), ("fneg0", -0.0, "Float0", 0),
    ("f15", 1.5, "FloatFinite", 1), ("fneg", -2.5, "FloatFinite", 0), ("f05", 0.5, "FloatFinite", 0), ("fbig", 1e308, "FloatFinite", 0),
    ("nan", math.nan, "FloatNan", 1), ("pinf", math.inf, "FloatPInf", 1), ("ninf", -math.inf, "FloatNInf", 1),
    ("s_int", "12", "StrInt", 1), ("s_0", "0", "StrInt0", 1), ("s_neg", "-4", "StrInt", 0), ("s_intsp", " 7 ", "StrInt", 0),
    ("s_bigint", "1" + "0" * 400, "StrIntBeyondFloat", 1), ("s_maxlen", "9" * 4300, "StrIntBeyondFloat", 0),
    ("s_long", "9" * 5000, "StrLong", 1), ("s_longtxt", "x" * 4301, "StrLong", 0),
    ("s_flt", "1.5", "StrFloat", 1), ("s_exp", "1e3", "StrFloat", 0), ("s_f0", "0.0", "StrFloat0", 1),
    ("s_nan", "nan", "StrNan", 1), ("s_inf", "inf", "StrInf", 1), ("s_1e999", "1e999", "StrInf", 0), ("s_ninf", "-inf", "StrNInf", 1),
    ("s_abc", "abc", "StrOther", 1), ("s_empty", "", "StrEmpty", 1), ("s_sp", " ", "StrOther", 0),
    ("s_pct", "100% %s %(zz)s %", "StrOther", 0), ("s_b64ok", "aGk=", "StrOther", 0),
    ("s_b64bad", "a", "StrB64Invalid", 1), ("s_b64nonutf8", "/w==", "StrB64NonUtf8", 1),
    ("s_nonascii", "é", "StrNonAscii", 1), ("s_surrogate", "x\ud800", "StrSurrogate", 1),
    ("l_empty", [], "ListEmpty", 1), ("l_int", [1, 2], "ListInts", 1), ("l_str", ["a", "b"], "ListStrs", 1),
    ("l_mixed", [1, "a", None], "ListMixed", 1), ("l_nested", [[1], [2, [3]]], "ListNested", 1),
    ("l_deep", [[[[[[[1, [2]]]]]]]], "ListNested", 0),
    ("l_dict", [{"a": 1}, {"a": "x"}, {"b": 2}], "ListDicts", 1), ("l_num", ["abc", "1.5", "12", 3, 1.5, True], "ListNumericTexts", 1),
    ("l_nan", [math.nan, "nan", math.inf], "ListNonFinite", 1), ("l_infs", [math.inf, 1, -math.inf], "ListNonFinite", 0),
    ("l_hugeint", [HUGE], "ListHuge", 1), ("l_sumhuge", [10 ** 4299] * 10, "ListSumHuge", 1),
    ("d_empty", {}, "DictEmpty", 1), ("d", {"a": 1, "b": [1]}, "Dict", 1), ("d_huge", {"a": HUGE}, "DictHuge", 1),
    ("rng", range(1, 4), "Range", 1), ("rng0", range(0), "RangeEmpty", 1),
]
REP = {r[0]: r for r in REPS}

ATOMS: dict = {}


def atom(text: str) -> int:
    return ATOMS.setdefault(text, len(ATOMS) + 1)


INT_RE = re.compile(r"\s*[+-]?[0-9]+(_[0-9]+)*\s*\Z")
FLOAT_RE = re.compile(r"\s*[+-]?(([0-9]+\.?[0-9]*|\.[0-9]+)([eE][+-]?[0-9]+)?|inf|infinity|nan)\s*\Z", re.I)


def g_int(z: int) -> str:
    """A Z literal; hexadecimal beyond 18 digits (Python refuses to print ints beyond the digit limit in decimal)."""
    if -(10 ** 18) < z < 10 ** 18:
        return str(z)
    return ("-" if z < 0 else "") + hex(abs(z))


def g_fcl(x: float) -> str:
    if x != x:
        return "FNan"
    if x in (math.inf, -math.inf):
        return "FPInf" if x > 0 else "FNInf"
    if x == 0:
        return "FZero"
    return f"(FFin ({g_int(int(x))}))"


def g_scl(s: str) -> str:
    if len(s) > 4300:
        return "SLong"
    if INT_RE.match(s):
        return f"(SInt ({g_int(int(s))}))"
    if FLOAT_RE.match(s):
        return f"(SFloat {g_fcl(float(s))})"
    return f"(SOther {atom(s)})"


def g_value(v) -> str:
    if v is UNDEF:
        return "VUndef"
    if v is None:
        return "VNone"
    if isinstance(v, bool):
        return f"(VBool {'true' if v else 'false'})"
    if isinstance(v, int):
        return f"(VInt ({g_int(v)}))"
    if isinstance(v, float):
        return f"(VFloat {g_fcl(v)})"
    if isinstance(v, str):
        return f"(VStr {g_scl(v)} {len(v)})"
    if isinstance(v, (list, tuple)):
        return "(VList [" + "; ".join(g_value(x) for x in v) + "])"
    if isinstance(v, dict):
        return ("(VDict [" + "; ".join(f"{atom(k)}%N" for k in v) + "] [" + "; ".join(g_value(x) for x in v.values()) + "])")
    if isinstance(v, range):
        return f"(VRange ({v.start}) {len(v)})"
    raise TypeError(v)


def contains_huge(v) -> bool:
    if isinstance(v, bool):
        return False
    if isinstance(v, int):
        return abs(v) >= 10 ** 4300
    if isinstance(v, (list, tuple)):
        return any(contains_huge(x) for x in v)
    if isinstance(v, dict):
        return any(contains_huge(x) for x in v.values())
    return False


# ----------------------------------------------------------------------------------------------- primitives measured on CPython
def text_of(v):
    """The text a string filter works on (None -> '', str -> itself, otherwise str(v)); None if str() itself fails."""
    if v is None or v is UNDEF:
        return ""
    if isinstance(v, str):
        return v
    try:
        return str(v)
    except ValueError:
        return None


def b64_class(text, urlsafe: bool) -> str:
    import base64
    import binascii

    if text is None:
        return "B64Ok"
    try:
        (base64.urlsafe_b64decode if urlsafe else base64.b64decode)(text).decode()
        return "B64Ok"
    except binascii.Error:
        return "B64Binascii"
    except UnicodeDecodeError:
        return "B64NonUtf8"
    except ValueError:
        return "B64NonAscii"


def enc_ok(text) -> bool:
    if text is None:
        return True
    try:
        text.encode()
        return True
    except UnicodeEncodeError:
        return False


def numify(v):
    """What a numeric filter reads a value as (reference for the DivisionImpossible measurement only)."""
    if isinstance(v, bool):
        return int(v)        # num_arg counts a boolean as 0 / 1 (fix 2158e91)
    if isinstance(v, (int, float)):
        return v
    if isinstance(v, str) and len(v) <= 4300:
        for f in (int, float):
            try:
                return f(v)
            except ValueError:
                pass
    return 0


def mod_impossible(v, a) -> bool:
    import decimal

    try:
        decimal.Decimal(str(numify(v))) % decimal.Decimal(str(numify(a)))
    except decimal.InvalidOperation as e:
        return bool(e.args) and isinstance(e.args[0], list) and decimal.DivisionImpossible in e.args[0]
    except Exception:  # noqa: BLE001
        return False
    return False


def g_prims(v, a=None, with_mod=False) -> str:
    t = text_of(v)
    m = mod_impossible(v, a) if with_mod else False
    return (f"(P {b64_class(t, False)} {b64_class(t, True)} {'true' if enc_ok(t) else 'false'} {'true' if m else 'false'})")


_PREAMBLE = None


def preamble() -> str:
    """Named constants for the representatives (a 5000-digit literal is parsed once per shard, not once per case)."""
    global _PREAMBLE
    if _PREAMBLE is None:
        out = [
            "Definition P (a b : b64cl) (e m : bool) : prims := {| p_b64 := a; p_b64url := b; p_enc_ok := e; p_mod_impossible := m |}.",
            "Definition PM (p : prims) (m : bool) : prims := P (p_b64 p) (p_b64url p) (p_enc_ok p) m.",
            "Definition C (s : site) (p : prims) (v : value) (args : list value) : ecase :=",
            "  {| c_site := s; c_tol := Strict; c_async := false; c_prims := p; c_v := v; c_args := args |}.",
        ]
        for n, v, _c, _p in REPS:
            out.append(f"Definition r_{n} : value := {g_value(v)}.")
            out.append(f"Definition p_{n} : prims := {g_prims(v)}.")
        _PREAMBLE = "\n".join(out) + "\n"
    return _PREAMBLE

# ----------------------------------------------------------------------------------------------- sites
# concrete filter -> (model site, min args, max args)
MODEL_FILTERS = {
    "abs": ("SAbs", 0, 0), "at_most": ("SAtMost", 1, 1), "at_least": ("SAtLeast", 1, 1), "ceil": ("SCeil", 0, 0),
    "floor": ("SFloor", 0, 0), "round": ("SRound", 0, 1), "plus": ("SPlus", 1, 1), "minus": ("SMinus", 1, 1),
    "times": ("STimes", 1, 1), "divided_by": ("SDividedBy", 1, 1), "modulo": ("SModulo", 1, 1),
    **{f: ("(SStrTotal 0 0)", 0, 0) for f in (
        "upcase", "downcase", "capitalize", "strip", "lstrip", "rstrip", "squish", "escape", "escape_once", "url_decode",
        "strip_html", "strip_newlines", "newline_to_br", "safe", "escapejs", "script_tag", "stylesheet_tag")},
    **{f: ("(SStrTotal 1 1)", 1, 1) for f in ("append", "prepend", "remove", "remove_first", "split")},
    "remove_last": ("SRemoveLast", 1, 1),
    "replace": ("(SStrTotal 1 2)", 1, 2), "replace_first": ("(SStrTotal 1 2)", 1, 2),
    "url_encode": ("SEncode", 0, 0), "base64_encode": ("SEncode", 0, 0), "base64_url_safe_encode": ("SEncode", 0, 0),
    "base64_decode": ("SB64Decode", 0, 0), "base64_url_safe_decode": ("SB64UrlDecode", 0, 0),
    "truncate": ("STruncate", 0, 2), "truncatewords": ("STruncate", 0, 2), "slice": ("SSlice", 1, 2),
    "join": ("SJoin", 0, 1), "first": ("SFirst", 0, 0), "last": ("SLast", 0, 0), "size": ("SSize", 0, 0), "sum": ("SSum", 0, 0),
    "compact": ("SCompact", 0, 1), "uniq": ("SUniq", 0, 1), "index": ("SIndex", 1, 1), "concat": ("SConcat", 1, 1),
    "default": ("SDefault", 0, 1), "json": ("SJson", 0, 1), "ngettext": ("SNgettext", 2, 2),
    "reverse": ("SReverse", 0, 0), "sort_natural": ("SSortNatural", 0, 1), "map": ("SMap", 1, 1),
    "t": ("(SGettext 0 1)", 0, 1), "gettext": ("(SGettext 0 0)", 0, 0), "pgettext": ("(SGettext 1 1)", 1, 1),
}
# filters run against the oracle only (no model): item lookups by text, sorting, translation
ORACLE_FILTERS = {
    "sort": (0, 1), "sort_numeric": (0, 1), "where": (1, 2), "reject": (1, 2),
    "find": (1, 2), "find_index": (1, 2), "has": (1, 2), "sum": (1, 1),
    "replace_last": (2, 2),  # whether the replacement text is ever converted depends on the texts
}
# tag / expression sites: (name, source, model site or None, number of arguments)
TAG_SITES = [
    ("output", "{{ v }}", "SOutput", 0), ("echo", "{% echo v %}", "SOutput", 0),
    ("assign", "{% assign x = v %}{{ x }}", "SOutput", 0), ("capture", "{% capture x %}{{ v }}{% endcapture %}{{ x }}", "SOutput", 0),
    ("liquid-echo", "{% liquid\necho v\n%}", "SOutput", 0),
    ("range", "{{ (v..a) }}", "SRangeLit", 1), ("range-for", "{% for i in (v..a) limit:2 %}{{ i }}{% endfor %}", "SRangeLit", 1),
    ("for-limit", "{% for i in v limit: a %}x{% endfor %}", "SFor", 1), ("for-offset", "{% for i in v reversed offset: a %}x{% else %}y{% endfor %}", "SFor", 1),
    ("for-limit-offset", "{% for i in v limit: a offset: b %}x{% endfor %}", "SFor", 2),
    ("tablerow-cols", "{% tablerow i in v cols: a %}x{% endtablerow %}", "STablerow", 1),
    ("tablerow-cols-limit", "{% tablerow i in v cols: a limit: b %}x{% endtablerow %}", "STablerow", 2),
    ("contains", "{% if v contains a %}x{% endif %}", "SContains", 1), ("unless-contains", "{% unless v contains a %}x{% endunless %}", "SContains", 1),
    ("root-bracket", "{{ [v] }}", "SRootBracket", 0), ("root-bracket-path", "{{ [v].x }}", "SRootBracket", 0),
    ("translate-count", "{% translate count: v %}Hello{% plural %}Hellos{% endtranslate %}", "STranslateCount", 0),
    # oracle only
    ("index-path", "{{ v[a] }}", None, 1), ("index-path2", "{{ v[a][b] }}", None, 2), ("dot-size", "{{ v.size }} {{ v.first }} {{ v.last }}", None, 0),
    ("literal-index", "{{ v[0] }} {{ v[-1] }} {{ v['a'] }} {{ v.a.b }}", None, 0),
    ("if-eq", "{% if v == a %}x{% endif %}", None, 1), ("if-ne", "{% if v != a %}x{% endif %}", None, 1),
    ("if-lt", "{% if v < a %}x{% endif %}", None, 1), ("if-ge", "{% if v >= a %}x{% endif %}", None, 1),
    ("if-and-or", "{% if v and a or b %}x{% endif %}", None, 2), ("if-not", "{% if not v %}x{% endif %}", None, 0),
    ("case", "{% case v %}{% when a %}x{% when b %}y{% else %}z{% endcase %}", None, 2),
    ("cycle", "{% cycle v, a %}{% cycle v, a %}", "SOutAll", 1), ("cycle-group", "{% cycle v: a, b %}", None, 2),
    ("include-name", "{% include v %}", None, 0), ("include-with", "{% include 'p' with v %}", "SOutAll", 0),
    ("include-for", "{% include 'p' for v %}", None, 0), ("include-kw", "{% include 'q', x: v %}", "SOutAll", 0),
    ("render-with", "{% render 'p' with v %}", "SOutAll", 0), ("render-for", "{% render 'p' for v %}", None, 0), ("render-kw", "{% render 'q', x: v %}", "SOutAll", 0),
    ("ifchanged", "{% ifchanged %}{{ v }}{% endifchanged %}", "SOutAll", 0),
    ("translate-vars", "{% translate count: v, x: a %}Hello {{ x }}{% plural %}Hellos {{ x }} {{ count }}{% endtranslate %}", None, 1),
    ("macro", "{% macro m x, y: a %}{{ x }}{{ y }}{% endmacro %}{% call m v %}{% call m y: v %}", None, 1),
    ("with", "{% with x: v %}{{ x }}{% endwith %}", "SOutAll", 0),
    ("ternary", "{{ v if a else b }}", "STernary", 2), ("ternary-filters", "{{ v if a else b | upcase || append: a }}", None, 2),
    ("default-allow-false", "{{ v | default: a, allow_false: b }}", None, 2),
    ("increment", "{% increment n %}{% decrement n %}{{ v }}", None, 0),
    ("tablerow-offset", "{% tablerow i in v cols: a offset: b %}{{ i }}{% endtablerow %}", None, 2),
    ("for-continue", "{% for i in v limit: a %}x{% endfor %}{% for i in v offset: continue %}{{ i }}{% endfor %}", None, 1),
    ("forloop-vars", "{% for i in v %}{{ forloop.index }}{{ forloop.length }}{{ i }}{% endfor %}", None, 0),
    # loop arguments written as LITERALS (quoted non-integers, floats): each hand-written copy converts them itself
    ("for-offset-literal", "{% for i in v offset: 'abc' %}x{% else %}y{% endfor %}", None, 0),
    ("for-limit-literal", "{% for i in v limit: '1.5' %}x{% endfor %}", None, 0),
    ("for-literals", "{% for i in v limit: 'x' offset: 1.5 reversed %}x{% endfor %}{% for i in v limit: 2.5 offset: '' %}x{% endfor %}", None, 0),
    ("tablerow-literals", "{% tablerow i in v cols: 'abc' offset: '1.5' limit: 'x' %}{{ i }}{% endtablerow %}", None, 0),
    ("tablerow-literals2", "{% tablerow i in v cols: 1.5 limit: '' %}{{ i }}{% endtablerow %}{% tablerow i in v offset: 'abc' %}{{ i }}{% endtablerow %}", None, 0),
]

MODES = ("STRICT", "WARN", "LAX")
_ENVS = None


def envs():
    global _ENVS
    if _ENVS is None:
        import liquid.extra as ex
        from liquid import DictLoader, Environment, Mode

        class Env(Environment):
            logical_not_operator = True
            logical_parentheses = True
            ternary_expressions = True

        _ENVS = {}
        for m in MODES:
            e = Env(tolerance=getattr(Mode, m), loader=DictLoader({"p": "[{{ p }}{{ x }}]", "q": "{{ x }}"}))
            ex.add_filters(e)
            ex.add_tags(e)
            _ENVS[m] = e
    return _ENVS


_TPL: dict = {}


def template(mode: str, src: str):
    k = (mode, src)
    if k not in _TPL:
        _TPL[k] = envs()[mode].from_string(src)
    return _TPL[k]


def observe_exc(e: BaseException) -> str:
    from liquid.exceptions import LiquidError

    if isinstance(e, LiquidError):
        return "OLiquid"
    return "OForeign " + classify_exc(e)


def run6(src: str, data: dict) -> tuple:
    """The six observations (STRICT, WARN, LAX) x (sync, async) of rendering src with data."""
    out = []
    for m in MODES:
        try:
            t = template(m, src)
        except Exception as e:  # noqa: BLE001
            out += [observe_exc(e)] * 2
            continue
        for use_async in (False, True):
            try:
                if use_async:
                    run_async(t.render_async(**data))
                else:
                    t.render(**data)
                out.append("OOk")
            except Exception as e:  # noqa: BLE001
                out.append(observe_exc(e))
    return tuple(out)


def data_of(names) -> dict:
    d = {}
    for var, n in zip("vab", names):
        if REP[n][1] is not UNDEF:
            d[var] = REP[n][1]
    return d


def filter_src(f: str, nargs: int) -> str:
    return "{{ v | " + f + (": " + ", ".join("ab"[:nargs]) if nargs else "") + " }}"


# ----------------------------------------------------------------------------------------------- oracle
def int_result_huge(site_name: str, names) -> bool:
    """Independent of the model: does integer arithmetic on the representatives give a result beyond the digit limit."""
    vals = [REP[n][1] for n in names]

    def as_int(x):
        if isinstance(x, bool):
            return int(x)
        if x is None or x is UNDEF:
            return 0  # num_arg's default
        if not isinstance(x, (int, str)):
            return None
        if isinstance(x, str):
            return int(x) if INT_RE.match(x) and len(x) <= 4300 else None
        return x

    if site_name in ("plus", "minus", "times") and len(vals) == 2:
        x, y = as_int(vals[0]), as_int(vals[1])
        if x is not None and y is not None:
            r = {"plus": x + y, "minus": x - y, "times": x * y}[site_name]
            return abs(r) >= 10 ** 4300
    if site_name == "sum" and isinstance(vals[0], list):
        xs = [as_int(x) for x in vals[0]]
        if all(x is not None for x in xs):
            return abs(sum(xs)) >= 10 ** 4300
    return False


def family(site_name: str, names, obs: str) -> str | None:
    """A recorded family the escape belongs to, or None."""
    if obs == "OForeign EValueError" and (any(contains_huge(REP[n][1]) for n in names) or int_result_huge(site_name, names)):
        return "int-str-digits-limit"
    if obs == "OForeign ERecursionError":
        return "recursion-error-escapes"
    return None


class Reporter:
    def __init__(self, ck: Check):
        self.ck = ck
        self.seen: dict = {}

    def escape(self, site_name: str, src: str, names, obs6, extra=None):
        ck = self.ck
        for i, o in enumerate(obs6):
            if not o.startswith("OForeign"):
                continue
            fam = family(site_name, names, o)
            classes = "/".join(REP[n][2] for n in names) if names else "-"
            sig = fam or f"foreign:{site_name}:{o.split()[1]}"
            n = self.seen.get(sig, 0)
            self.seen[sig] = n + 1
            ck.count("escape." + (fam or "unlisted"))
            if n >= (3 if fam else 1) or (not fam and len([s for s in self.seen if s.startswith("foreign:")]) > 40):
                continue
            mode, use_async = MODES[i // 2], bool(i % 2)
            ck.violation(
                "impl-violation", sig,
                f"{src!r} with {dict(zip('vab', names))} (classes {classes}) raises {o.split()[1][1:]} ({mode}, {'async' if use_async else 'sync'}): not a LiquidError",
                {"type": "render", "template": src, "reps": list(names), "mode": mode, "async": use_async, "observed": o, **(extra or {})},
            )
            return  # one report per case


# ----------------------------------------------------------------------------------------------- primitive tables vs CPython
def prim_obs(fn) -> str:
    import decimal

    try:
        fn()
        return "OOk"
    except RecursionError:
        raise
    except decimal.DecimalException:
        return "OForeign EArithmeticError"
    except Exception as e:  # noqa: BLE001
        return "OForeign " + classify_exc(e)


def prim_cases():
    import decimal
    import json
    import operator

    from liquid import Undefined, soft_str

    D = decimal.Decimal
    cases, expected, what = [], [], []

    def add(term, fn, label):
        cases.append(term)
        expected.append(prim_obs(fn))
        what.append(label)

    def py(n):
        v = REP[n][1]
        return Undefined("nosuch") if v is UNDEF else v

    for n, v, _cls, _p in REPS:
        gv, x = "r_" + n, py(n)
        add(f"PInt {gv}", lambda x=x: int(x), f"int({n})")
        add(f"PStr {gv}", lambda x=x: str(x), f"str({n})")
        add(f"PStr {gv}", lambda x=x: f"{x}", f"f-string({n})")
        add(f"PStr {gv}", lambda x=x: soft_str(x), f"soft_str({n})")
        if not isinstance(x, Undefined):
            add(f"PStr {gv}", lambda x=x: repr(x), f"repr({n})")
        add(f"PJson {gv}", lambda x=x: json.dumps(x), f"json.dumps({n})")
        if isinstance(v, str) and len(v) <= 4300:  # to_int rejects longer texts before float() or Decimal() see them
            add(f"PFloatStr {g_scl(v)}", lambda v=v: float(v), f"float({n})")
            if True:
                # Decimal(text) accepts exactly what int() or float() accept (assumption of decimal_arg's table)
                ok = g_scl(v).startswith(("(SInt", "(SFloat"))
                add("PDecOfNum (NI 1)" if ok else "PDecOfNum (NB true)", lambda v=v: D(v), f"Decimal({n})")
        if isinstance(v, float):
            for fn, nm in ((math.ceil, "ceil"), (math.floor, "floor"), (round, "round"), (int, "int")):
                add(f"PFloatToInt {g_fcl(v)}", lambda v=v, fn=fn: fn(v), f"{nm}({n})")
            add("PFloatToInt (FFin 1)", lambda v=v: round(v, 2), f"round({n}, 2)")
            add("PDecOfNum (NF " + g_fcl(v) + ")", lambda v=v: D(str(v)), f"Decimal(str({n}))")
        if isinstance(v, bool):
            add(f"PDecOfNum (NB {'true' if v else 'false'})", lambda v=v: D(str(v)), f"Decimal(str({n}))")
        elif isinstance(v, int):
            add(f"PFloatOfInt ({g_int(v)})", lambda v=v: float(v), f"float({n})")
            add(f"PFloatOfInt ({g_int(v)})", lambda v=v: v / 1.5, f"{n} / 1.5")
            add(f"PFloatOfInt ({g_int(v)})", lambda v=v: 1.5 / v if v else 0, f"1.5 / {n}")
            if not contains_huge(v):
                add(f"PDecOfNum (NI ({g_int(v)}))", lambda v=v: D(str(v)), f"Decimal(str({n}))")
    # Decimal arithmetic
    dreps = [("DZero", D("0")), ("DZero", D("0.0")), ("DZero", D("-0.0")), ("DFin", D("1.5")), ("DFin", D("-3")), ("DFin", D("1e308")),
             ("DFin", D("1E+400")), ("DNan", D("nan")), ("DPInf", D("inf")), ("DNInf", D("-inf"))]
    for ca, a in dreps:
        for cb, b in dreps:
            add(f"PDecAdd {ca} {cb}", lambda a=a, b=b: float(a + b), f"{a}+{b}")
            add(f"PDecSub {ca} {cb}", lambda a=a, b=b: float(a - b), f"{a}-{b}")
            add(f"PDecMul {ca} {cb}", lambda a=a, b=b: float(a * b), f"{a}*{b}")
            add(f"PDecDiv {ca} {cb}", lambda a=a, b=b: float(a / b), f"{a}/{b}")
            imp = False
            try:
                a % b
            except decimal.InvalidOperation as e:
                imp = decimal.DivisionImpossible in e.args[0]
            add(f"PDecMod {'true' if imp else 'false'} {ca} {cb}", lambda a=a, b=b: float(a % b), f"{a}%{b}")
    # obj[key]
    keys = ["none", "undef", "true", "false", "i0", "i7", "ineg", "ibig", "ihuge", "f15", "nan", "s_int", "s_abc", "s_b64bad", "s_empty",
            "l_empty", "l_int", "d_empty", "d", "rng"]
    for on, ov, _c, _p in REPS:
        for kn in keys:
            if kn == "s_b64bad" and isinstance(ov, dict):
                pass  # the text a is a key of the representative hashes
            add(f"PGetItem r_{on} r_{kn}", lambda o=py(on), k=py(kn): operator.getitem(o, k), f"{on}[{kn}]")
    return cases, expected, what


# ----------------------------------------------------------------------------------------------- parse side
FRAGS = [
    "{{", "}}", "{%", "%}", "{{-", "-}}", "{%-", "-%}", "{#", "#}", "{", "}", "%", " ", "\n", "a", "x.y", "x[", "]", "(", ")", "(1..", "..", "|", ":", ",",
    "'", '"', "'a'", "if", "endif", "for i in", "endfor", "else", "elsif", "case", "when", "endcase", "raw", "endraw", "comment", "endcomment",
    "liquid", "echo", "assign x =", "capture x", "endcapture", "include", "render", "tablerow", "cycle", "increment", "unless", "break",
    "continue", "ifchanged", "macro m", "call m", "with", "extends 'p'", "block b", "endblock", "translate", "plural", "endtranslate", "doc", "enddoc",
    "==", "<", "contains", "and", "or", "not", "nil", "true", "empty", "blank", "1", "-1", "1.5", "1.5.5", "1e999", "9" * 30, "9" * 5000,
    "\x00", "\ud800", "é", "\\", "\\'", "#", "# x", "limit:", "offset: continue", "reversed", "cols:", "| upcase", "| nosuch", "| round: ",
    "forloop.index", "a.b.c.d", "a[b[c[d]]]", "[", "['a']", "{{ x }}", "{% if x %}", "{% endif %}", "{% for i in x %}", "{% endfor %}", "{% raw %}",
]


def gen_sources(ck: Check, n: int):
    rng = ck.rng
    fixed = [
        "", "{{", "{%", "{% %}", "{{ }}", "{% if %}", "{% for %}", "{{ 1.5.5 }}", "{{ " + "9" * 5000 + " }}", "{{ 1e999 | ceil }}", "{{ 1e999 | round: 1e999 }}",
        "{% if " + "(" * 200 + "a" + ")" * 200 + " %}{% endif %}", "{% if " + "(" * 3000 + "a" + ")" * 3000 + " %}{% endif %}",
        "{{ a" + "[a" * 500 + "]" * 500 + " }}", "{{ a" + "[a" * 5000 + "]" * 5000 + " }}", "{{ x" + " | upcase" * 3000 + " }}",
        "{% if a %}" * 300 + "{% endif %}" * 300, "{% for i in x %}" * 120, "{% raw %}", "{% comment %}", "{% liquid\n" + "echo 1\n" * 50,
        "{% assign x = 99999999999 %}" + "{% assign x = x | times: x %}" * 9 + "{{ x | size }}",
        "{{ '" + "\\" * 999 + " }}", "{% cycle %}", "{% tablerow %}", "{% include %}", "{% render x %}", "{% translate %}{% plural %}{% plural %}{% endtranslate %}",
        "{% macro %}", "{% call %}", "{% with %}", "{% extends %}", "{% block %}", "{% case %}{% when %}", "{% increment 1 %}", "{{ (1..) }}", "{{ (..1) }}",
        "{{ (1..2 }}", "{{ x | }}", "{{ x | f: }}", "{{ x | f: , }}", "{{ x || y }}", "{{ x if }}", "{{ x if y else }}", "{% # x\n %}", "{% doc %}", "{%- -%}",
        "\x00{{\x00}}", "{{ '\ud800' }}", "{{ x.é }}", "{{ 0x10 }}", "{{ 1_000 }}", "{{ -  1 }}", "{{ --1 }}", "{{ 1..2 }}", "{% if 1 = 1 %}{% endif %}",
    ]
    yield from fixed
    for _ in range(n):
        k = rng.randrange(1, 12)
        yield " ".join(rng.choice(FRAGS) for _ in range(k)) if rng.random() < 0.7 else "".join(rng.choice(FRAGS) for _ in range(k))


PARSE_DATA = {"a": 1, "x": [1, "b", None], "y": {"a": [1]}, "b": "s", "c": 2.5}


def parse_side(ck: Check, rep: Reporter, n: int) -> None:
    from liquid.exceptions import LiquidError

    for src in gen_sources(ck, n):
        ck.note_case(("parse", src[:300], len(src)), nontrivial=("{" in src))
        parsed = 0
        for m in MODES:
            try:
                t = envs()[m].from_string(src)
                parsed += 1
            except LiquidError:
                ck.count("parse.liquid-error")
                continue
            except Exception as e:  # noqa: BLE001
                ck.count("parse.foreign")
                o = observe_exc(e)
                sig = family("parse", (), o) or f"foreign:parse:{o.split()[1]}"
                if rep.seen.get(sig, 0) < 3:
                    rep.seen[sig] = rep.seen.get(sig, 0) + 1
                    ck.violation("impl-violation", sig, f"from_string({src[:120]!r}...) raises {o.split()[1][1:]} ({m}): not a LiquidError",
                                 {"type": "parse", "template": src, "mode": m, "observed": o})
                continue
            for use_async in (False, True):
                try:
                    if use_async:
                        run_async(t.render_async(**PARSE_DATA))
                    else:
                        t.render(**PARSE_DATA)
                except LiquidError:
                    pass
                except Exception as e:  # noqa: BLE001
                    o = observe_exc(e)
                    huge_tpl = "times: x" in src
                    sig = ("int-str-digits-limit" if (huge_tpl and o == "OForeign EValueError") else None) or family("parsed", (), o) \
                        or f"foreign:parsed-source:{o.split()[1]}"
                    ck.count("parse.render-foreign")
                    if rep.seen.get(sig, 0) < 3:
                        rep.seen[sig] = rep.seen.get(sig, 0) + 1
                        ck.violation("impl-violation", sig,
                                     f"rendering the parsed source {src[:120]!r}... raises {o.split()[1][1:]} ({m}, {'async' if use_async else 'sync'})",
                                     {"type": "parsed-render", "template": src, "mode": m, "async": use_async, "observed": o})
        ck.count("parse.parsed" if parsed else "parse.rejected")


# deep self-inclusion: belongs to C09; here only so that the escape has a stable signature
def recursion_cases(ck: Check, rep: Reporter) -> None:
    from liquid import DictLoader, Environment
    from liquid.exceptions import LiquidError

    for tag in ("include", "render"):
        body = "{% if true %}" * 25 + "{% " + tag + " 'self' %}" + "{% endif %}" * 25
        e = Environment(loader=DictLoader({"self": body}))
        for use_async in (False, True):
            try:
                t = e.get_template("self")
                run_async(t.render_async()) if use_async else t.render()
                o = "OOk"
            except LiquidError:
                o = "OLiquid"
            except Exception as ex:  # noqa: BLE001
                o = observe_exc(ex)
            ck.note_case(("recursion", tag, use_async))
            ck.count("recursion." + o.replace(" ", "-"))
            if o.startswith("OForeign"):
                sig = family("recursion", (), o) or f"foreign:self-{tag}:{o.split()[1]}"
                ck.violation("impl-violation", sig, f"a template that {tag}s itself inside 25 nested blocks raises {o.split()[1][1:]} instead of ContextDepthError",
                             {"type": "recursion", "tag": tag, "async": use_async, "observed": o})


# ----------------------------------------------------------------------------------------------- the run
def rep_names(primary_only: bool):
    return [r[0] for r in REPS if r[3] or not primary_only]


# quick tier: one representative per class for the left value, the classes an argument conversion distinguishes for arguments
ARGS_QUICK = ["none", "undef", "true", "i0", "i7", "ibig", "ihuge", "f0", "f15", "nan", "pinf", "s_int", "s_0", "s_long", "s_flt", "s_inf",
              "s_abc", "s_empty", "l_int", "l_hugeint", "d", "rng"]
LEFT_QUICK = ["none", "undef", "true", "i0", "i7", "ifl", "ihuge", "f15", "nan", "pinf", "s_int", "s_bigint", "s_long", "s_flt", "s_nan", "s_abc",
              "s_empty", "s_b64nonutf8", "s_surrogate", "l_empty", "l_int", "l_mixed", "l_dict", "l_num", "l_nan", "l_hugeint", "d", "d_huge", "rng"]
ARGS2_QUICK = ["none", "undef", "i7", "ihuge", "pinf", "s_int", "s_long", "s_abc", "l_int"]


def run(ck: Check) -> None:
    ck.rule = (
        "every modelled site (62 filters in 38 model sites, 25 tag/expression sources in 9 model sites) x every value class for the left value x every "
        "class for each argument (one representative per class in quick, all representatives in thorough; two-argument sites with a reduced "
        "left set) x STRICT/WARN/LAX x sync/async: engine observation (ok | Liquid error | foreign class) compared inside Coq with the model; the "
        "same for oracle-only filters and tags (no model); primitive outcome tables (int float str Decimal ceil floor round getitem json) "
        "checked on CPython for every representative; parse side: fixed and seeded random malformed sources through from_string and render in "
        "the three modes; two deep self-inclusion templates. Non-trivial = a filter or tag is applied to a value; distinct = distinct (site, representatives)."
    )
    ck.exhaustive = True
    ck.trusted_base = [
        "Coq 8.16.1 kernel + vm_compute",
        "harness: representatives with their hand-assigned classes, Gallina printer of values, site table, oracle (isinstance LiquidError) (props/c02.py)",
        "modelled not verified: outcome tables of CPython primitives per value class (re-measured on every run on all representatives: int, float, str, "
        "repr, f-string, json.dumps, Decimal construction and + - * %, math.ceil/floor, round, getitem, int/float division); base64 / UTF-8 / "
        "Decimal DivisionImpossible outcomes enter each case as measured inputs that every theorem quantifies over",
    ]
    ck.assumptions = [
        "sys.get_int_max_str_digits() = liquid.limits.MAX_STR_INT = 4300; default Undefined; default warning filters (WARN mode does not turn warnings into errors)",
        "data is JSON-like (None, bool, int, float, str, list, dict with text keys) plus range; no custom drops, no babel-based filters; the date filter (dateutil, datetime) is oracle-only over its own closed pools of 54 values x 22 formats",
        "texts accepted by float() are accepted by Decimal() and conversely; hash keys are texts that are not numeric; json indent is small or beyond 2**63 (a mid-size indent is a memory question, not an exception-class one)",
        "filter chains in the model have length 1 (a filter result only reaches the output statement); longer chains are run against the oracle only",
        "RecursionError from deep nesting belongs to C09 and is only given a signature here",
    ]
    ck.proof()

    import sys

    import liquid.limits

    if liquid.limits.MAX_STR_INT != 4300 or sys.get_int_max_str_digits() != 4300:
        raise RuntimeError("the digit limit is not 4300: the model constant huge_bound does not apply")

    rep = Reporter(ck)
    with warnings.catch_warnings():
        warnings.simplefilter("ignore")
        _run(ck, rep)


def _t(ck, label):
    import os
    import sys
    import time

    if os.environ.get("VERIF_DEBUG"):
        print(f"[c02 {time.time() - ck.t0:7.1f}s] {label}", file=sys.stderr)


def _run(ck: Check, rep: Reporter) -> None:
    quick = ck.quick
    _t(ck, "proof done")
    # ---- primitive tables
    pc, pe, pw = prim_cases()
    ck.count("primitive-table-entries", len(pc))
    mm = ck.coq_mismatches("prims", IMPORTS, "run_prim", "obs_eqb", "pcase", "obs", pc, pe, chunk=4000, preamble=preamble())
    for i in mm[:5]:
        model = ck.coq_eval(IMPORTS, [f"run_prim ({pc[i]})"], preamble=preamble())[0]
        ck.violation("correspondence", "c02-primitive-table", f"CPython gives {pe[i]} for {pw[i]}; the model's table says {model}",
                     {"primitive": pw[i], "term": pc[i], "cpython": pe[i], "model": model,
                      "broken": "assumption of C02_only_digit_limit_escapes: primitive outcome table ExnFlow." + pc[i].split()[0]}, no_input=True)

    _t(ck, f"primitive tables done ({len(pc)})")
    # ---- sites
    all_names = rep_names(quick)
    args1 = ARGS_QUICK if quick else rep_names(True)
    args2 = ARGS2_QUICK if quick else ARGS_QUICK
    left2 = ["none", "i7", "f15", "s_abc", "l_int", "ihuge"] if quick else \
        ["none", "undef", "true", "i7", "f15", "pinf", "s_int", "s_abc", "l_int", "l_dict", "d", "ihuge"]
    left1 = LEFT_QUICK if quick else all_names
    sets = (all_names, left1, args1, left2, args2)
    jobs = []  # (site name, src, model site or None, names)
    for f, (site, lo, hi) in MODEL_FILTERS.items():
        for nargs in range(lo, hi + 1):
            jobs += _combos(f, filter_src(f, nargs), site, nargs, sets)
        # wrong number of arguments
        for vn in ("i7", "s_abc", "l_int", "none"):
            names = (vn,) + ("i7",) * (hi + 1)
            if hi + 1 <= 2 and f != "sum":
                jobs.append((f, filter_src(f, hi + 1), site, names))
    for f, (lo, hi) in ORACLE_FILTERS.items():
        for nargs in range(lo, min(hi, 2) + 1):
            jobs += _combos(f + "/oracle", filter_src(f, nargs), None, nargs, sets)
    for name, src, site, nargs in TAG_SITES:
        jobs += _combos(name, src, site, nargs, sets)

    cases, expected, meta = [], [], []
    for site_name, src, site, names in jobs:
        obs6 = run6(src, data_of(names))
        ck.note_case((site_name, src, names))
        ck.count("site." + ("modelled" if site else "oracle-only"))
        ck.traces += 6
        for o in set(obs6):
            ck.count("observed." + o.replace(" ", "-"))
        if any(o.startswith("OForeign") for o in obs6):
            rep.escape(site_name.split("/")[0], src, names, obs6)
        if site:
            p = f"p_{names[0]}"
            if site == "SModulo" and len(names) > 1 and mod_impossible(REP[names[0]][1], REP[names[1]][1]):
                p = f"(PM {p} true)"
            cases.append(f"C {site} {p} r_{names[0]} [" + "; ".join("r_" + n for n in names[1:]) + "]")
            expected.append("[" + "; ".join(obs6) + "]")
            meta.append((site_name, src, names, obs6))
    _t(ck, f"engine runs done ({len(jobs)} jobs, {len(cases)} modelled)")
    ck.sample({"template": meta[len(meta) // 3][1], "representatives": meta[len(meta) // 3][2], "observed (STRICT,WARN,LAX x sync,async)": meta[len(meta) // 3][3]})
    ck.sample({"template": meta[-1][1], "representatives": meta[-1][2], "observed": meta[-1][3]})
    # many concrete filters share one model site: identical (case, expected) pairs are evaluated once
    uniq: dict = {}
    for i, ce in enumerate(zip(cases, expected)):
        uniq.setdefault(ce, []).append(i)
    ukeys = list(uniq)
    ck.count("model-cases.distinct", len(ukeys))
    umm = ck.coq_mismatches("sites", IMPORTS, "run_exn_all_fast", "list_eqb obs_eqb", "ecase", "list obs",
                            [c for c, _ in ukeys], [e for _, e in ukeys], chunk=6000, preamble=preamble())
    mm = sorted(i for u in umm for i in uniq[ukeys[u]])
    _t(ck, f"coq sites done, {len(mm)} mismatches")
    import os
    if os.environ.get("VERIF_DEBUG"):
        import collections, sys
        by = collections.defaultdict(list)
        for i in mm:
            by[meta[i][0]].append((meta[i][2], meta[i][3]))
        for k, v in by.items():
            print("  MISMATCH", k, len(v), v[:4], file=sys.stderr)
    shown = 0
    for i in mm:
        site_name, src, names, obs6 = meta[i]
        fams = [family(site_name, names, o) for o in obs6 if o.startswith("OForeign")]
        if any(o.startswith("OForeign") for o in obs6) and not all(fams):
            continue  # an unlisted escape: already reported by the oracle with its failing input
        shown += 1
        if shown > 4:
            break
        model = ck.coq_eval(IMPORTS, [f"run_exn_all ({cases[i]})"], preamble=preamble())[0]
        ck.violation("correspondence", "c02-site-correspondence",
                     f"model ExnFlow.run_exn_all and the implementation disagree on {src!r} with {dict(zip('vab', names))}: implementation {list(obs6)}, model {model}",
                     {"type": "render", "template": src, "reps": list(names), "impl": list(obs6), "model": model,
                      "broken": "correspondence ExnFlow.render_site ~ rendering (theorems C02_only_digit_limit_escapes, C02_contained_partial)"},
                     no_input=True)

    # ---- chains of two filters (oracle only)
    rng = ck.rng
    fl = sorted(MODEL_FILTERS) + [f for f in ORACLE_FILTERS if f not in ("sum",)]
    nonhuge = [n for n in rep_names(False)]
    for _ in range(1500 if quick else 20000):
        f1, f2 = rng.choice(fl), rng.choice(fl)

        def part(f):
            lo, hi = MODEL_FILTERS[f][1:] if f in MODEL_FILTERS else ORACLE_FILTERS[f]
            k = rng.randrange(lo, min(hi, 2) + 1)
            return f, k

        (f1, k1), (f2, k2) = part(f1), part(f2)
        lits = ["a", "b", "1", "0", "-1", "1.5", "'x'", "''", "nil", "true", "'1e999'", "(1..3)", "nosuch"]
        a1 = [rng.choice(lits) for _ in range(k1)]
        a2 = [rng.choice(lits) for _ in range(k2)]
        src = "{{ v | " + f1 + (": " + ", ".join(a1) if a1 else "") + " | " + f2 + (": " + ", ".join(a2) if a2 else "") + " }}"
        names = tuple(rng.choice(nonhuge) for _ in range(3))
        obs6 = run6(src, data_of(names))
        ck.note_case(("chain", src, names))
        ck.count("site.chain-of-two")
        ck.traces += 6
        if any(o.startswith("OForeign") for o in obs6):
            # a chain can build a huge int from non-huge inputs (times, plus, sum, append then plus): same family when an operand is beyond float range
            big = any(REP[n][2] in ("IntBeyondFloat", "StrIntBeyondFloat", "ListSumHuge", "IntHuge", "ListHuge", "DictHuge") for n in names)
            if big and all(o == "OForeign EValueError" for o in obs6 if o.startswith("OForeign")):
                ck.violation("impl-violation", "int-str-digits-limit", f"{src!r} with {dict(zip('vab', names))}", {"type": "render", "template": src, "reps": list(names), "observed": list(obs6)})
                ck.count("escape.int-str-digits-limit")
            else:
                rep.escape("chain:" + f1 + "|" + f2, src, names, obs6)

    date_family(ck, rep, quick)
    huge_range_family(ck, rep)
    _t(ck, "chains and date family done")
    # ---- parse side and recursion
    parse_side(ck, rep, 600 if quick else 8000)
    recursion_cases(ck, rep)


# ---- the date filter (dateutil + datetime; oracle only): left values and formats given as Python expressions so that a replay
# file can name them exactly
DATE_LEFT = ["None", "True", "0", "12", "1700000000", "-1", "10**11", "10**14", "-10**14", "10**17", "2**70", "10**400", "1.5", "float('inf')",
             "float('nan')", r"'0'", r"'12'", r"'1700000000'", r"'99999999999'", r"'99999999999999'", r"'99999999999999999999'", r"'9'*400",
             r"'\u00b2'", r"'\u0661\u0662\u0663'", r"'-5'", r"'+5'", r"'1.5'", r"'now'", r"'today'", r"'abc'", r"''", r"' '", r"'2001-02-03'",
             r"'2001-02-30'", r"'0000-00-00'", r"'9999-12-31 23:59:59'", r"'99999-99-99'", r"'9999999999-01-01'", r"'March 99999999999999999999'",
             r"'Jan 1 999999999999'", r"'12:99'", r"'25:00'", r"'1/2/3/4/5'", r"'1e400'", r"'\x00'", r"'%'", r"'1 2 3 4 5 6 7 8 9'",
             r"'2001-02-03T04:05:06+99:99'", r"'2001-02-03 04:05 UTC+25'", r"'x\ud800'", "[1]", "{'a': 1}", "range(3)", "[]"]
DATE_FMT = [r"'%Y'", r"'%s'", r"'%'", r"'%Q'", r"'%-d'", r"'%:z'", r"''", "5", "None", "1.5", "[1]", r"'%'*300", r"'%\x00'", r"'%c'*40",
            r"'\ud800'", r"'%G-%V'", r"'%E'", r"'%5Y'", r"'%^a'", r"'%+'", r"'%Z %z'", r"'\u00e9%B'"]


def date_family(ck: Check, rep: Reporter, quick: bool) -> None:
    fmts = DATE_FMT[:6] if quick else DATE_FMT
    for le in DATE_LEFT:
        for fe in fmts:
            for src in ("{{ v | date: a }}", "{{ v | date: a | upcase }}{% assign q = v | date: a %}") if not quick else ("{{ v | date: a }}",):
                obs6 = run6(src, {"v": eval(le), "a": eval(fe)})  # noqa: S307 (closed pools above)
                ck.note_case(("date", src, le, fe))
                ck.count("site.date")
                ck.traces += 6
                for i, o in enumerate(obs6):
                    if o.startswith("OForeign"):
                        sig = f"foreign:date:{o.split()[1]}"
                        n = rep.seen.get(sig, 0)
                        rep.seen[sig] = n + 1
                        ck.count("escape.unlisted")
                        if n < 3:
                            ck.violation("impl-violation", sig,
                                         f"{src!r} with v = {le}, a = {fe} raises {o.split()[1][1:]} ({MODES[i // 2]}, {'async' if i % 2 else 'sync'}): "
                                         "not a LiquidError",
                                         {"type": "date", "template": src, "v": le, "a": fe, "observed": list(obs6)})
                        break


# ---- a range with more items than a C ssize_t holds, as render data (oracle only; range literals in templates are clamped)
HUGE_RANGE_LEN = ["{{ v | size }}", "{{ v.size }}", "{% for i in v limit:2 %}{{ i }}{% endfor %}", "{% for i in v reversed limit:1 %}{{ i }}{% endfor %}",
                  "{% tablerow i in v limit:2 %}{{ i }}{% endtablerow %}", "{% for i in v offset:2 limit:1 %}{{ i }}{% endfor %}"]
HUGE_RANGE_OTHER = ["{{ v | first }}", "{{ v.first }}", "{{ v | last }}", "{{ v.last }}", "{{ v[0] }}", "{{ v[-1] }}", "{% if v contains 3 %}y{% endif %}",
                    "{% if v == empty %}y{% else %}n{% endif %}", "{% if v == v %}y{% endif %}", "{{ v | slice: 0, 2 }}", "{{ v | default: 'd' }}",
                    "{% if v %}t{% endif %}", "{% case v %}{% when 1 %}{% endcase %}", "{% assign w = v %}{{ w | first }}", "{{ v }}"]


def huge_range_family(ck: Check, rep: Reporter) -> None:
    data = {"v": range(10 ** 30)}
    for src in HUGE_RANGE_LEN + HUGE_RANGE_OTHER:
        obs6 = run6(src, data)
        ck.note_case(("hugerange", src))
        ck.count("site.huge-range")
        ck.traces += 6
        bad = [o for o in obs6 if o.startswith("OForeign")]
        if not bad:
            continue
        if src in HUGE_RANGE_LEN and all(o == "OForeign EOverflowError" for o in bad):
            sig = "range-longer-than-ssize-len-overflow"      # len() of such a range: one family, see known_findings.json
        else:
            sig = f"foreign:hugerange:{src}:{bad[0].split()[1]}"
        n = rep.seen.get(sig, 0)
        rep.seen[sig] = n + 1
        if n < 2:
            ck.violation("impl-violation", sig, f"{src!r} with v = range(10**30) raises {bad[0].split()[1][1:]}: not a LiquidError",
                         {"type": "hugerange", "template": src, "observed": list(obs6)})


def _combos(site_name, src, site, nargs, sets):
    all_names, left1, args1, left2, args2 = sets
    if site is None and nargs == 2 and len(args2) == len(ARGS2_QUICK):
        args2 = args2[1::2] + ["i7"]  # quick tier, oracle-only two-argument sites: every other argument class
    if nargs == 0:
        return [(site_name, src, site, (v,)) for v in all_names]
    if nargs == 1:
        return [(site_name, src, site, (v, a)) for v in left1 for a in args1]
    return [(site_name, src, site, (v, a, b)) for v in left2 for a in args2 for b in args2]


# ----------------------------------------------------------------------------------------------- replay
def replay(data) -> int:
    case = data["case"]
    t = case.get("type")
    with warnings.catch_warnings():
        warnings.simplefilter("ignore")
        if t == "render":
            obs6 = run6(case["template"], data_of(case["reps"]))
            print("template:", case["template"], "representatives:", case["reps"])
            print("observed (STRICT,WARN,LAX x sync,async):", obs6)
            bad = any(o.startswith("OForeign") for o in obs6)
        elif t == "hugerange":
            obs6 = run6(case["template"], {"v": range(10 ** 30)})
            print("template:", case["template"], "v = range(10**30)")
            print("observed (STRICT,WARN,LAX x sync,async):", obs6)
            bad = any(o.startswith("OForeign") for o in obs6)
        elif t == "date":
            obs6 = run6(case["template"], {"v": eval(case["v"]), "a": eval(case["a"])})  # noqa: S307
            print("template:", case["template"], "v =", case["v"], "a =", case["a"])
            print("observed (STRICT,WARN,LAX x sync,async):", obs6)
            bad = any(o.startswith("OForeign") for o in obs6)
        elif t in ("parse", "parsed-render"):
            from liquid.exceptions import LiquidError

            bad = False
            for m in MODES:
                try:
                    tp = envs()[m].from_string(case["template"])
                    for use_async in (False, True):
                        try:
                            run_async(tp.render_async(**PARSE_DATA)) if use_async else tp.render(**PARSE_DATA)
                        except LiquidError:
                            pass
                except LiquidError:
                    pass
                except Exception as e:  # noqa: BLE001
                    print(m, "->", type(e).__name__)
                    bad = True
        elif t == "recursion":
            ck = type("K", (), {"note_case": lambda *a, **k: None, "count": lambda *a, **k: None, "violations": []})()
            ck.violation = lambda *a, **k: ck.violations.append(a)
            recursion_cases(ck, None)
            bad = bool(ck.violations)
        else:
            print("replay names a proof/correspondence obligation:", case)
            return 1
    print(("VIOLATION reproduced" if bad else "not reproduced") + f" property={data['property']}")
    return 1 if bad else 0
