"""Shared by C06 / C07 / C08: the nest mini-language of coq/theories/Limits.v, its printers (Liquid source +
partials, Gallina term) and the runner of the real engine under a given set of resource limits.

nest node (Python tuples):
  ('text', s) ('echo', x) ('assign', x, s) ('capture', x, body) ('ifchanged', body)
  ('for', n, body) ('tablerow', n, body) ('include', body) ('includearr', n, body)
  ('render', body) ('renderfor', n, body) ('call', body)
"""

from __future__ import annotations

import sys

from ..core import run_async
from ..g import g_N, g_Z, g_list, g_opt, g_str

IMPORTS = "PyPrims Limits"

REPEATING = ("for", "tablerow", "includearr", "renderfor")
PLAIN = ("include", "render", "call")
BODY1 = ("ifchanged", "include", "render", "call")  # (kind, body)
BODY2 = ("capture", "for", "tablerow", "includearr", "renderfor")  # (kind, arg, body)

DEFAULT_DEPTH = 30
DEFAULT_NEST = 30


def body_of(n):
    if n[0] in BODY1:
        return n[1]
    if n[0] in BODY2:
        return n[2]
    return None


# ------------------------------------------------------------------ printers
class Printer:
    """nest -> (main source, {partial name: source}, data)."""

    def __init__(self):
        self.parts = {}
        self.data = {}
        self.k = 0

    def fresh(self, prefix):
        self.k += 1
        return f"{prefix}{self.k}"

    def arr(self, n):
        self.data[f"a{n}"] = list(range(n))
        return f"a{n}"

    def seq(self, body):
        return "".join(self.node(n) for n in body)

    def node(self, n):
        k = n[0]
        if k == "text":
            return n[1]
        if k == "echo":
            return f"{{{{ v{n[1]} }}}}"
        if k == "assign":
            return f"{{% assign v{n[1]} = '{n[2]}' %}}"
        if k == "capture":
            return f"{{% capture v{n[1]} %}}" + self.seq(n[2]) + "{% endcapture %}"
        if k == "ifchanged":
            return "{% ifchanged %}" + self.seq(n[1]) + "{% endifchanged %}"
        if k == "for":
            return f"{{% for i in (1..{n[1]}) %}}" + self.seq(n[2]) + "{% endfor %}"
        if k == "tablerow":
            return f"{{% tablerow i in (1..{n[1]}) %}}" + self.seq(n[2]) + "{% endtablerow %}"
        if k in ("include", "render"):
            name = self.fresh("p")
            self.parts[name] = self.seq(n[1])
            return f"{{% {k} '{name}' %}}"
        if k in ("includearr", "renderfor"):
            name = self.fresh("p")
            self.parts[name] = self.seq(n[2])
            tag = "include" if k == "includearr" else "render"
            return f"{{% {tag} '{name}' for {self.arr(n[1])} %}}"
        if k == "call":
            name = self.fresh("m")
            return f"{{% macro {name} %}}" + self.seq(n[1]) + f"{{% endmacro %}}{{% call {name} %}}"
        raise ValueError(k)


def to_source(main):
    p = Printer()
    src = p.seq(main)
    return src, p.parts, p.data


def g_node(n) -> str:
    k = n[0]
    if k == "text":
        return f"Text {g_str(n[1])}"
    if k == "echo":
        return f"Echo {g_N(n[1])}"
    if k == "assign":
        return f"Assign {g_N(n[1])} {g_str(n[2])}"
    if k == "capture":
        return f"Capture {g_N(n[1])} {g_body(n[2])}"
    ctor = {"ifchanged": "IfChanged", "for": "For", "tablerow": "Tablerow", "include": "Include",
            "includearr": "IncludeArr", "render": "Render", "renderfor": "RenderFor", "call": "Call"}[k]
    if k in BODY1:
        return f"{ctor} {g_body(n[1])}"
    return f"{ctor} {g_N(n[1])} {g_body(n[2])}"


def g_body(body) -> str:
    return g_list(g_node(n) for n in body)


MODES = ("strict", "warn", "lax")
_G_MODE = {"strict": "Strict", "warn": "Warn", "lax": "Lax"}


class Limits:
    """One configuration: the five limits (None = not configured; depth/nesting default to 30) and the mode."""

    __slots__ = ("loop", "out", "ns", "depth", "nest", "mode")

    def __init__(self, loop=None, out=None, ns=None, depth=DEFAULT_DEPTH, nest=DEFAULT_NEST, mode="strict"):
        self.loop, self.out, self.ns, self.depth, self.nest, self.mode = loop, out, ns, depth, nest, mode

    def key(self):
        return (self.loop, self.out, self.ns, self.depth, self.nest, self.mode)

    def as_dict(self):
        return {"loop": self.loop, "out": self.out, "ns": self.ns, "depth": self.depth, "nest": self.nest, "mode": self.mode}

    @staticmethod
    def from_dict(d):
        return Limits(d.get("loop"), d.get("out"), d.get("ns"), d.get("depth", DEFAULT_DEPTH), d.get("nest", DEFAULT_NEST),
                      d.get("mode", "strict"))

    def replace(self, **kw):
        d = self.as_dict()
        d.update(kw)
        return Limits.from_dict(d)

    def gallina(self) -> str:
        return (f"{{| l_loop := {g_opt(self.loop, g_N)}; l_out := {g_opt(self.out, g_Z)}; l_ns := {g_opt(self.ns, g_Z)}; "
                f"l_depth := {g_Z(self.depth)}; l_nest := {g_Z(self.nest)} |}}")


def g_case(lim: Limits, main, sizes) -> str:
    return (f"{{| c_mode := {_G_MODE[lim.mode]}; c_lim := {lim.gallina()}; c_main := {g_body(main)}; "
            f"c_sizes := {g_list(g_Z(z) for z in sizes)} |}}")


def g_limits(lim: "Limits") -> str:
    return (f"(Build_limits {g_opt(lim.loop, g_N)} {g_opt(lim.out, g_Z)} {g_opt(lim.ns, g_Z)} {g_Z(lim.depth)} {g_Z(lim.nest)})")


def g_run(lim: "Limits", sizes) -> str:
    """(mode, (limits, sizes)), compact when at most one limit is configured."""
    return {"strict": "InS", "warn": "InW", "lax": "InL"}[lim.mode] + " " + _g_run(lim, sizes)


def _g_run(lim: "Limits", sizes) -> str:
    z = g_list(g_Z(v) for v in sizes)
    set_ = [(k, v) for k, v in (("loop", lim.loop), ("out", lim.out), ("ns", lim.ns)) if v is not None]
    if lim.depth != DEFAULT_DEPTH:
        set_.append(("depth", lim.depth))
    if lim.nest != DEFAULT_NEST:
        set_.append(("nest", lim.nest))
    if not set_:
        return f"(RNone {z})"
    if len(set_) == 1:
        k, v = set_[0]
        ctor = {"loop": "RLoop", "out": "ROut", "ns": "RNs", "depth": "RDepth", "nest": "RNest"}[k]
        return f"({ctor} {g_N(v) if k == 'loop' else g_Z(v)} {z})"
    return f"({g_limits(lim)}, {z})"


def g_dobs_c(o) -> str:
    if o[0] == "out" and not o[2] and len(o[1]) == len(o[1].encode("utf-8")):
        return f"(D {g_N(len(o[1]))} {g_N(hash_str(o[1]))})"
    return g_dobs(o)


class Sweeps:
    """Cases grouped by nest: the model is evaluated on (nest, [(limits, sizes)...]) at once, and only the groups
    that disagree are re-evaluated run by run."""

    def __init__(self):
        self.groups = []  # (nest, printed, [(lim, sizes, obs, explained)])

    def group(self, nest, printed):
        self.groups.append((nest, printed, []))

    def add(self, lim, sizes, obs, explained=False):
        self.groups[-1][2].append((lim, sizes, obs, explained))

    def runs(self):
        return sum(len(g[2]) for g in self.groups)

    def mismatches(self, ck, name, chunk=60):
        """-> [(nest, printed, lim, sizes, obs)] for the runs on which model and implementation disagree and that
        no oracle violation already explains."""
        groups = [g for g in self.groups if g[2]]
        cases = ["(Build_sweep " + g_body(nest) + " " + g_list(g_run(lim, sizes) for lim, sizes, _, _ in runs) + ")"
                 for nest, _, runs in groups]
        expected = [g_list(g_dobs_c(obs) for _, _, obs, _ in runs) for _, _, runs in groups]
        chunk = max(chunk, -(-len(groups) // 32))  # at most ~32 shards: loading the libraries costs as much as hundreds of runs
        mm = ck.coq_mismatches(name, IMPORTS, "run_sweep", "list_eqb dobs_eqb", "sweep", "list dobs", cases, expected, chunk=chunk)
        nruns = sum(len(g[2]) for g in groups)
        ck.model_cases += nruns - len(groups)
        ck.traces += nruns
        out = []
        bad_groups = len(mm)
        for gi in mm[:6]:
            nest, printed, runs = groups[gi]
            c2 = [f"(Build_case {_G_MODE[lim.mode]} {g_limits(lim)} {g_body(nest)} {g_list(g_Z(z) for z in sizes)})" for lim, sizes, _, _ in runs]
            e2 = [g_dobs(obs) for _, _, obs, _ in runs]
            for ri in ck.coq_mismatches(f"{name}_g{gi}", IMPORTS, "run_digest", "dobs_eqb", "case", "dobs", c2, e2, chunk=2000):
                lim, sizes, obs, explained = runs[ri]
                if not explained:
                    out.append((nest, printed, lim, sizes, obs))
        ck.extra["model_mismatching_nests"] = bad_groups
        return out


def g_obs(o) -> str:
    """('out', text, nslog) | ('err', 'XLoop')."""
    if o[0] == "out":
        return f"OOut {g_str(o[1])} {g_list(g_Z(z) for z in o[2])}"
    return f"OErr {o[1]}"


def hash_str(s: str) -> int:
    h = 7
    for c in s:
        h = (h * 31 + ord(c) + 1) % 2147483647
    return h


def g_dobs(o) -> str:
    """Digest of an observation (Limits.digest)."""
    if o[0] == "out":
        return f"DOut {g_N(len(o[1]))} {g_Z(len(o[1].encode('utf-8')))} {g_N(hash_str(o[1]))} {g_list(g_Z(z) for z in o[2])}"
    return f"DErr {o[1]}"


# ------------------------------------------------------------------ engine
_CLASSES = [
    ("XLoop", "LoopIterationLimitError"),
    ("XOutput", "OutputStreamLimitError"),
    ("XNamespace", "LocalNamespaceLimitError"),
    ("XDepth", "ContextDepthError"),
    ("XNesting", "BlockNestingError"),
    ("XDisabled", "DisabledTagError"),
]
LIMIT_CLASSES = ("XLoop", "XOutput", "XNamespace", "XDepth", "XNesting")


def classify(e: BaseException) -> str:
    import liquid.exceptions as X

    for tag, cname in _CLASSES:
        if isinstance(e, getattr(X, cname)):
            return tag
    return "other:" + type(e).__name__


_TEMPLATE_CLASS = None


def _template_class():
    """BoundTemplate whose render context records, at every assignment, the measured size of the value and the
    namespace size the engine computes afterwards (public hooks: Environment.template_class, BoundTemplate.context_class)."""
    global _TEMPLATE_CLASS
    if _TEMPLATE_CLASS is None:
        from liquid import BoundTemplate
        from liquid.context import RenderContext

        class RecContext(RenderContext):
            def assign(self, key, val):
                rec = self.env.verif_rec
                rec["sizes"].append(sys.getsizeof(val, 1))
                try:
                    super().assign(key, val)
                    rec["ns"].append(self.get_size_of_locals())  # the engine's figure after a successful assignment
                finally:
                    # measured independently of the engine's bookkeeping: the local namespaces of this context
                    # and of every context it was copied from
                    total, c = 0, self
                    while c is not None:
                        total += sum(sys.getsizeof(v, 1) for v in c.locals.values())
                        c = c.parent_context
                    rec["true"].append(total)

        class RecTemplate(BoundTemplate):
            context_class = RecContext

        _TEMPLATE_CLASS = RecTemplate
    return _TEMPLATE_CLASS


def make_env(lim: Limits, parts):
    from liquid import DictLoader, Environment
    import liquid.extra as ex

    attrs = {
        "loop_iteration_limit": lim.loop,
        "output_stream_limit": lim.out,
        "local_namespace_limit": lim.ns,
        "context_depth_limit": lim.depth,
        "block_nesting_limit": lim.nest,
        "template_class": _template_class(),
    }
    from liquid import Mode

    cls = type("VerifEnv", (Environment,), attrs)
    env = cls(loader=DictLoader(dict(parts)), tolerance={"strict": Mode.STRICT, "warn": Mode.WARN, "lax": Mode.LAX}[lim.mode])
    ex.add_tags(env)
    env.verif_rec = {"sizes": [], "ns": [], "true": []}
    return env


def run_impl(main, lim: Limits, use_async: bool, printed=None, want_true=False):
    """-> (obs, sizes) with obs = ('out', text, nslog) | ('err', class tag)."""
    src, parts, data = printed or to_source(main)
    env = make_env(lim, parts)
    rec = env.verif_rec
    import warnings

    try:
        with warnings.catch_warnings():
            warnings.simplefilter("ignore")
            t = env.from_string(src)
            out = run_async(t.render_async(**data)) if use_async else t.render(**data)
        obs = ("out", out, list(rec["ns"]) if lim.ns is not None else [])
    except Exception as e:  # noqa: BLE001
        obs = ("err", classify(e))
    if want_true:
        return obs, list(rec["sizes"]), list(rec["true"])
    return obs, list(rec["sizes"])


# ------------------------------------------------------------------ independent arithmetic on nests (oracles)
def leaf_count(body, mult=1):
    """Number of 'text' executions of an unlimited render (every construct runs its body len times)."""
    total = 0
    for n in body:
        k = n[0]
        if k == "text":
            total += mult
        elif k in REPEATING:
            total += leaf_count(n[2], mult * n[1])
        elif body_of(n) is not None:
            total += leaf_count(body_of(n), mult)
    return total


def max_loop_product(body, prod=1):
    """Largest product of enclosing lengths, own length included, over the repeating constructs a complete render enters."""
    best = 0
    for n in body:
        k = n[0]
        if k in REPEATING:
            if n[1] == 0:
                continue
            p = prod * n[1]
            best = max(best, p, max_loop_product(n[2], p))
        elif body_of(n) is not None:
            best = max(best, max_loop_product(body_of(n), prod))
    return best


def max_leaf_product(body, prod=1):
    """Largest product of enclosing lengths over the text leaves a complete render executes (0 if none)."""
    best = 0
    for n in body:
        k = n[0]
        if k == "text":
            best = max(best, prod)
        elif k in REPEATING:
            if n[1]:
                best = max(best, max_leaf_product(n[2], prod * n[1]))
        elif body_of(n) is not None:
            best = max(best, max_leaf_product(body_of(n), prod))
    return best


def leaf_count_within(body, limit, mult=1, prod=1):
    """Number of 'text' executions of an unlimited render whose product of enclosing lengths is <= limit."""
    total = 0
    for n in body:
        k = n[0]
        if k == "text":
            total += mult if prod <= limit else 0
        elif k in REPEATING:
            total += leaf_count_within(n[2], limit, mult * n[1], prod * n[1])
        elif body_of(n) is not None:
            total += leaf_count_within(body_of(n), limit, mult, prod)
    return total


def utf8(s: str) -> int:
    return len(s.encode("utf-8"))


# ------------------------------------------------------------------ random trees over all twelve constructs
ALPHABET = ("x", "a", "b", "-", "\u00e9", "\u00df", "\u20ac", "\u4e2d", "\U0001f600")
_WEIGHTS = (("text", 26), ("echo", 9), ("assign", 8), ("capture", 9), ("ifchanged", 7), ("for", 10), ("tablerow", 5),
            ("include", 6), ("includearr", 5), ("render", 6), ("renderfor", 4), ("call", 5))


def rand_text(rng, lo=1, hi=4, cr=True):
    """Never whitespace-only; sometimes with a carriage return / CRLF in the middle (a limited buffer must not
    translate them)."""
    t = "".join(rng.choice(ALPHABET) for _ in range(rng.randrange(lo, hi + 1)))
    if cr and t and rng.random() < 0.12:
        t += rng.choice(("\r\n", "\r")) + rng.choice(ALPHABET)
    return t


def gen_tree(rng, maxdepth=3, lengths=(0, 1, 2, 3), depth=0, no_include=False, width=3, nvars=3):
    kinds = [k for k, w in _WEIGHTS for _ in range(w)]
    out = []
    for _ in range(rng.randrange(1, width + 1)):
        k = rng.choice(kinds)
        if depth >= maxdepth and k not in ("text", "echo", "assign"):
            k = "text"
        if k in ("include", "includearr") and no_include and rng.random() < 0.9:
            k = "render" if k == "include" else "renderfor"
        sub = lambda ni=no_include: gen_tree(rng, maxdepth, lengths, depth + 1, ni, width, nvars)  # noqa: E731
        if k == "text":
            out.append(("text", rand_text(rng)))
        elif k == "echo":
            out.append(("echo", rng.randrange(nvars)))
        elif k == "assign":
            out.append(("assign", rng.randrange(nvars), rand_text(rng, 0, 6, cr=False)))
        elif k == "capture":
            out.append(("capture", rng.randrange(nvars), sub()))
        elif k == "ifchanged":
            out.append(("ifchanged", sub()))
        elif k in ("for", "tablerow", "includearr"):
            out.append((k, rng.choice(lengths), sub()))
        elif k == "renderfor":
            out.append((k, rng.choice(lengths), sub(True)))
        elif k == "include":
            out.append((k, sub()))
        else:  # render, call
            out.append((k, sub(True)))
    return normalize(out) if depth == 0 else out


def normalize(nest):
    """Adjacent literal texts are ONE content node of the parsed template (one write): merge them, recursively."""
    out = []
    for n in nest:
        k = n[0]
        if k == "text" and out and out[-1][0] == "text":
            out[-1] = ("text", out[-1][1] + n[1])
        elif k in BODY1:
            out.append((k, normalize(n[1])))
        elif k in BODY2:
            out.append((k, n[1], normalize(n[2])))
        else:
            out.append(tuple(n))
    return out


def shape_of(nest):
    out = []
    for n in nest:
        b = body_of(n)
        out.append(n[0] if b is None else n[0] + "(" + shape_of(b) + ")")
    return " ".join(out)


def kinds_in(nest, acc=None):
    acc = set() if acc is None else acc
    for n in nest:
        acc.add(n[0])
        b = body_of(n)
        if b is not None:
            kinds_in(b, acc)
    return acc


def sweep_values(hi, cap, rng):
    """0..hi, all of them when hi <= cap, else `cap` values including both ends."""
    if hi <= cap:
        return list(range(0, hi + 1))
    vals = {0, 1, hi, hi - 1, hi // 2}
    while len(vals) < cap:
        vals.add(rng.randrange(0, hi + 1))
    return sorted(vals)
