"""Shared by C06 / C07 / C08: the nest mini-language of coq/theories/Limits.v, its printers (Liquid source +
partials, Gallina term) and the runner of the real engine under a given set of resource limits.

nest node (Python tuples):
  ('text', s) ('echo', x) ('assign', x, s) ('capture', x, body) ('ifchanged', body)
  ('for', n, body) ('tablerow', n, body) ('include', body) ('includearr', n, body)
  ('render', body) ('renderfor', n, body) ('call', body)
template inheritance (liquid.extra), SOURCE form - what the printer distributes over a chain of templates:
  ('block', [top, ..., bottom])  a block tag standing in the template being printed, with its definitions, most derived first
                                 (the last one is the tag's own body, the others go to the templates that extend it)
  ('blockd', body)               a block tag that has no stack (no chain / inside a partial or macro): rendered in place
  ('super',)                     {{ block.super }}
and EXPANDED form (expand(): every block.super carries the next definition down, as Limits.node does):
  ('blockx', top) ('blockd', body) ('superx', next) ('superu',)
"""

from __future__ import annotations

import sys

from ..core import run_async
from ..g import g_N, g_Z, g_list, g_opt, g_str

IMPORTS = "PyPrims Limits"

REPEATING = ("for", "tablerow", "includearr", "renderfor")
PLAIN = ("include", "render", "call")
BODY1 = ("ifchanged", "include", "render", "call", "blockd", "blockx", "superx")  # (kind, body)
ISOLATING = ("render", "renderfor", "call", "blockd")   # no block object with a parent in scope inside
BODY2 = ("capture", "for", "tablerow", "includearr", "renderfor")  # (kind, arg, body)

DEFAULT_DEPTH = 30
DEFAULT_NEST = 30


def body_of(n):
    if n[0] in BODY1:
        return n[1]
    if n[0] in BODY2:
        return n[2]
    return None


# ------------------------------------------------------------------ printers
class Printer:
    """nest (SOURCE form) -> the templates of a chain of `levels` templates + partials + data.

    Template 0 is the one that is rendered; template i extends template i+1; the nest is the body of the LAST (base)
    template.  A ('block', defs) standing in template j puts its last definition there and the m-1 overriding ones, as
    top-level block tags, into templates j-m+1 .. j-1."""

    def __init__(self, levels=1):
        self.parts = {}
        self.data = {}
        self.k = 0
        self.levels = levels
        self.extra = [[] for _ in range(levels)]
        self.depth = [0] * levels

    def fresh(self, prefix):
        self.k += 1
        return f"{prefix}{self.k}"

    def arr(self, n):
        self.data[f"a{n}"] = list(range(n))
        return f"a{n}"

    def seq(self, body, level=None):
        """-> (text, deepest block nesting of the text)."""
        out, d = [], 0
        for n in body:
            t, dn = self.node(n, level)
            out.append(t)
            d = max(d, dn)
        return "".join(out), d

    def part(self, body):
        name = self.fresh("p")
        self.parts[name] = self.seq(body)[0]
        return name

    def node(self, n, level=None):
        k = n[0]
        if k == "text":
            return n[1], 0
        if k == "echo":
            return f"{{{{ v{n[1]} }}}}", 0
        if k == "assign":
            return f"{{% assign v{n[1]} = '{n[2]}' %}}", 0
        if k == "super":
            return "{{ block.super }}", 0
        if k == "capture":
            t, d = self.seq(n[2], level)
            return f"{{% capture v{n[1]} %}}" + t + "{% endcapture %}", d + 1
        if k == "ifchanged":
            t, d = self.seq(n[1], level)
            return "{% ifchanged %}" + t + "{% endifchanged %}", d + 1
        if k == "for":
            t, d = self.seq(n[2], level)
            return f"{{% for i in (1..{n[1]}) %}}" + t + "{% endfor %}", d + 1
        if k == "tablerow":
            t, d = self.seq(n[2], level)
            return f"{{% tablerow i in (1..{n[1]}) %}}" + t + "{% endtablerow %}", d + 1
        if k in ("include", "render"):
            return f"{{% {k} '{self.part(n[1])}' %}}", 0
        if k in ("includearr", "renderfor"):
            tag = "include" if k == "includearr" else "render"
            return f"{{% {tag} '{self.part(n[2])}' for {self.arr(n[1])} %}}", 0
        if k == "call":
            name = self.fresh("m")
            t, d = self.seq(n[1], None)     # a block tag inside a macro is rendered in the macro's own context: no stack
            return f"{{% macro {name} %}}" + t + f"{{% endmacro %}}{{% call {name} %}}", d + 1
        if k == "blockd":
            assert level is None or self.levels == 1, "a block tag in a template of a chain has a stack"
            name = self.fresh("b")
            t, d = self.seq(n[1], None)
            return f"{{% block {name} %}}" + t + "{% endblock %}", d + 1
        if k == "block":
            defs = n[1]
            m = len(defs)
            assert level is not None and self.levels >= 2 and 1 <= m <= level + 1, (level, m, self.levels)
            name = self.fresh("b")
            for i in range(m - 1):
                li = level - (m - 1) + i
                t, d = self.seq(defs[i], li)
                self.extra[li].append(f"{{% block {name} %}}" + t + "{% endblock %}")
                self.depth[li] = max(self.depth[li], d + 1)
            t, d = self.seq(defs[m - 1], level)
            return f"{{% block {name} %}}" + t + "{% endblock %}", d + 1
        raise ValueError(k)


def to_source(main, levels=1):
    """-> (source of the template to render, {name: source} of its parents and partials, data, block-nesting depths of
    the chain's templates ([] when there is no chain))."""
    p = Printer(levels)
    base, d = p.seq(main, levels - 1)
    if levels == 1:
        return base, p.parts, p.data, []
    p.depth[levels - 1] = max(p.depth[levels - 1], d)
    srcs = []
    for i in range(levels - 1):
        srcs.append(f"{{% extends 'c{i + 1}' %}}" + "".join(p.extra[i]))
    srcs.append(base + "".join(p.extra[levels - 1]))
    for i in range(1, levels):
        p.parts[f"c{i}"] = srcs[i]
    return srcs[0], p.parts, p.data, list(p.depth)


def expand(body, sup=()):
    """SOURCE form -> EXPANDED form: sup = the definitions below the one being expanded."""
    out = []
    for n in body:
        k = n[0]
        if k == "super":
            out.append(("superx", expand(sup[0], sup[1:])) if sup else ("superu",))
        elif k == "block":
            out.append(("blockx", expand(n[1][0], tuple(n[1][1:]))))
        elif k == "blockd":
            out.append(("blockd", expand(n[1], ())))
        elif k in BODY1:
            out.append((k, expand(n[1], sup)))
        elif k in BODY2:
            out.append((k, n[1], expand(n[2], sup)))
        else:
            out.append(tuple(n))
    return out


def g_node(n) -> str:
    """EXPANDED form -> Limits.node."""
    k = n[0]
    if k == "text":
        return f"Text {g_str(n[1])}"
    if k == "echo":
        return f"Echo {g_N(n[1])}"
    if k == "assign":
        return f"Assign {g_N(n[1])} {g_str(n[2])}"
    if k == "capture":
        return f"Capture {g_N(n[1])} {g_body(n[2])}"
    if k == "superu":
        return "SuperU"
    ctor = {"ifchanged": "IfChanged", "for": "For", "tablerow": "Tablerow", "include": "Include",
            "includearr": "IncludeArr", "render": "Render", "renderfor": "RenderFor", "call": "Call",
            "blockx": "Block", "blockd": "BlockD", "superx": "Super"}[k]
    if k in BODY1:
        return f"{ctor} {g_body(n[1])}"
    return f"{ctor} {g_N(n[1])} {g_body(n[2])}"


def g_body(body) -> str:
    return g_list(g_node(n) for n in body)


def g_glob(glob) -> str:
    """{'v0': 'text'} -> list (N * str)."""
    def val(v):
        if len(v) > 8 and v == v[0] * len(v):
            return f"(repeat {ord(v[0])}%N {len(v)})"
        return g_str(v)

    return g_list(f"({g_N(int(k[1:]))}, {val(v)})" for k, v in sorted(glob.items()))


MODES = ("strict", "warn", "lax")
_G_MODE = {"strict": "Strict", "warn": "Warn", "lax": "Lax"}


class Limits:
    """One configuration: the five limits (None = not configured; depth/nesting default to 30) and the mode."""

    __slots__ = ("loop", "out", "ns", "depth", "nest", "mode")

    def __init__(self, loop=None, out=None, ns=None, depth=DEFAULT_DEPTH, nest=DEFAULT_NEST, mode="strict"):
        self.loop, self.out, self.ns, self.depth, self.nest, self.mode = loop, out, ns, depth, nest, mode

    def key(self):
        return (self.loop, self.out, self.ns, self.depth, self.nest, self.mode)

    def as_dict(self):
        return {"loop": self.loop, "out": self.out, "ns": self.ns, "depth": self.depth, "nest": self.nest, "mode": self.mode}

    @staticmethod
    def from_dict(d):
        return Limits(d.get("loop"), d.get("out"), d.get("ns"), d.get("depth", DEFAULT_DEPTH), d.get("nest", DEFAULT_NEST),
                      d.get("mode", "strict"))

    def replace(self, **kw):
        d = self.as_dict()
        d.update(kw)
        return Limits.from_dict(d)

    def gallina(self) -> str:
        return (f"{{| l_loop := {g_opt(self.loop, g_N)}; l_out := {g_opt(self.out, g_Z)}; l_ns := {g_opt(self.ns, g_Z)}; "
                f"l_depth := {g_Z(self.depth)}; l_nest := {g_Z(self.nest)} |}}")


def g_case(lim: Limits, main, sizes, chain=(), glob=None) -> str:
    """main: EXPANDED form."""
    return (f"{{| c_mode := {_G_MODE[lim.mode]}; c_lim := {lim.gallina()}; c_chain := {g_list(g_Z(z) for z in chain)}; "
            f"c_main := {g_body(main)}; c_glob := {g_glob(glob or {})}; c_sizes := {g_list(g_Z(z) for z in sizes)} |}}")


def g_limits(lim: "Limits") -> str:
    return (f"(Build_limits {g_opt(lim.loop, g_N)} {g_opt(lim.out, g_Z)} {g_opt(lim.ns, g_Z)} {g_Z(lim.depth)} {g_Z(lim.nest)})")


def g_run(lim: "Limits", sizes, glob=None) -> str:
    """Limits.run, compact when at most one limit is configured."""
    r = {"strict": "InS", "warn": "InW", "lax": "InL"}[lim.mode] + " " + _g_run(lim, sizes)
    return f"G {g_glob(glob)} ({r})" if glob else r


def _g_run(lim: "Limits", sizes) -> str:
    z = g_list(g_Z(v) for v in sizes)
    set_ = [(k, v) for k, v in (("loop", lim.loop), ("out", lim.out), ("ns", lim.ns)) if v is not None]
    if lim.depth != DEFAULT_DEPTH:
        set_.append(("depth", lim.depth))
    if lim.nest != DEFAULT_NEST:
        set_.append(("nest", lim.nest))
    if not set_:
        return f"(RNone {z})"
    if len(set_) == 1:
        k, v = set_[0]
        ctor = {"loop": "RLoop", "out": "ROut", "ns": "RNs", "depth": "RDepth", "nest": "RNest"}[k]
        return f"({ctor} {g_N(v) if k == 'loop' else g_Z(v)} {z})"
    return f"({g_limits(lim)}, {z})"


def g_dobs_c(o) -> str:
    if o[0] == "out" and not o[2] and len(o[1]) == len(o[1].encode("utf-8")):
        return f"(D {g_N(len(o[1]))} {g_N(hash_str(o[1]))})"
    return g_dobs(o)


class Sweeps:
    """Cases grouped by nest: the model is evaluated on (nest, [(limits, sizes)...]) at once, and only the groups
    that disagree are re-evaluated run by run."""

    def __init__(self):
        self.groups = []  # (nest (SOURCE form), printed, [(lim, sizes, obs, explained, glob)])

    def group(self, nest, printed):
        self.groups.append((nest, printed, []))

    def add(self, lim, sizes, obs, explained=False, glob=None):
        self.groups[-1][2].append((lim, sizes, obs, explained, glob))

    def runs(self):
        return sum(len(g[2]) for g in self.groups)

    def mismatches(self, ck, name, chunk=60):
        """-> [(nest, printed, lim, sizes, obs, glob)] for the runs on which model and implementation disagree and that
        no oracle violation already explains."""
        groups = [g for g in self.groups if g[2]]
        cases = ["(Build_sweep " + g_list(g_Z(z) for z in printed[3]) + " " + g_body(expand(nest)) + " "
                 + g_list(g_run(lim, sizes, glob) for lim, sizes, _, _, glob in runs) + ")"
                 for nest, printed, runs in groups]
        expected = [g_list(g_dobs_c(obs) for _, _, obs, _, _ in runs) for _, _, runs in groups]
        chunk = max(chunk, -(-len(groups) // 32))  # at most ~32 shards: loading the libraries costs as much as hundreds of runs
        mm = ck.coq_mismatches(name, IMPORTS, "run_sweep", "list_eqb dobs_eqb", "sweep", "list dobs", cases, expected, chunk=chunk)
        nruns = sum(len(g[2]) for g in groups)
        ck.model_cases += nruns - len(groups)
        ck.traces += nruns
        out = []
        bad_groups = len(mm)
        for gi in mm[:6]:
            nest, printed, runs = groups[gi]
            c2 = [f"({g_case(lim, expand(nest), sizes, printed[3], glob)})" for lim, sizes, _, _, glob in runs]
            e2 = [g_dobs(obs) for _, _, obs, _, _ in runs]
            for ri in ck.coq_mismatches(f"{name}_g{gi}", IMPORTS, "run_digest", "dobs_eqb", "case", "dobs", c2, e2, chunk=2000):
                lim, sizes, obs, explained, glob = runs[ri]
                if not explained:
                    out.append((nest, printed, lim, sizes, obs, glob))
        ck.extra["model_mismatching_nests"] = bad_groups
        return out


def g_obs(o) -> str:
    """('out', text, nslog) | ('err', 'XLoop')."""
    if o[0] == "out":
        return f"OOut {g_str(o[1])} {g_list(g_Z(z) for z in o[2])}"
    return f"OErr {o[1]}"


def hash_str(s: str) -> int:
    h = 7
    for c in s:
        h = (h * 31 + ord(c) + 1) % 2147483647
    return h


def g_dobs(o) -> str:
    """Digest of an observation (Limits.digest)."""
    if o[0] == "out":
        return f"DOut {g_N(len(o[1]))} {g_Z(len(o[1].encode('utf-8')))} {g_N(hash_str(o[1]))} {g_list(g_Z(z) for z in o[2])}"
    return f"DErr {o[1]}"


# ------------------------------------------------------------------ engine
_CLASSES = [
    ("XLoop", "LoopIterationLimitError"),
    ("XOutput", "OutputStreamLimitError"),
    ("XNamespace", "LocalNamespaceLimitError"),
    ("XDepth", "ContextDepthError"),
    ("XNesting", "BlockNestingError"),
    ("XDisabled", "DisabledTagError"),
]
LIMIT_CLASSES = ("XLoop", "XOutput", "XNamespace", "XDepth", "XNesting")


def classify(e: BaseException) -> str:
    import liquid.exceptions as X

    for tag, cname in _CLASSES:
        if isinstance(e, getattr(X, cname)):
            return tag
    return "other:" + type(e).__name__


_TEMPLATE_CLASS = None


def _template_class():
    """BoundTemplate whose render context records, at every assignment, the measured size of the value and the
    namespace size the engine computes afterwards (public hooks: Environment.template_class, BoundTemplate.context_class)."""
    global _TEMPLATE_CLASS
    if _TEMPLATE_CLASS is None:
        from liquid import BoundTemplate
        from liquid.context import RenderContext

        class RecContext(RenderContext):
            def assign(self, key, val):
                rec = self.env.verif_rec
                rec["sizes"].append(sys.getsizeof(val, 1))
                try:
                    super().assign(key, val)
                    rec["ns"].append(self.get_size_of_locals())  # the engine's figure after a successful assignment
                finally:
                    # measured independently of the engine's bookkeeping: the local namespaces of every render context
                    # that is in use at this moment - this one, every context it was copied from, and every context
                    # some active call is still rendering with (a block suspended in block.super): the contexts that
                    # the frames of the Python call stack refer to
                    live = {}
                    c = self
                    while c is not None:
                        live[id(c)] = c
                        c = c.parent_context
                    f = sys._getframe(1)
                    while f is not None:
                        for v in f.f_locals.values():
                            if isinstance(v, RenderContext):
                                live[id(v)] = v
                            elif type(v).__name__ == "BlockDrop":
                                for c in (v.context, getattr(v, "render_context", None)):
                                    if isinstance(c, RenderContext):
                                        live[id(c)] = c
                        f = f.f_back
                    rec["true"].append(sum(sys.getsizeof(x, 1) for c in live.values() for x in c.locals.values()))

        class RecTemplate(BoundTemplate):
            context_class = RecContext

        _TEMPLATE_CLASS = RecTemplate
    return _TEMPLATE_CLASS


def make_env(lim: Limits, parts):
    from liquid import DictLoader, Environment
    import liquid.extra as ex

    attrs = {
        "loop_iteration_limit": lim.loop,
        "output_stream_limit": lim.out,
        "local_namespace_limit": lim.ns,
        "context_depth_limit": lim.depth,
        "block_nesting_limit": lim.nest,
        "template_class": _template_class(),
    }
    from liquid import Mode

    cls = type("VerifEnv", (Environment,), attrs)
    env = cls(loader=DictLoader(dict(parts)), tolerance={"strict": Mode.STRICT, "warn": Mode.WARN, "lax": Mode.LAX}[lim.mode])
    ex.add_tags(env)
    env.verif_rec = {"sizes": [], "ns": [], "true": []}
    return env


def run_impl(main, lim: Limits, use_async: bool, printed=None, want_true=False, glob=None):
    """-> (obs, sizes) with obs = ('out', text, nslog) | ('err', class tag).  printed = to_source(main, levels);
    glob: render arguments named like the template's variables."""
    src, parts, data = (printed or to_source(main))[:3]
    if glob:
        data = dict(data, **glob)
    env = make_env(lim, parts)
    rec = env.verif_rec
    import warnings

    try:
        with warnings.catch_warnings():
            warnings.simplefilter("ignore")
            t = env.from_string(src)
            out = run_async(t.render_async(**data)) if use_async else t.render(**data)
        obs = ("out", out, list(rec["ns"]) if lim.ns is not None else [])
    except Exception as e:  # noqa: BLE001
        obs = ("err", classify(e))
    if want_true:
        return obs, list(rec["sizes"]), list(rec["true"])
    return obs, list(rec["sizes"])


# ------------------------------------------------------------------ independent arithmetic on nests (oracles)
# All on the EXPANDED form.  insup: is a block object with a parent block in scope?  {{ block.super }} renders the next
# definition down where it is (every enclosing loop repeats it), and nothing where no such object is in scope.
def _inner(n, insup):
    """-> (body, insup inside it) of a construct that renders a body, or None."""
    k = n[0]
    if k == "superx":
        return (n[1], True) if insup else None
    if k == "blockx":
        return n[1], True
    b = body_of(n)
    if b is None:
        return None
    return b, (False if k in ISOLATING else insup)


def leaf_count(body, mult=1, insup=False):
    """Number of 'text' executions of an unlimited render (every construct runs its body len times)."""
    total = 0
    for n in body:
        if n[0] == "text":
            total += mult
            continue
        r = _inner(n, insup)
        if r is not None:
            total += leaf_count(r[0], mult * n[1] if n[0] in REPEATING else mult, r[1])
    return total


def max_loop_product(body, prod=1, insup=False):
    """Largest product of enclosing lengths, own length included, over the repeating constructs a complete render enters."""
    best = 0
    for n in body:
        r = _inner(n, insup)
        if r is None:
            continue
        if n[0] in REPEATING:
            if n[1] == 0:
                continue
            p = prod * n[1]
            best = max(best, p, max_loop_product(r[0], p, r[1]))
        else:
            best = max(best, max_loop_product(r[0], prod, r[1]))
    return best


def max_leaf_product(body, prod=1, insup=False):
    """Largest product of enclosing lengths over the text leaves a complete render executes (0 if none)."""
    best = 0
    for n in body:
        if n[0] == "text":
            best = max(best, prod)
            continue
        r = _inner(n, insup)
        if r is None:
            continue
        if n[0] in REPEATING:
            if n[1]:
                best = max(best, max_leaf_product(r[0], prod * n[1], r[1]))
        else:
            best = max(best, max_leaf_product(r[0], prod, r[1]))
    return best


def leaf_count_within(body, limit, mult=1, prod=1, insup=False):
    """Number of 'text' executions of an unlimited render whose product of enclosing lengths is <= limit."""
    total = 0
    for n in body:
        if n[0] == "text":
            total += mult if prod <= limit else 0
            continue
        r = _inner(n, insup)
        if r is None:
            continue
        if n[0] in REPEATING:
            total += leaf_count_within(r[0], limit, mult * n[1], prod * n[1], r[1])
        else:
            total += leaf_count_within(r[0], limit, mult, prod, r[1])
    return total


def utf8(s: str) -> int:
    return len(s.encode("utf-8"))


# ------------------------------------------------------------------ random trees over all twelve constructs
ALPHABET = ("x", "a", "b", "-", "\u00e9", "\u00df", "\u20ac", "\u4e2d", "\U0001f600")
_WEIGHTS = (("text", 26), ("echo", 9), ("assign", 8), ("capture", 9), ("ifchanged", 7), ("for", 10), ("tablerow", 5),
            ("include", 6), ("includearr", 5), ("render", 6), ("renderfor", 4), ("call", 5))


def rand_text(rng, lo=1, hi=4, cr=True):
    """Never whitespace-only; sometimes with a carriage return / CRLF in the middle (a limited buffer must not
    translate them)."""
    t = "".join(rng.choice(ALPHABET) for _ in range(rng.randrange(lo, hi + 1)))
    if cr and t and rng.random() < 0.12:
        t += rng.choice(("\r\n", "\r")) + rng.choice(ALPHABET)
    return t


def gen_tree(rng, maxdepth=3, lengths=(0, 1, 2, 3), depth=0, no_include=False, width=3, nvars=3, level=None, indef=False, blocks=0.0):
    """SOURCE form.  level: index of the chain template the text goes to (None: a partial, a macro, or no chain at
    all); indef: inside a block definition ({{ block.super }} may occur); blocks: weight of block tags."""
    kinds = [k for k, w in _WEIGHTS for _ in range(w)]
    if blocks:
        kinds += ["block"] * int(14 * blocks)
        if indef:
            kinds += ["super"] * int(16 * blocks)
    out = []
    for _ in range(rng.randrange(1, width + 1)):
        k = rng.choice(kinds)
        if depth >= maxdepth and k not in ("text", "echo", "assign", "super"):
            k = "text"
        if k in ("include", "includearr") and no_include and rng.random() < 0.9:
            k = "render" if k == "include" else "renderfor"

        def sub(ni=no_include, lv=level, ind=indef, bl=blocks):
            return gen_tree(rng, maxdepth, lengths, depth + 1, ni, width, nvars, lv, ind, bl)

        if k == "text":
            out.append(("text", rand_text(rng)))
        elif k == "echo":
            out.append(("echo", rng.randrange(nvars)))
        elif k == "assign":
            out.append(("assign", rng.randrange(nvars), rand_text(rng, 0, 6, cr=False)))
        elif k == "super":
            out.append(("super",))
        elif k == "capture":
            out.append(("capture", rng.randrange(nvars), sub()))
        elif k == "ifchanged":
            out.append(("ifchanged", sub()))
        elif k in ("for", "tablerow"):
            out.append((k, rng.choice(lengths), sub()))
        elif k == "includearr":
            out.append((k, rng.choice(lengths), sub(lv=None)))
        elif k == "renderfor":
            out.append((k, rng.choice(lengths), sub(True, None)))
        elif k == "include":
            out.append((k, sub(lv=None)))
        elif k == "block":
            if level is None:
                out.append(("blockd", sub(lv=None, ind=True)))      # no stack: block.super is undefined inside
            else:
                m = rng.randrange(1, min(3, level + 1) + 1)
                out.append(("block", [sub(lv=level - (m - 1) + i, ind=True) for i in range(m)]))
        elif k == "call":   # block tags are disabled in a macro call: rarely
            out.append((k, sub(True, None, bl=blocks if rng.random() < 0.1 else 0.0)))
        else:  # render
            out.append((k, sub(True, None)))
    return normalize(out) if depth == 0 else out


def normalize(nest):
    """Adjacent literal texts are ONE content node of the parsed template (one write): merge them, recursively."""
    out = []
    for n in nest:
        k = n[0]
        if k == "text" and out and out[-1][0] == "text":
            out[-1] = ("text", out[-1][1] + n[1])
        elif k == "block":
            out.append((k, [normalize(d) for d in n[1]]))
        elif k in BODY1:
            out.append((k, normalize(n[1])))
        elif k in BODY2:
            out.append((k, n[1], normalize(n[2])))
        else:
            out.append(tuple(n))
    return out


def shape_of(nest):
    out = []
    for n in nest:
        if n[0] == "block":
            out.append("block(" + " / ".join(shape_of(d) for d in n[1]) + ")")
            continue
        b = body_of(n)
        out.append(n[0] if b is None else n[0] + "(" + shape_of(b) + ")")
    return " ".join(out)


def kinds_in(nest, acc=None):
    acc = set() if acc is None else acc
    for n in nest:
        acc.add(n[0])
        if n[0] == "block":
            for d in n[1]:
                kinds_in(d, acc)
            continue
        b = body_of(n)
        if b is not None:
            kinds_in(b, acc)
    return acc


def has_blocks(nest):
    return bool(kinds_in(nest) & {"block", "blockd", "super"})


def sweep_values(hi, cap, rng):
    """0..hi, all of them when hi <= cap, else `cap` values including both ends."""
    if hi <= cap:
        return list(range(0, hi + 1))
    vals = {0, 1, hi, hi - 1, hi // 2}
    while len(vals) < cap:
        vals.add(rng.randrange(0, hi + 1))
    return sorted(vals)
