"""C11 — Custom delimiters and environments are independent."""

from __future__ import annotations

import json
import os
import subprocess
import sys

from ..core import Check, classify_exc, REPO
from ..g import g_str
from . import lexgen as G

IMPORTS = "Lex Memo"

# ------------------------------------------------------------------ delimiter sets
PUNCT = list("<>[]{}$@!~^&*+/?;%#=")          # punctuation incl. regex metacharacters [ * + ? ^ $
META_EXTRA = list("(.|\\)")                    # metacharacters that also occur in expressions: only for literal templates
LETTERS = list("XYZ")                          # letters (upper case: the generated templates use lower case only)


# always tried first: a plain alternative set, one whose comment delimiter begins with a letter, one-character delimiters,
# four-character delimiters made of regex metacharacters
FIXED_SETS = [("<%", "%>", "<<", ">>", "<#", "#>"), ("[%", "%]", "[[", "]]", "X/", "/X"), ("$", "!", "@", "~", "^", "&"),
              ("[*+?", "?+*]", "^$^$", "$^$^", "{+{+", "+}+}")]


def gen_delims(rng, alphabet):
    """Six delimiter strings of length 1-4 that do not collide with each other: no opening delimiter is a prefix of
    another, none contains whitespace, closing delimiters do not start with '-' or (tag end) a word character, and
    no closing delimiter occurs inside an opening one's match."""
    for _ in range(200):
        d = ["".join(rng.choice(alphabet) for _ in range(rng.randrange(1, 5))) for _ in range(6)]
        ts, te, ss, se, cs, ce = d
        opens = [ts, ss, cs]
        if any(a != b and (a.startswith(b) or b.startswith(a)) for i, a in enumerate(opens) for b in opens[i + 1:]):
            continue
        if len(set(opens)) < 3:
            continue
        if any(a in b for i, a in enumerate(d) for j, b in enumerate(d) if i != j and a != b):
            continue     # a delimiter occurring inside another one is a collision between delimiters
        if te[0].isalnum() or te[0] == "_":
            continue
        # a closing delimiter must not be found before its own end: no occurrence inside the other strings
        allstr = "".join(d)
        if any(x in y for x in (te, se, ce) for y in (ts, ss, cs)):
            continue
        if any(o in c for o in opens for c in (te, se, ce)):
            continue
        # first characters of the opening delimiters must differ from every character the templates use: guaranteed by
        # the alphabets; a '#' right after the tag delimiter would read as an inline comment
        if "#" in (te[0], se[0]):
            continue
        if ce[0] == "-" or "-" in allstr:
            continue
        return tuple(d)
    return None


def marker(d):
    """liquid-tag comment-line marker: comment_start_string without '{' (falls back to '#')."""
    m = d[4].replace("{", "")
    return m if m else "#"


# ------------------------------------------------------------------ control-flow templates, printed under any delimiters
def T(d, inner, l="", r=""):
    return f"{d[0]}{l} {inner} {r}{d[1]}"


def O(d, inner, l="", r=""):
    return f"{d[2]}{l} {inner} {r}{d[3]}"


def flow_templates(rng):
    """Generator-side templates: functions from a delimiter set to source text; data is fixed."""
    hy = lambda: rng.choice(["", "-"])  # noqa: E731
    out = []
    a, b, c, e = hy(), hy(), hy(), hy()
    out.append(lambda d, a=a, b=b, c=c, e=e: "x " + T(d, "if flag", a, b) + " yes " + T(d, "else", c, e) + " no " + T(d, "endif") + " z")
    out.append(lambda d, a=a, b=b: T(d, "for i in (1..3)", a, b) + O(d, "i", b, a) + "," + T(d, "endfor") + "\n")
    out.append(lambda d, a=a: T(d, "assign v = 'q r' | upcase") + "L" + O(d, "v | append: name", a) + "R")
    out.append(lambda d, b=b: T(d, "capture cap", b) + " t " + T(d, "endcapture", "", b) + O(d, "cap | strip"))
    out.append(lambda d, a=a, c=c: T(d, f"liquid\n  assign w = 3\n  {d[6] if len(d) > 6 else marker(d)} note\n  echo w | plus: 1\n", a, c) + " end")
    out.append(lambda d, e=e: T(d, "case n") + T(d, "when 1") + "one" + T(d, "when 2", e) + " two" + T(d, "endcase"))
    out.append(lambda d, a=a: T(d, "unless flag", a) + " u " + T(d, "endunless") + T(d, "cycle 'p', 'q'") + T(d, "increment k") + O(d, "k"))
    out.append(lambda d, c=c: T(d, "comment") + O(d, "hidden") + T(d, "endcomment", "", c) + "  after")
    out.append(lambda d, b=b: T(d, "raw", "", b) + "  kept ( verbatim ) " + T(d, "endraw", "", b) + "  tail")
    out.append(lambda d: "plain text only\n")
    return out


DATA = {"flag": True, "name": "N", "n": 2}


# ------------------------------------------------------------------ engine
def mk_env(d, comments=True, **kw):
    return G.make_env(d, comments=comments, **kw)


def render(env, src, data=None):
    try:
        return ("out", env.from_string(src).render(**(data or {})))
    except Exception as e:  # noqa: BLE001
        return ("err", classify_exc(e))


# ------------------------------------------------------------------ part 2: histories
CONFIGS = [
    dict(d=G.DEFAULT, comments=False, mode="STRICT"),
    dict(d=G.DEFAULT, comments=True, mode="STRICT"),
    dict(d=("<%", "%>", "<<", ">>", "<#", "#>"), comments=True, mode="STRICT"),
    dict(d=("<%", "%>", "<<", ">>", "<#", "#>"), comments=False, mode="LAX"),
    dict(d=("[%", "%]", "[[", "]]", "[#", "#]"), comments=True, mode="WARN"),
    dict(d=("[%", "%]", "{{", "}}", "{#", "#}"), comments=True, mode="STRICT"),
    dict(d=G.DEFAULT, comments=True, mode="LAX"),
]

HISTORY_SOURCES = ["{{ 0 | who }}", "<< 0 | who >>", "[[ 0 | who ]]", "{% if 1 %}a{% endif %}<% if 1 %>b<% endif %>",
                   "{# c #}<# d #>[# e #]x", "{{ 'p' }}[[ 'q' ]]<< 'r' >>", "{% bogus %}", "<% bogus %>", "{{ 1 | nofilter }}",
                   "{%- raw -%} {{ x }} {%- endraw -%} t", "<< 0 | late >>{{ 0 | late }}"]

_RUNNER = r'''
import json, sys, warnings
warnings.simplefilter("ignore")
from liquid import Environment, Mode, Template
import liquid.lex, liquid.parser, liquid.environment
hist = json.load(sys.stdin)
fresh = hist["fresh"]
envs = []
out = []
def clear():
    liquid.lex.get_lexer.cache_clear(); liquid.parser.get_parser.cache_clear()
    liquid.environment.get_implicit_environment.cache_clear()
def make(cfg, who):
    d = cfg["d"]
    e = Environment(tag_start_string=d[0], tag_end_string=d[1], statement_start_string=d[2], statement_end_string=d[3],
                    template_comments=cfg["comments"], comment_start_string=d[4], comment_end_string=d[5],
                    tolerance=getattr(Mode, cfg["mode"]))
    e.add_filter("who", lambda _x, who=who: "env%d" % who)
    return e
def cls(e):
    import liquid.exceptions as X
    for n in ("UnknownFilterError", "LiquidSyntaxError"):
        c = getattr(X, n, None)
        if c is not None and isinstance(e, c): return n
    return "Liquid" if isinstance(e, X.LiquidError) else type(e).__name__
def observe(env, src):
    try: toks = [[t.kind, t.value, t.start_index] for t in env.tokenizer()(src)]
    except Exception as e: toks = cls(e)
    try: r = ["out", env.from_string(src).render()]
    except Exception as e: r = ["err", cls(e)]
    return {"tokens": toks, "render": r}
log = []      # what every environment is (for the fresh replay): creation config, filter registrations so far
for op in hist["ops"]:
    if op[0] == "new":
        envs.append(make(op[1], len(envs))); log.append({"cfg": op[1], "late": None}); out.append(None)
    elif op[0] == "addfilter":
        envs[op[1]].add_filter("late", lambda _x, v=op[2]: "late%d" % v); log[op[1]]["late"] = op[2]; out.append(None)
    elif op[0] == "parse":
        if fresh:
            clear(); spec = log[op[1]]; e = make(spec["cfg"], op[1])
            if spec["late"] is not None: e.add_filter("late", lambda _x, v=spec["late"]: "late%d" % v)
            out.append(observe(e, op[2]))
        else:
            out.append(observe(envs[op[1]], op[2]))
    elif op[0] == "implicit":
        cfg = op[1]; d = cfg["d"]
        if fresh: clear()
        try:
            t = Template(op[2], tag_start_string=d[0], tag_end_string=d[1], statement_start_string=d[2],
                         statement_end_string=d[3], template_comments=cfg["comments"], comment_start_string=d[4],
                         comment_end_string=d[5], tolerance=getattr(Mode, cfg["mode"]))
            r = ["out", t.render()]
        except Exception as e:
            r = ["err", cls(e)]
        eff = list(d[:4]) + (list(d[4:]) if cfg["comments"] else ["", ""])
        try: toks = [[k.kind, k.value, k.start_index] for k in liquid.lex.get_lexer(*eff)(op[2])]
        except Exception as e: toks = cls(e)
        out.append({"tokens": toks, "render": r})
json.dump(out, sys.stdout)
'''


def run_history(ops, fresh):
    env = dict(os.environ, PYTHONPATH=REPO, PYTHONHASHSEED="0", PYTHONDONTWRITEBYTECODE="1")
    r = subprocess.run([sys.executable, "-c", _RUNNER], input=json.dumps({"ops": ops, "fresh": fresh}),
                       capture_output=True, text=True, env=env, timeout=300)
    if r.returncode != 0:
        raise RuntimeError("history runner failed: " + r.stderr[-800:])
    return json.loads(r.stdout)


def gen_history(rng, n):
    ops = []
    nenv = 0
    for _ in range(n):
        k = rng.random()
        if nenv == 0 or k < 0.25:
            ops.append(["new", rng.choice(CONFIGS)])
            nenv += 1
        elif k < 0.33:
            ops.append(["addfilter", rng.randrange(nenv), rng.randrange(100)])
        elif k < 0.85:
            ops.append(["parse", rng.randrange(nenv), rng.choice(HISTORY_SOURCES)])
        else:
            ops.append(["implicit", rng.choice(CONFIGS), rng.choice(HISTORY_SOURCES)])
    return ops


def g_cfg(cfg):
    rest = {"STRICT": 0, "LAX": 1, "WARN": 2}[cfg["mode"]]
    return (f"{{| cf_delims := {G.g_delims(cfg['d'])}; cf_comments := {'true' if cfg['comments'] else 'false'}; "
            f"cf_rest := {rest}%N |}}")


def g_ops(ops):
    """Model operations.  In the model an environment's identity is its position in the heap of environment objects, to
    which the environments created by Template() also belong: translate the harness numbering (explicit ones only)."""
    out = []
    heap = 0
    where = []          # harness environment number -> heap position
    implicit_seen = set()
    for op in ops:
        if op[0] == "new":
            out.append(f"NewEnv ({g_cfg(op[1])}) [] [{g_str('env%d' % len(where))}]")
            where.append(heap)
            heap += 1
        elif op[0] == "addfilter":
            out.append(f"AddFilter {where[op[1]]} {g_str('late%d' % op[2])}")
        elif op[0] == "parse":
            out.append(f"Parse {where[op[1]]} {g_str(op[2])}")
        else:
            key = json.dumps(op[1], sort_keys=True)
            if key not in implicit_seen:       # fewer than 10 configurations: nothing is ever evicted
                implicit_seen.add(key)
                heap += 1
            out.append(f"Implicit ({g_cfg(op[1])}) [] [] {g_str(op[2])}")
    return "[" + "; ".join(out) + "]"


HIST_PREAMBLE = G.PREAMBLE + """
Definition hobs : Type := list (option (res (list token) * list str)).
Definition run_hist (ops : list op) : hobs :=
  map (option_map (fun r : presult => (fst r, match snd r with Some ed => ed_filters ed | None => [] end))) (fst (run_ops ps0 ops)).
Definition hitem_eqb (a b : option (res (list token) * list str)) : bool :=
  match a, b with
  | None, None => true
  | Some (t1, f1), Some (t2, f2) => tokres_eqb t1 t2 && list_eqb str_eqb f1 f2
  | _, _ => false
  end.
Definition hobs_eqb (a b : hobs) : bool := list_eqb hitem_eqb a b."""


def g_hobs(ops, obs):
    """Expected model observation: the engine's token stream, and the filters the parse worked with, read off the
    rendered probes ({{ 0 | who }} -> envN, late -> lateK)."""
    items = []
    state = []   # per env: [who, late]
    for op, o in zip(ops, obs):
        if op[0] == "new":
            state.append(["env%d" % len(state), []])
            items.append("None")
        elif op[0] == "addfilter":
            state[op[1]][1].insert(0, "late%d" % op[2])   # registrations, newest first (the newest is the one in force)
            items.append("None")
        elif op[0] == "parse":
            toks = o["tokens"]
            gt = G.g_tokens([tuple(t) for t in toks]) if isinstance(toks, list) else "Err ESyntax"
            who, lates = state[op[1]]
            fl = list(lates) + [who]
            items.append(f"Some ({gt}, [{'; '.join(g_str(x) for x in fl)}])")
        else:
            toks = o["tokens"]
            gt = G.g_tokens([tuple(t) for t in toks]) if isinstance(toks, list) else "Err ESyntax"
            items.append(f"Some ({gt}, [])")
    return "[" + "; ".join(items) + "]"


def who_consistent(ops, obs):
    """Oracle on the interleaved run alone: a {{ 0 | who }} probe parsed through environment i must answer env<i>,
    and a late probe must answer that environment's own latest registration."""
    problems = []
    late = {}
    for op, o in zip(ops, obs):
        if op[0] == "addfilter":
            late[op[1]] = op[2]
        if op[0] == "parse" and o["render"][0] == "out":
            txt = o["render"][1]
            for j in range(10):
                if f"env{j}" in txt and j != op[1]:
                    problems.append(f"parse through environment {op[1]} used the filters of environment {j}")
            import re as _re
            seen = _re.findall(r"late(\d+)", txt)
            if seen and op[1] in late and str(late[op[1]]) not in seen:
                problems.append(f"parse through environment {op[1]} did not see its own latest add_filter")
    return problems


def run(ck: Check) -> None:
    ck.rule = (
        "part 1: delimiter sets of six strings of length 1-4 over punctuation/regex metacharacters " + "".join(PUNCT + META_EXTRA)
        + " and letters XYZ, filtered for non-collision; (a) the literal-fragment templates of C10 (texts, output/echo, raw, comment, "
        "doc, shorthand and inline comments, liquid tags, all marker combinations) and (b) control-flow templates (if/else, for, "
        "assign+filters, capture, liquid tag with a comment line, case/when, unless, cycle, increment, comment, raw) printed under the "
        "default and under each delimiter set, rendered by an environment configured with it; plus targeted probes for unclosed "
        "markup. part 2: histories (<=12 operations) of Environment creations over 7 configurations (3 delimiter families, comments "
        "on/off, STRICT/LAX/WARN), add_filter, from_string through any earlier environment and Template() calls, in interleaved "
        "order, each run once in one process and once with a brand-new Environment and emptied memo tables for every parse (fresh "
        "subprocess); part 2b (oracle only): for each of the 7 configurations three environments with the same configuration and the same "
        "tag names but their own implementation of the increment tag, parsed and rendered through in all 6 orders, twice. Non-trivial = custom delimiters differ from the default / history with >=2 live environments."
    )
    ck.exhaustive = False
    ck.trusted_base = [
        "Coq 8.16.1 kernel + vm_compute",
        "harness: delimiter generator and collision filter, template printers, history runner subprocess (props/c11.py)",
        "modelled not verified: re.escape + Python re on the lexer rules, functools.lru_cache (as an LRU list), dict lookup by "
        "(__hash__, identity) as lookup by identity, object identity as heap position",
    ]
    ck.assumptions = [
        "theorem C11_delimiter_equivariance covers the literal fragment under the occurrence guard (no opening delimiter occurs "
        "inside a text, no closing pattern inside its body); control-flow templates are covered by the oracle run only",
        "tags registered on one environment (add_tag) are not in the model Memo.v: their isolation is decided by the oracle run of part 2b only",
        "an environment's configuration beyond delimiters and template_comments is one opaque value in the model",
    ]
    ck.proof()
    rng = ck.rng
    quick = ck.quick
    reported: set = set()

    def report(sig, what, data):
        if sig not in reported and len(reported) < 10:
            reported.add(sig)
            ck.violation("impl-violation", sig, what, data)

    # ---------------- part 1
    cases, expected, meta = [], [], []
    nsets = 25 if quick else 250
    env0 = mk_env(G.DEFAULT)
    for si in range(nsets):
        literal_only = si % 2 == 0
        d = gen_delims(rng, PUNCT + LETTERS + (META_EXTRA if literal_only else []))
        if si < len(FIXED_SETS):
            d, literal_only = FIXED_SETS[si], False
        if d is None:
            continue
        comments = rng.random() < 0.8
        env_d = mk_env(d, comments=comments)
        eff = d if comments else d[:4] + ("", "")
        ck.count("delimiter-sets")
        ck.count(f"delims.len{max(len(x) for x in d)}")
        # (a) literal-fragment templates
        for _ in range(12 if quick else 20):
            n = rng.randrange(0, 4)
            segs = [(rng.choice(G.TEXTS), G.rand_markup(rng)) for _ in range(n)]
            if not comments:
                segs = [(t, m) for t, m in segs if m[0] != "short"]
            # inside liquid tags the comment line marker depends on the delimiters: rewrite "# note"
            tpl = (segs, rng.choice(G.TEXTS))
            src0 = G.build(G.DEFAULT, tpl)
            src1 = G.build(d, _remark(tpl, d, comments))
            if set("".join(d)) & set(pieces(tpl)):
                continue
            r0 = render(env0, src0)
            r1 = render(env_d, src1)
            want = ("out", G.spec_render(tpl))
            ck.note_case((d, src1), nontrivial=True)
            ck.count("literal-templates")
            if r1 != r0 or r1 != want:
                cls = f"{d!r}"[:60] if r0 == want else "default-delimiters"
                report("c11-equivariance-literal:" + ("custom differs from default" if r0 == want else "both differ from the documented rendering"),
                       f"delimiters {d!r} (comments={comments}): {src1!r} renders {r1}; under the default delimiters {src0!r} renders {r0}; documented {want[1]!r}",
                       {"type": "equiv", "delims": list(d), "comments": comments, "source": src1, "default_source": src0,
                        "reference": r0, "data": {}})
            if len(src1) <= 110:
                toks = G.real_tokens(env_d, src1)
                frag = G.in_fragment(toks)
                cases.append(G.g_lexcase(eff, src1))
                expected.append(f"({G.g_tokens(toks)}, {('Some (' + G.g_robs(r1) + ')') if frag else 'None'})")
                meta.append((d, comments, src1, toks, r1))
        # (b) control-flow templates
        if not literal_only:
            for f in flow_templates(rng):
                src0, src1 = f(G.DEFAULT), f(d + ((marker(d) if comments else "#"),))
                if set("".join(d)) & set(f(("\x00",) * 7)):
                    continue     # the template's own text uses a character of these delimiters: a collision, not a case
                r0 = render(env0, src0, DATA)
                r1 = render(env_d, src1, DATA)
                ck.note_case((d, src1), nontrivial=True)
                ck.count("flow-templates")
                if r0 != r1:
                    report("c11-equivariance-flow", f"delimiters {d!r}: {src1!r} renders {r1}; under the default delimiters {src0!r} renders {r0}",
                           {"type": "equiv", "delims": list(d), "comments": comments, "source": src1, "default_source": src0,
                            "reference": r0, "data": DATA})
        # (c) unclosed markup must be treated alike under every delimiter set; text that merely LOOKS like default markup is text
        for opener_i, name in ((2, "output"), (0, "tag")):
            src0 = "a " + G.DEFAULT[opener_i] + " x"
            src1 = "a " + d[opener_i] + " x"
            r0, r1 = render(env0, src0), render(env_d, src1)
            ck.count("unclosed-probes")
            if r0 != r1:
                report(f"c11-unclosed-{name}", f"unclosed {name} {src1!r} under delimiters {d!r} gives {r1}; {src0!r} under the default delimiters gives {r0}",
                       {"type": "equiv", "delims": list(d), "comments": comments, "source": src1, "default_source": src0,
                        "reference": r0, "data": {}})
            lit0 = G.DEFAULT[opener_i] + " x"      # text that begins like default markup
            if not (set("".join(d)) & set(lit0)):
                r2 = render(env_d, lit0)
                if r2 != ("out", lit0):
                    report(f"c11-literal-brace-{name}", f"{lit0!r} contains no delimiter of {d!r} but renders {r2} instead of itself",
                           {"type": "verbatim", "delims": list(d), "comments": comments, "source": lit0, "reference": ["out", lit0], "data": {}})
            if len(src1) <= 60:
                for s_ in (src1, src0, G.DEFAULT[opener_i] + " x"):
                    toks = G.real_tokens(env_d, s_)
                    cases.append(G.g_lexcase(eff, s_))
                    expected.append(f"({G.g_tokens(toks)}, None)")
                    meta.append((d, comments, s_, toks, None))
    ck.sample({"delims": meta[len(meta) // 2][0], "source": meta[len(meta) // 2][2], "render": meta[len(meta) // 2][4]})
    mm = ck.coq_mismatches("lexd", "Lex", "run_lex", "lexobs_eqb", "lexcase", "res (list token) * option robs",
                           cases, expected, chunk=250, preamble=G.PREAMBLE)
    ck.traces += len(cases)
    for i in mm[:3]:
        d, comments, src, toks, r = meta[i]
        eff = d if comments else d[:4] + ("", "")
        model = ck.coq_eval("Lex", [f"run_lex ({G.g_lexcase(eff, src)})"])[0]
        ck.violation("correspondence", "c11-lexer-correspondence",
                     f"model Lex.run_lex with delimiters {d!r} and the implementation disagree on {src!r}",
                     {"type": "lex", "delims": list(d), "source": src, "impl_tokens": toks, "impl_render": r, "model": model[:1500],
                      "broken": "correspondence Lex.tokenize (parametric in the delimiters) ~ Environment(custom delimiters).tokenizer "
                                "(theorem C11_delimiter_equivariance)"}, no_input=True)

    # ---------------- part 2
    hcases, hexpected, hmeta = [], [], []
    nh = 14 if quick else 120
    for hi in range(nh):
        ops = gen_history(rng, rng.randrange(4, 13))
        together = run_history(ops, fresh=False)
        alone = run_history(ops, fresh=True)
        nenv = sum(1 for o in ops if o[0] == "new")
        ck.note_case(("history", ops), nontrivial=nenv >= 2)
        ck.count(f"history.envs{min(nenv, 4)}")
        ck.count("history.parses", sum(1 for o in ops if o[0] in ("parse", "implicit")))
        for k, (op, a, b) in enumerate(zip(ops, together, alone)):
            if a != b:
                report("c11-history:" + op[0], f"operation {k} {op!r} of history {ops!r}: interleaved run gives {a}, a fresh environment with empty memo tables gives {b}",
                       {"type": "history", "ops": ops, "index": k})
                break
        for p in who_consistent(ops, together):
            report("c11-history-filters", f"history {ops!r}: {p}", {"type": "history", "ops": ops, "index": -1})
        hcases.append(g_ops(ops))
        hexpected.append(g_hobs(ops, together))
        hmeta.append(ops)
    _tag_isolation(ck, report)
    ck.sample({"history": hmeta[0]})
    mm = ck.coq_mismatches("hist", IMPORTS, "run_hist", "hobs_eqb", "list op", "hobs", hcases, hexpected, chunk=8,
                           preamble=HIST_PREAMBLE)
    ck.traces += len(hcases)
    for i in mm[:3]:
        ck.violation("correspondence", "c11-history-correspondence",
                     f"model Memo.run_ops and the implementation disagree on the history {hmeta[i]!r}",
                     {"type": "history-model", "ops": hmeta[i],
                      "broken": "correspondence Memo.run_ops ~ interleaved Environment/from_string/Template calls (theorem C11_env_independence)"},
                     no_input=True)


# ---------------- part 2b: tags of one environment never reach another (oracle only, no model)
# Seed C11-I gave Environment an __eq__ over its configuration and the NAMES of its tags and filters; get_parser is
# memoised on the environment, so two equal-looking environments shared one Parser and its tag instances.  The histories
# above register filters only, which are looked up through the template's own environment.  Here every environment of a
# group has the same configuration and the same tag names, but its own implementation of `increment`.
def tag_isolation_case(cfg, order, n=3):
    """n environments with configuration cfg, each replacing the increment tag by one writing tagenv<i>; parse and
    render through them in the given order.  Returns the list of (env index, rendered)."""
    from liquid import Environment, Mode
    from liquid.builtin.tags.increment_tag import IncrementNode, IncrementTag

    d = cfg["d"]
    envs = []
    for i in range(n):
        e = Environment(tag_start_string=d[0], tag_end_string=d[1], statement_start_string=d[2], statement_end_string=d[3],
                        template_comments=cfg["comments"], comment_start_string=d[4], comment_end_string=d[5],
                        tolerance=getattr(Mode, cfg["mode"]))
        if i > 0:   # environment 0 keeps the built-in tag
            node = type("WhoNode%d" % i, (IncrementNode,), {
                "render_to_output": (lambda self, context, buffer, i=i: buffer.write("tagenv%d" % i) or 7)})
            e.add_tag(type("WhoTag%d" % i, (IncrementTag,), {"node_class": node}))
        envs.append(e)
    src = f"{d[0]} increment n {d[1]}|{d[2]} 'x' | upcase {d[3]}"
    out = []
    for i in order:
        try:
            out.append([i, ["out", envs[i].from_string(src).render()]])
        except Exception as e:  # noqa: BLE001
            out.append([i, ["err", type(e).__name__]])
    return src, out


def tag_isolation_problems(out):
    bad = []
    for i, r in out:
        want = ["out", ("0" if i == 0 else "tagenv%d" % i) + "|X"]
        if r != want:
            bad.append(f"environment {i} renders {r}, its own increment tag gives {want}")
    return bad


def _tag_isolation(ck, report):
    import itertools
    orders = [list(p) + list(p) for p in itertools.permutations(range(3))]
    for ci, cfg in enumerate(CONFIGS):
        for order in orders:
            src, out = tag_isolation_case(cfg, order)
            ck.note_case(("tag-isolation", ci, tuple(order)))
            ck.count("tag-isolation.orders")
            for pb in tag_isolation_problems(out)[:1]:
                report("c11-tag-isolation", f"configuration {cfg!r}, three environments with the same configuration and tag names, used in order {order}: {pb} ({src!r})",
                       {"type": "tag-isolation", "config": ci, "order": order})


def pieces(tpl):
    """Every character of the template that is not a delimiter or a marker (texts, bodies, literals, liquid lines)."""
    segs, tail = tpl
    out = [tail]
    for t, m in segs:
        out.append(t)
        for x in m[1:]:
            if isinstance(x, str):
                out.append(x)
            elif isinstance(x, list):
                out.extend(ln for _, ln, _ in x)
    return "".join(out)


def _remark(tpl, d, comments):
    """Liquid-tag comment lines start with the environment's marker (comment_start_string without '{'; '#' when
    template comments are off)."""
    m = marker(d) if comments else "#"
    segs, tail = tpl
    out = []
    for t, mk in segs:
        if mk[0] == "liquid":
            lines = [(ind, (m + ln[1:]) if ln.startswith("#") else ln, o) for ind, ln, o in mk[3]]
            mk = ("liquid", mk[1], mk[2], lines, mk[4], mk[5])
        out.append((t, mk))
    return (out, tail)


def replay(data) -> int:
    case = data["case"]
    t = case.get("type")
    if t in ("equiv", "verbatim"):
        d = tuple(case["delims"])
        env_d = mk_env(d, comments=case["comments"])
        r1 = render(env_d, case["source"], case.get("data") or {})
        ref = tuple(case["reference"])
        if t == "equiv":
            ref = render(mk_env(G.DEFAULT), case["default_source"], case.get("data") or {})
        print("delimiters:", d, "source:", repr(case["source"]))
        print("rendered :", r1)
        print("reference:", ref)
        bad = tuple(r1) != tuple(ref)
    elif t == "history":
        ops = case["ops"]
        a, b = run_history(ops, False), run_history(ops, True)
        print("history:", ops)
        bad = a != b or bool(who_consistent(ops, a))
        print("interleaved:", a)
        print("fresh      :", b)
    elif t == "tag-isolation":
        src, out = tag_isolation_case(CONFIGS[case["config"]], case["order"])
        print("source:", repr(src), "order:", case["order"])
        print("rendered:", out)
        bad = bool(tag_isolation_problems(out))
    else:
        print("replay names a proof/correspondence obligation:", {k: case[k] for k in case if k != "model"})
        return 1
    print(("VIOLATION reproduced" if bad else "not reproduced") + f" property={data['property']}")
    return 1 if bad else 0
