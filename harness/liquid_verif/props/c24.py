"""C24 — LRU caches behave as bounded least-recently-used maps."""

from __future__ import annotations

import itertools
import sys
import threading
import time

from ..core import Check
from ..g import g_N, g_Z, g_nat, g_list, g_bool

IMPORTS = "Lru"
KEYERR = "KeyError"


# ---------------------------------------------------------------- implementation
def impl_classes():
    from liquid.utils.lru_cache import LRUCache, ThreadSafeLRUCache

    return {"LRUCache": LRUCache, "ThreadSafeLRUCache": ThreadSafeLRUCache}


def apply_op(c, op):
    """Run one op on a real cache; return a canonical observation."""
    kind = op[0]
    try:
        if kind == "get":
            return ("val", c[op[1]])
        if kind == "getd":
            return ("val", c.get(op[1], op[2]))
        if kind == "getn":
            r = c.get(op[1])
            return ("none",) if r is None else ("val", r)
        if kind == "set":
            c[op[1]] = op[2]
            return ("done",)
        if kind == "del":
            del c[op[1]]
            return ("done",)
        if kind == "contains":
            return ("bool", op[1] in c)
        if kind == "len":
            return ("len", len(c))
        if kind == "keys":
            return ("keys", list(c.keys()))
        if kind == "values":
            return ("vals", list(c.values()))
        if kind == "items":
            return ("items", [tuple(x) for x in c.items()])
        if kind == "iter":
            return ("keys", list(iter(c)))
    except KeyError:
        return ("keyerror",)
    except Exception as e:  # anything else is itself a finding
        return ("exc", type(e).__name__)
    raise AssertionError(op)


def run_seq(cls, cap, ops):
    c = cls(cap)
    obs = []
    for op in ops:
        r = apply_op(c, op)
        try:
            snapshot = [tuple(x) for x in c.items()]
        except Exception as e:
            snapshot = [("exc", type(e).__name__)]
        obs.append((r, snapshot))
    return obs


# ------------------------------------------------------------- reference oracle
class RefLRU:
    """Independent 20-line reference: dict + recency list (most recent last)."""

    def __init__(self, cap):
        self.cap, self.d, self.order = cap, {}, []

    def touch(self, k):
        self.order.remove(k)
        self.order.append(k)

    def apply(self, op):
        kind = op[0]
        if kind in ("get", "getd", "getn"):
            k = op[1]
            if k in self.d:
                self.touch(k)
                return ("val", self.d[k])
            return {"get": ("keyerror",), "getn": ("none",)}.get(kind) or ("val", op[2])
        if kind == "set":
            k, v = op[1], op[2]
            if k in self.d:
                self.touch(k)
            else:
                if len(self.d) >= self.cap:
                    old = self.order.pop(0)
                    del self.d[old]
                self.order.append(k)
            self.d[k] = v
            return ("done",)
        if kind == "del":
            if op[1] not in self.d:
                return ("keyerror",)
            del self.d[op[1]]
            self.order.remove(op[1])
            return ("done",)
        if kind == "contains":
            return ("bool", op[1] in self.d)
        if kind == "len":
            return ("len", len(self.d))
        mru = list(reversed(self.order))
        if kind in ("keys", "iter"):
            return ("keys", mru)
        if kind == "values":
            return ("vals", [self.d[k] for k in mru])
        if kind == "items":
            return ("items", [(k, self.d[k]) for k in mru])
        raise AssertionError(op)

    def items(self):
        return [(k, self.d[k]) for k in reversed(self.order)]


def ref_seq(cap, ops):
    r = RefLRU(cap)
    obs = []
    for op in ops:
        out = r.apply(op)
        assert len(r.d) <= cap
        obs.append((out, r.items()))
    return obs


# ------------------------------------------------------------ schedules (tstep)
def run_sched(cls, cap, acts):
    """Deterministic replay of a schedule in one thread: listing = begin + next steps."""
    c = cls(cap)
    iters = {}
    outs = []
    for a in acts:
        if a[0] == "call":
            outs.append(("out", apply_op(c, a[2])))
        elif a[0] == "begin":
            try:
                iters[a[1]] = iter(c.items())
                outs.append(("started",))
            except Exception as e:
                outs.append(("exc", type(e).__name__))
        else:
            it = iters.get(a[1])
            if it is None:
                outs.append(("noiter",))
                continue
            try:
                outs.append(("yield", tuple(next(it))))
            except StopIteration:
                outs.append(("stop",))
            except RuntimeError:
                outs.append(("runtimeerror",))
            except Exception as e:
                outs.append(("exc", type(e).__name__))
    return outs


def check_sched(cap, acts, got):
    """What the property demands of a schedule: calls behave as one sequential history of
    a least-recently-used map, nothing raises, and what a listing has yielded so far is a
    prefix of the contents (most recent first) at ONE instant between its begin and now.
    Returns None if satisfied, else (step index, got, explanation)."""
    r = RefLRU(cap)
    iters = {}          # tid -> (candidate snapshots, yielded so far)
    for i, (a, g) in enumerate(zip(acts, got)):
        if g[0] in ("exc", "runtimeerror"):
            return (i, g, "raised")
        if a[0] == "call":
            want = ("out", r.apply(a[2]))
            if g != want:
                return (i, g, f"expected {want}")
            for tid in iters:
                cands, ys = iters[tid]
                snap = list(r.items())
                if snap[:len(ys)] == ys and snap not in cands:
                    cands.append(snap)
        elif a[0] == "begin":
            if g != ("started",):
                return (i, g, "expected started")
            iters[a[1]] = ([list(r.items())], [])
        else:
            if a[1] not in iters:
                if g != ("noiter",):
                    return (i, g, "expected noiter")
                continue
            cands, ys = iters[a[1]]
            if g[0] == "yield":
                ys = ys + [tuple(g[1])]
                cands = [c for c in cands if c[:len(ys)] == ys]
            elif g[0] == "stop":
                cands = [c for c in cands if c == ys]
            else:
                return (i, g, "unexpected output")
            if not cands:
                return (i, g, "listing matches the contents at no instant since it began")
            iters[a[1]] = (cands, ys)
    return None


# ------------------------------------------------------------------ Gallina text
def g_op(op):
    k = op[0]
    if k == "get":
        return f"Get {g_N(op[1])}"
    if k == "getd":
        return f"GetD {g_N(op[1])} {g_Z(op[2])}"
    if k == "getn":
        return f"GetN {g_N(op[1])}"
    if k == "set":
        return f"Set_ {g_N(op[1])} {g_Z(op[2])}"
    if k == "del":
        return f"Del {g_N(op[1])}"
    if k == "contains":
        return f"Contains {g_N(op[1])}"
    return {"len": "Len", "keys": "Keys", "values": "Values", "items": "Items", "iter": "Iter"}[k]


def g_kv(kv):
    return f"({g_N(kv[0])}, {g_Z(kv[1])})"


def g_out(o):
    k = o[0]
    if k == "val":
        return f"OVal {g_Z(o[1])}"
    if k == "keyerror":
        return "OKeyError"
    if k == "none":
        return "ONone"
    if k == "done":
        return "ODone"
    if k == "bool":
        return f"OBool {g_bool(o[1])}"
    if k == "len":
        return f"OLen {g_nat(o[1])}"
    if k == "keys":
        return f"OKeys {g_list(g_N(x) for x in o[1])}"
    if k == "vals":
        return f"OVals {g_list(g_Z(x) for x in o[1])}"
    if k == "items":
        return f"OItems {g_list(g_kv(x) for x in o[1])}"
    raise ValueError(o)


def g_obs(obs):
    # model's `run` lists items least-recent first; the implementation's items() is most-recent first
    return g_list(f"({g_out(o)}, {g_list(g_kv(x) for x in reversed(snap))})" for o, snap in obs)


def g_case(cap, ops):
    return f"{{| c_cap := {g_nat(cap)}; c_ops := {g_list(g_op(o) for o in ops)} |}}"


def g_act(a):
    if a[0] == "call":
        return f"Call {g_nat(a[1])} ({g_op(a[2])})"
    if a[0] == "begin":
        return f"ListBegin {g_nat(a[1])}"
    return f"ListNext {g_nat(a[1])}"


def g_tout(o):
    k = o[0]
    if k == "out":
        return f"TOut ({g_out(o[1])})"
    if k == "yield":
        return f"TYield {g_kv(o[1])}"
    return {"started": "TStarted", "stop": "TStop", "runtimeerror": "TRuntimeError", "noiter": "TNoIter"}[k]


def g_tcase(cap, acts):
    return f"{{| t_cap := {g_nat(cap)}; t_acts := {g_list(g_act(a) for a in acts)} |}}"


def expressible(obs) -> bool:
    """Can this implementation observation be written as a model observation at all?"""
    def ok(o):
        return o[0] != "exc"
    return all(ok(o) and all(len(x) == 2 and x[0] != "exc" for x in snap) for o, snap in obs)


# ---------------------------------------------------------------------- generators
def gen_exhaustive_seqs(maxlen, keys):
    alpha = [("get", k) for k in keys] + [("set", k, None) for k in keys] + [("del", k) for k in keys]
    for n in range(1, maxlen + 1):
        for seq in itertools.product(alpha, repeat=n):
            # every store writes a fresh value so stale values are visible
            yield [(("set", o[1], 10 + i) if o[0] == "set" else o) for i, o in enumerate(seq)]


def gen_exhaustive_uses(maxlen):
    """what counts as a use: stores, c.get(k) (a use), `k in c` / len / items (not uses), over two keys"""
    alpha = [("set", 1, None), ("set", 2, None), ("set", 3, None), ("getn", 1), ("getn", 2), ("contains", 1), ("contains", 2),
             ("len",), ("items",)]
    for n in range(1, maxlen + 1):
        for seq in itertools.product(alpha, repeat=n):
            if not any(o[0] == "set" for o in seq):
                continue
            yield [(("set", o[1], 10 + i) if o[0] == "set" else o) for i, o in enumerate(seq)]


def gen_exhaustive_default_hits(maxlen):
    """get(k, d) where d IS the stored value (99 stored, 99 asked as default; None stored through get(k) is not expressible in the
    model's integer values): a hit is a hit whatever the default -- it returns the value and counts as a use"""
    alpha = [("set", 1, 99), ("set", 2, 99), ("set", 3, 7), ("getd", 1, 99), ("getd", 2, 99), ("getd", 3, 99), ("getd", 1, 7), ("keys",)]
    for n in range(2, maxlen + 1):
        for seq in itertools.product(alpha, repeat=n):
            if seq[0][0] != "set" or not any(o[0] == "getd" for o in seq):
                continue
            yield list(seq)


def gen_random_seq(rng, n, nkeys):
    ops = []
    for i in range(n):
        k = rng.randrange(1, nkeys + 1)
        r = rng.random()
        if r < 0.35:
            ops.append(("set", k, rng.choice([i + 10, 1, 2, 99])))
        elif r < 0.55:
            ops.append(("get", k))
        elif r < 0.61:
            ops.append(("getd", k, rng.choice([-1, 0, 99, 1, 2])))
        elif r < 0.65:
            ops.append(("getn", k))
        elif r < 0.75:
            ops.append(("del", k))
        elif r < 0.82:
            ops.append(("contains", k))
        else:
            ops.append((rng.choice(["len", "keys", "values", "items", "iter"]),))
    return ops


def gen_exhaustive_scheds(maxlen):
    alpha = [
        ("call", 0, ("set", 1, None)), ("call", 0, ("set", 2, None)), ("call", 0, ("set", 3, None)),
        ("call", 0, ("get", 1)), ("call", 0, ("del", 2)),
        ("begin", 1), ("next", 1), ("begin", 2), ("next", 2),
    ]
    for n in range(2, maxlen + 1):
        for seq in itertools.product(alpha, repeat=n):
            if not any(a[0] == "next" for a in seq):
                continue
            out = []
            for i, a in enumerate(seq):
                if a[0] == "call" and a[2][0] == "set":
                    out.append(("call", 0, ("set", a[2][1], 10 + i)))
                else:
                    out.append(a)
            yield out


def gen_random_sched(rng, n):
    acts = []
    for i in range(n):
        r = rng.random()
        if r < 0.5:
            acts.append(("call", rng.randrange(3), gen_random_seq(rng, 1, 4)[0]))
        elif r < 0.65:
            acts.append(("begin", rng.randrange(1, 4)))
        else:
            acts.append(("next", rng.randrange(1, 4)))
    return acts


# ------------------------------------------------------------------------ shrinking
def shrink(seq, bad):
    """Greedy delta debugging: drop elements while `bad` stays true."""
    seq = list(seq)
    changed = True
    while changed:
        changed = False
        for i in range(len(seq)):
            cand = seq[:i] + seq[i + 1:]
            if cand and bad(cand):
                seq = cand
                changed = True
                break
    return seq


def first_diff(a, b):
    for i, (x, y) in enumerate(zip(a, b)):
        if x != y:
            return i, x, y
    if len(a) != len(b):
        return min(len(a), len(b)), None, None
    return None


# --------------------------------------------------------------------- thread stress
def stress(cls, nthreads, cap, seconds, seed):
    import random

    c = cls(cap)
    errors = []
    stop = time.time() + seconds
    old = sys.getswitchinterval()
    sys.setswitchinterval(1e-6)

    def worker(tid):
        rng = random.Random(seed * 1000 + tid)
        n = 0
        try:
            while time.time() < stop and not errors:
                k = rng.randrange(8)
                r = rng.random()
                if r < 0.3:
                    c[k] = (tid, n)
                elif r < 0.5:
                    c.get(k)
                elif r < 0.6:
                    try:
                        del c[k]
                    except KeyError:
                        pass
                elif r < 0.7:
                    k in c
                else:
                    view = rng.choice(["keys", "values", "items", "__iter__"])
                    got = list(getattr(c, view)())
                    if len(got) > cap:
                        errors.append(("over-capacity listing", view, len(got)))
                if len(c) > cap:
                    errors.append(("over-capacity", len(c)))
                n += 1
        except Exception as e:  # noqa: BLE001
            errors.append(("exception", type(e).__name__, str(e)))

    ts = [threading.Thread(target=worker, args=(i,)) for i in range(nthreads)]
    try:
        for t in ts:
            t.start()
        for t in ts:
            t.join()
    finally:
        sys.setswitchinterval(old)
    return errors


# ------------------------------------------------------------------------------ run
def sig_for_sched(cap, acts, got):
    if ("runtimeerror",) in got:
        return "threadsafe-listing-invalidated-by-concurrent-mutation"
    return "sched:" + repr((cap, acts))[:200]


def run(ck: Check) -> None:
    ck.rule = (
        "sequential: exhaustive get/set/del sequences over keys {1,2,3} (len<=4 quick, <=5 thorough) x "
        "capacities, exhaustive set / get-without-default / contains / len / items sequences (what is a use), construction with "
        "capacities -3..4 and +-10^9 for both classes, plus seeded random sequences over all eleven operations (len 30-200); schedules: exhaustive "
        "interleavings of calls with ListBegin/ListNext of two iterators, plus random; a case is non-trivial when "
        "it performs at least one eviction or a listing step after a mutation; distinct = distinct (cap, ops)."
    )
    ck.trusted_base = [
        "Coq 8.16.1 kernel + vm_compute (model evaluation, refutation witness)",
        "harness: generators, Gallina printers, observation canonicaliser (harness/liquid_verif/props/c24.py)",
        "assumed: threading.Lock gives mutual exclusion (method bodies are atomic actions in the model)",
        "modelled not verified: CPython OrderedDict ordering and iterator-invalidation rule",
    ]
    ck.assumptions = [
        "real preemptive schedules are only sampled (stress run); the theorem is about atomic-section schedules",
        "keys are hashable with structural equality (ints in the correspondence run)",
    ]
    ck.proof()
    classes = impl_classes()

    # -------- sequential histories
    seqs = []
    maxlen = 4 if ck.quick else 5
    caps = [1, 2, 3] if ck.quick else [1, 2, 3, 4]
    for ops in gen_exhaustive_seqs(maxlen, [1, 2, 3]):
        for cap in caps:
            seqs.append((cap, ops))
    for ops in gen_exhaustive_uses(3 if ck.quick else 4):
        for cap in ([2] if ck.quick else [1, 2]):
            seqs.append((cap, ops))
    for ops in gen_exhaustive_default_hits(4 if ck.quick else 5):
        for cap in ([2] if ck.quick else [1, 2, 3]):
            seqs.append((cap, ops))
    nrand = 300 if ck.quick else 3000
    for _ in range(nrand):
        cap = ck.rng.randrange(1, 5)
        seqs.append((cap, gen_random_seq(ck.rng, ck.rng.randrange(30, 201), ck.rng.randrange(2, 7))))
    ck.exhaustive = True
    ck.extra["exhaustive_scope"] = (f"get/set/del sequences len<={maxlen} over 3 keys, caps {caps}; set/get-without-default/contains/"
                                    f"len/items sequences len<={3 if ck.quick else 4}; get-with-default sequences whose default is the stored value len<={4 if ck.quick else 5}; construction with capacities -3..4 and +-10^9")

    # -------- construction: ValueError exactly for a capacity below 1
    mk_cases, mk_expected = [], []
    for nm, cls in classes.items():
        for n in list(range(-3, 5)) + [10 ** 9, -10 ** 9]:
            try:
                c0 = cls(n)
                got = ("ok", len(c0), c0.capacity)
            except ValueError:
                got = ("valueerror",)
            except Exception as e:  # noqa: BLE001
                got = ("exc", type(e).__name__)
            want = ("valueerror",) if n < 1 else ("ok", 0, n)
            ck.note_case(("make", nm, n), nontrivial=n < 1)
            ck.count("make." + ("rejected" if n < 1 else "accepted"))
            if got != want:
                ck.violation("impl-violation", f"make:{nm}:{'below-one' if n < 1 else 'positive'}",
                             f"{nm}({n}): got {got}, expected {want}: a capacity below 1 is refused with ValueError, any other is accepted",
                             {"type": "make", "class": nm, "cap": n, "got": list(got)})
            if nm == "LRUCache" and abs(n) < 100:     # the model's capacity is a unary nat
                mk_cases.append(g_Z(n))
                mk_expected.append(g_bool(got == ("valueerror",)))
    mm = ck.coq_mismatches("make", IMPORTS, "(fun n => match make n with None => true | Some c => negb (Z.eqb (Z.of_nat (cap c)) n) end)",
                           "Bool.eqb", "Z", "bool", mk_cases, mk_expected, chunk=100)
    ck.traces += len(mk_cases)
    if mm:
        ck.violation("correspondence", "make-correspondence", "model Lru.make and LRUCache.__init__ disagree on which capacities are refused",
                     {"type": "make", "indices": mm, "broken": "correspondence Lru.make ~ LRUCache.__init__ (theorem C24_construction)"}, no_input=True)

    cases, expected, meta = [], [], []
    reported = 0
    for cap, ops in seqs:
        obs = run_seq(classes["LRUCache"], cap, ops)
        obs_ts = run_seq(classes["ThreadSafeLRUCache"], cap, ops)
        want = ref_seq(cap, ops)
        evicts = sum(1 for i, (o, snap) in enumerate(want) if ops[i][0] == "set" and i > 0
                     and len(snap) == len(want[i - 1][1]) and ops[i][1] not in dict(want[i - 1][1]))
        ck.note_case((cap, ops), nontrivial=evicts > 0)
        ck.count(f"seq.len{min(len(ops), 6) if len(ops) < 30 else '30+'}")
        ck.count("seq.evictions", evicts)
        for nm, got in (("LRUCache", obs), ("ThreadSafeLRUCache", obs_ts)):
            if got != want and reported < 5:
                reported += 1

                def bad(cand, nm=nm, cap=cap):
                    return run_seq(classes[nm], cap, cand) != ref_seq(cap, cand)

                small = shrink(ops, bad)
                d = first_diff(run_seq(classes[nm], cap, small), ref_seq(cap, small))
                ck.violation(
                    "impl-violation", "seq:" + repr((nm, cap, small))[:200],
                    f"{nm}(capacity={cap}) diverges from a least-recently-used map at op {d[0]}: got {d[1]}, expected {d[2]}",
                    {"type": "seq", "class": nm, "cap": cap, "ops": small, "got": run_seq(classes[nm], cap, small),
                     "expected": ref_seq(cap, small)},
                )
        if expressible(obs):
            cases.append(g_case(cap, ops))
            expected.append(g_obs(obs))
            meta.append((cap, ops, obs))
        else:
            ck.count("seq.inexpressible")
    ck.sample({"cap": seqs[len(seqs) // 2][0], "ops": seqs[len(seqs) // 2][1][:12]})
    ck.sample({"cap": seqs[-1][0], "ops": seqs[-1][1][:12], "note": "random sequence (prefix)"})
    mm = ck.coq_mismatches("seq", IMPORTS, "run_case", "obs_eqb", "case", "list (out * list (N * Z))",
                           cases, expected, chunk=1500)
    ck.traces += len(cases)
    for i in mm[:3]:
        cap, ops, obs = meta[i]
        if obs != ref_seq(cap, ops):
            continue  # already reported with a failing input above
        model = ck.coq_eval(IMPORTS, [f"run_case ({g_case(cap, ops)})"])[0]
        ck.violation(
            "correspondence", "seq-correspondence",
            "model Lru.run and LRUCache disagree on an op sequence although the reference oracle accepts the implementation",
            {"type": "seq", "class": "LRUCache", "cap": cap, "ops": ops, "impl": obs, "model": model,
             "broken": "correspondence Lru.run_case ~ LRUCache (theorems C24_* are about Lru.step)"},
            no_input=True,
        )

    # -------- schedules of the thread-safe class (listing split into begin/next)
    scheds = []
    smax = 4 if ck.quick else 5
    for acts in gen_exhaustive_scheds(smax):
        for cap in ([1, 2] if ck.quick else [1, 2, 3]):
            scheds.append((cap, acts))
    for _ in range(300 if ck.quick else 3000):
        scheds.append((ck.rng.randrange(1, 5), gen_random_sched(ck.rng, ck.rng.randrange(5, 40))))
    tcases, texpected, tmeta = [], [], []
    reported = 0
    for cap, acts in scheds:
        got = run_sched(classes["ThreadSafeLRUCache"], cap, acts)
        verdict = check_sched(cap, acts, got)
        mutated_during = False
        live = set()
        for a in acts:
            if a[0] == "begin":
                live.add(a[1])
            elif a[0] == "call" and a[2][0] in ("set", "del", "get") and live:
                mutated_during = True
        ck.note_case(("sched", cap, acts), nontrivial=mutated_during and any(a[0] == "next" for a in acts))
        ck.count("sched.total")
        if mutated_during:
            ck.count("sched.mutation_while_listing")
        if verdict is not None:
            sig = sig_for_sched(cap, acts, got)
            if reported < 3 or ck._known_for_sig(sig):
                reported += 1

                def bad(cand, cap=cap):
                    return check_sched(cap, cand, run_sched(classes["ThreadSafeLRUCache"], cap, cand)) is not None

                small = shrink(acts, bad)
                g2 = run_sched(classes["ThreadSafeLRUCache"], cap, small)
                d = check_sched(cap, small, g2)
                ck.violation(
                    "impl-violation", sig_for_sched(cap, small, g2),
                    f"ThreadSafeLRUCache(capacity={cap}) schedule step {d[0]}: got {d[1]} ({d[2]})",
                    {"type": "sched", "cap": cap, "acts": small, "got": g2},
                )
        if all(o[0] != "exc" and (o[0] != "out" or o[1][0] != "exc") for o in got):
            tcases.append(g_tcase(cap, acts))
            texpected.append(g_list(g_tout(o) for o in got))
            tmeta.append((cap, acts, got))
    ck.sample({"cap": scheds[len(scheds) // 3][0], "schedule": scheds[len(scheds) // 3][1]})
    mm = ck.coq_mismatches("sched", IMPORTS, "run_tcase Snapshot", "list_eqb tout_eqb", "tcase", "list tout",
                           tcases, texpected, chunk=1500)
    ck.traces += len(tcases)
    for i in mm[:3]:
        cap, acts, got = tmeta[i]
        if check_sched(cap, acts, got) is not None:
            continue
        model = ck.coq_eval(IMPORTS, [f"run_tcase Snapshot ({g_tcase(cap, acts)})"])[0]
        ck.violation(
            "correspondence", "sched-correspondence",
            "model Lru.tstep (Snapshot) and ThreadSafeLRUCache disagree on a schedule the oracle accepts",
            {"type": "sched", "cap": cap, "acts": acts, "impl": got, "model": model,
             "broken": "correspondence Lru.run_tcase Snapshot ~ ThreadSafeLRUCache (theorem C24_listing_never_fails)"},
            no_input=True,
        )

    # -------- real threads (supporting evidence only; never a proof)
    secs = 0.6 if ck.quick else 2.0
    total_err = 0
    for nthreads in ([2, 8] if ck.quick else [2, 4, 8, 16]):
        for cap in (1, 3):
            errs = stress(classes["ThreadSafeLRUCache"], nthreads, cap, secs, ck.seed + nthreads)
            ck.count("stress.runs")
            if errs:
                total_err += 1
                e = errs[0]
                sig = ("threadsafe-listing-invalidated-by-concurrent-mutation"
                       if e[0] == "exception" and e[1] == "RuntimeError" else f"stress:{e[0]}:{e[1]}")
                ck.violation(
                    "impl-violation", sig,
                    f"ThreadSafeLRUCache under {nthreads} threads (capacity {cap}): {e}",
                    {"type": "stress", "threads": nthreads, "cap": cap, "seconds": secs, "seed": ck.seed + nthreads,
                     "errors": [list(map(str, x)) for x in errs[:3]]},
                )
    ck.extra["stress_failures"] = total_err


def replay(data) -> int:
    case = data["case"]
    classes = impl_classes()
    pid = data["property"]
    if case.get("type") == "seq":
        ops = [tuple(o) for o in case["ops"]]
        got = run_seq(classes[case["class"]], case["cap"], ops)
        want = ref_seq(case["cap"], ops)
        print("implementation:", got)
        print("reference     :", want)
        bad = got != want
    elif case.get("type") == "sched":
        acts = [tuple(a[:2]) + ((tuple(a[2]),) if len(a) > 2 else ()) for a in case["acts"]]
        got = run_sched(classes["ThreadSafeLRUCache"], case["cap"], acts)
        verdict = check_sched(case["cap"], acts, got)
        print("implementation:", got)
        print("verdict       :", verdict or "satisfies the property")
        bad = verdict is not None
    elif case.get("type") == "make":
        try:
            classes[case["class"]](case["cap"])
            got = "accepted"
        except ValueError:
            got = "ValueError"
        print("constructor:", got)
        bad = (got == "ValueError") != (case["cap"] < 1)
    elif case.get("type") == "stress":
        errs = stress(classes["ThreadSafeLRUCache"], case["threads"], case["cap"], case["seconds"], case["seed"])
        print("errors:", errs[:3])
        bad = bool(errs)
    else:
        print("replay names a proof/correspondence obligation:", case)
        return 1
    print(("VIOLATION reproduced" if bad else "not reproduced") + f" property={pid}")
    return 1 if bad else 0
