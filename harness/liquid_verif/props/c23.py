"""C23 — Caching loaders are transparent.

A request history is run against a caching loader (one loader for the whole history) and, request by request,
against a fresh non-caching loader over the same sources (the oracle).  The same history is evaluated by the Coq
model CachingLoader.run_case (the repaired mixin) and compared with what the caching loader returned.
"""

from __future__ import annotations

import itertools
import os

from ..core import Check, classify_exc, run_async
from ..g import g_N, g_bool, g_list, g_nat, g_opt, g_str

IMPORTS = "Lru CachingLoader"
NSKEY = "uid"
NAMES = ["a", "d/b"]
NSS = ["x", "y"]
MTIME0 = 1_500_000_000


def source_text(name, ns, ver):
    return f"{name}|{ns or '-'}|v{ver}|{{{{ g }}}}|{{{{ e }}}}"


# ----------------------------------------------------------------------------- worlds (the sources behind a loader)
def _eff_ns(context, kwargs):
    """Namespace selection of a namespace-aware loader: keyword argument first, then the render context."""
    if NSKEY in kwargs:
        return kwargs[NSKEY]
    if context is not None:
        try:
            return context.globals[NSKEY]
        except KeyError:
            return None
    return None


class World:
    """Sources (name, namespace) -> version, plus the plain and the caching loader built over them.
    Versions persist across cases; the model is told the versions at the start of each case."""

    aware = False
    kind = ""

    def __init__(self, workdir=None):
        self.versions = {}
        self.gone = set()      # entries that are deleted right now (their version counter is kept)

    def entries(self):
        return sorted(self.versions.items(), key=lambda kv: (kv[0][0], kv[0][1] or ""))

    def edit(self, name, ns):
        """Write a new text; a deleted source is created again."""
        key = (name, ns)
        if key not in self.versions:
            return
        self.versions[key] += 1
        self.gone.discard(key)
        self._write(name, ns, self.versions[key])

    def delete(self, name, ns):
        key = (name, ns)
        if key not in self.versions or key in self.gone:
            return
        self.gone.add(key)
        self._remove(name, ns)

    def restore(self):
        """Every history starts with all sources present."""
        for name, ns in sorted(self.gone, key=lambda k: (k[0], k[1] or "")):
            self.edit(name, ns)

    def source_key(self, req):
        """Which entry a get request reads."""
        _, _mode, name, kw, ctx, _g = req
        return (name, (kw if kw is not None else (ctx or None)) if self.aware else None)

    def _add(self, name, ns):
        self.versions[(name, ns)] = 0
        self._write(name, ns, 0)


class DictWorld(World):
    kind = "dict"

    def __init__(self, workdir=None):
        super().__init__()
        self.d = {}
        for n in NAMES:
            self._add(n, None)

    def _write(self, name, ns, ver):
        self.d[name] = source_text(name, ns, ver)

    def _remove(self, name, ns):
        del self.d[name]

    def plain(self):
        from liquid import DictLoader

        return DictLoader(self.d)

    def caching(self, nk, auto_reload, capacity):
        from liquid import CachingDictLoader

        return CachingDictLoader(self.d, auto_reload=auto_reload, namespace_key=nk, capacity=capacity)


class ChoiceWorld(World):
    kind = "choice"

    def __init__(self, workdir=None):
        super().__init__()
        self.d1, self.d2 = {}, {"a": "shadowed by the first loader"}
        for n in NAMES:
            self._add(n, None)

    def _write(self, name, ns, ver):
        (self.d1 if name == "a" else self.d2)[name] = source_text(name, ns, ver)
        if name == "a":
            self.d2["a"] = "shadowed by the first loader"

    def _remove(self, name, ns):
        """The name no longer resolves: it is removed from every delegate."""
        self.d1.pop(name, None)
        self.d2.pop(name, None)

    def _loaders(self):
        from liquid import DictLoader

        return [DictLoader(self.d1), DictLoader(self.d2)]

    def plain(self):
        from liquid import ChoiceLoader

        return ChoiceLoader(self._loaders())

    def caching(self, nk, auto_reload, capacity):
        from liquid import CachingChoiceLoader

        return CachingChoiceLoader(self._loaders(), auto_reload=auto_reload, namespace_key=nk, capacity=capacity)


def _ns_entries():
    """Namespace-aware worlds: x has both names, y has only `a`, and there is an un-namespaced `a`."""
    return [("a", None), ("a", "x"), ("d/b", "x"), ("a", "y")]


class NsDictWorld(World):
    """A DictLoader whose get_source narrows its search by namespace (the documented extension point)."""

    kind = "dict-ns"
    aware = True

    def __init__(self, workdir=None):
        super().__init__()
        self.d = {}
        for n, ns in _ns_entries():
            self._add(n, ns)

    @staticmethod
    def _key(name, ns):
        return name if ns is None else f"{ns}\x1f{name}"

    def _write(self, name, ns, ver):
        self.d[self._key(name, ns)] = source_text(name, ns, ver)

    def _remove(self, name, ns):
        del self.d[self._key(name, ns)]

    def _classes(self):
        from liquid import CachingDictLoader, DictLoader
        from liquid.loader import TemplateSource

        key = self._key

        class NsMixin:
            def get_source(self, env, template_name, *, context=None, **kwargs):
                ns = _eff_ns(context, kwargs)
                src = super().get_source(env, key(template_name, ns), context=context, **kwargs)
                return TemplateSource(src[0], template_name, src[2], *src[3:])

        class NsDictLoader(NsMixin, DictLoader):
            pass

        class CachingNsDictLoader(NsMixin, CachingDictLoader):
            pass

        return NsDictLoader, CachingNsDictLoader

    def plain(self):
        return self._classes()[0](self.d)

    def caching(self, nk, auto_reload, capacity):
        return self._classes()[1](self.d, auto_reload=auto_reload, namespace_key=nk, capacity=capacity)


class FsWorld(World):
    kind = "fs"
    _count = 0

    def __init__(self, workdir):
        super().__init__()
        FsWorld._count += 1
        self.root = os.path.join(workdir, f"c23-fs-{FsWorld._count}")
        os.makedirs(self.root)
        self.clock = MTIME0
        for n, ns in self._initial():
            self._add(n, ns)

    def _initial(self):
        return [(n, None) for n in NAMES]

    def _path(self, name, ns):
        return os.path.join(self.root, *( [ns] if ns else [] ), *name.split("/"))

    def _write(self, name, ns, ver):
        p = self._path(name, ns)
        os.makedirs(os.path.dirname(p), exist_ok=True)
        with open(p, "w", encoding="utf-8") as f:
            f.write(source_text(name, ns, ver))
        # an edit always CHANGES the modification time, whatever the wall clock does -- forwards and backwards alternately (a file
        # restored from a backup or by `cp -p` / `rsync -t` gets an OLDER time than the revision it replaces); all times are distinct
        self.ticks = getattr(self, "ticks", 0) + 1
        self.clock = MTIME0 + (-7 * self.ticks if self.ticks % 2 else 7 * self.ticks)
        os.utime(p, (self.clock, self.clock))

    def begin_history(self):
        """Every history starts from the same file times (so that a replay sees the times the run saw): all files at MTIME0, and the
        k-th edit of the history at MTIME0 - 7k (k odd: older than what it replaces) or MTIME0 + 7k (k even)."""
        for d, _dirs, files in os.walk(self.root):
            for f in files:
                os.utime(os.path.join(d, f), (MTIME0, MTIME0))
        self.ticks = 0

    def _remove(self, name, ns):
        os.remove(self._path(name, ns))

    def plain(self):
        from liquid import FileSystemLoader

        return FileSystemLoader(self.root)

    def caching(self, nk, auto_reload, capacity):
        from liquid import CachingFileSystemLoader

        return CachingFileSystemLoader(self.root, auto_reload=auto_reload, namespace_key=nk, capacity=capacity)


class NsFsWorld(FsWorld):
    """Templates arranged in one folder per namespace inside the search path (the layout the documentation of
    CachingFileSystemLoader.namespace_key describes), by a get_source override as in the documentation."""

    kind = "fs-ns"
    aware = True

    def _initial(self):
        return _ns_entries()

    def _classes(self):
        from liquid import CachingFileSystemLoader, FileSystemLoader

        class NsMixin:
            def get_source(self, env, template_name, *, context=None, **kwargs):
                ns = _eff_ns(context, kwargs)
                name = template_name if ns is None else f"{ns}/{template_name}"
                return super().get_source(env, name, context=context, **kwargs)

            async def get_source_async(self, env, template_name, *, context=None, **kwargs):
                ns = _eff_ns(context, kwargs)
                name = template_name if ns is None else f"{ns}/{template_name}"
                return await super().get_source_async(env, name, context=context, **kwargs)

        class NsFsLoader(NsMixin, FileSystemLoader):
            pass

        class CachingNsFsLoader(NsMixin, CachingFileSystemLoader):
            pass

        return NsFsLoader, CachingNsFsLoader

    def plain(self):
        return self._classes()[0](self.root)

    def caching(self, nk, auto_reload, capacity):
        return self._classes()[1](self.root, auto_reload=auto_reload, namespace_key=nk, capacity=capacity)


class TsDictWorld(DictWorld):
    """CachingLoaderMixin(thread_safe=True): the ThreadSafeLRUCache behind the same mixin (used from one thread)."""

    kind = "dict-ts"

    def caching(self, nk, auto_reload, capacity):
        from liquid import CachingLoaderMixin, DictLoader

        class ThreadSafeCachingDictLoader(CachingLoaderMixin, DictLoader):
            def __init__(self, templates, **kw):
                super().__init__(thread_safe=True, **kw)
                DictLoader.__init__(self, templates)

        return ThreadSafeCachingDictLoader(self.d, auto_reload=auto_reload, namespace_key=nk, capacity=capacity)


class ChoiceFsWorld(FsWorld):
    """CachingChoiceLoader over two FileSystemLoaders: `a` lives in the first directory, `d/b` in the second."""

    kind = "choice-fs"

    def _path(self, name, ns):
        return os.path.join(self.root, "first" if name == "a" else "second", *name.split("/"))

    def _loaders(self):
        from liquid import FileSystemLoader

        for d in ("first", "second"):
            os.makedirs(os.path.join(self.root, d), exist_ok=True)
        return [FileSystemLoader(os.path.join(self.root, "first")), FileSystemLoader(os.path.join(self.root, "second"))]

    def plain(self):
        from liquid import ChoiceLoader

        return ChoiceLoader(self._loaders())

    def caching(self, nk, auto_reload, capacity):
        from liquid import CachingChoiceLoader

        return CachingChoiceLoader(self._loaders(), auto_reload=auto_reload, namespace_key=nk, capacity=capacity)


WORLDS = {"dict-ts": TsDictWorld, "choice-fs": ChoiceFsWorld, "dict": DictWorld, "choice": ChoiceWorld, "dict-ns": NsDictWorld, "fs": FsWorld, "fs-ns": NsFsWorld}

# ----------------------------------------------------------------------------- running one history
# request: ("get", mode, name, kw, ctx, g) | ("edit", name, ns) | ("delete", name, ns)
#   mode "s"/"a"; kw: namespace given as keyword argument or None; ctx: None (no context), "" (a context without the
#   key) or the namespace in context.globals; g: 0 (no globals argument) or the value of the global `g`
# cfg: (nk_set, auto_reload, capacity, env_g)


def _describe(t):
    """What a template object says of itself now: name, where its text came from, its globals."""
    out = t.render()
    parts = out.split("|")
    if len(parts) != 5:
        return ("t", t.name, out, None, None, None, None, None)
    gl = dict(t.globals)
    return ("t", t.name, parts[0], None if parts[1] == "-" else parts[1], int(parts[2][1:]),
            parts[3], parts[4], (gl.get("e", 0), gl.get("g", 0)))


def _observe(env, probe, req, keep=None):
    from liquid import RenderContext

    _, mode, name, kw, ctx, g = req
    kwargs = {}
    if kw is not None:
        kwargs[NSKEY] = kw
    context = None
    if ctx is not None:
        context = RenderContext(probe, globals=({NSKEY: ctx} if ctx else {}))
    globs = {"g": g} if g else None
    keep_len = len(keep) if keep is not None else 0
    try:
        if mode == "a":
            t = run_async(env.get_template_async(name, globals=globs, context=context, **kwargs))
        else:
            t = env.get_template(name, globals=globs, context=context, **kwargs)
        if keep is not None:
            keep.append(t)
        return _describe(t)
    except Exception as e:  # noqa: BLE001
        if keep is not None and len(keep) < keep_len + 1:
            keep.append(None)
        return ("err", classify_exc(e))


def run_history(world, cfg, reqs, again=None):
    """-> (observations of the caching loader, observations of a fresh non-caching loader per request,
    for each request whether the source it reads was deleted at that moment).  If `again` is a list it receives,
    per request, what the template object returned to that request says of itself when the history is over."""
    nk_set, auto_reload, capacity, env_g = cfg
    cenv, cprobe, fenv, fprobe = _envs(env_g)
    world.restore()
    if hasattr(world, "begin_history"):
        world.begin_history()
    cenv.loader = world.caching(NSKEY if nk_set else "", auto_reload, capacity)  # one caching loader per history
    got, want, gone, kept = [], [], [], []
    for r in reqs:
        if r[0] in ("edit", "delete"):
            (world.edit if r[0] == "edit" else world.delete)(r[1], r[2])
            got.append(("done",))
            want.append(("done",))
            gone.append(False)
            kept.append(None)
            continue
        got.append(_observe(cenv, cprobe, r, kept))
        fenv.loader = world.plain()  # a fresh non-caching loader per request
        want.append(_observe(fenv, fprobe, r))
        gone.append(world.source_key(r) if world.source_key(r) in world.gone else False)
    if again is not None:
        for o, t in zip(got, kept):
            if t is None or o[0] != "t":
                again.append(o)
                continue
            try:
                again.append(_describe(t))
            except Exception as e:  # noqa: BLE001
                again.append(("err", classify_exc(e)))
    return got, want, gone


def first_changed(got, again):
    """Index of the first response that is no longer what it was when it was returned."""
    for i, (g, a) in enumerate(zip(got, again)):
        if g != a:
            return i
    return None


def shrink_changed(world, cfg, reqs, i):
    """Shortest prefix after request i that still changes its response, then greedy removal of other requests."""
    for end in range(i + 2, len(reqs) + 1):
        again = []
        got, _w, _g = run_history(world, cfg, reqs[:end], again)
        if got[i] != again[i]:
            reqs = list(reqs[:end])
            break
    j = 0
    while j < len(reqs):
        if j == i:
            j += 1
            continue
        cand = reqs[:j] + reqs[j + 1:]
        ci = i - 1 if j < i else i
        again = []
        got, _w, _g = run_history(world, cfg, cand, again)
        if ci < len(got) and got[ci] != again[ci]:
            reqs, i, j = cand, ci, 0
        else:
            j += 1
    return reqs, i


_ENVS: dict = {}


def _envs(env_g):
    """Two environments per environment-globals setting (only their loaders change between histories)."""
    if env_g not in _ENVS:
        from liquid import Environment

        eg = {"e": env_g} if env_g else None
        cenv, fenv = Environment(globals=eg), Environment(globals=eg)
        _ENVS[env_g] = (cenv, cenv.from_string(""), fenv, fenv.from_string(""))
    return _ENVS[env_g]


def diff_kind(got, want, auto_reload, gone=False):
    """What the property demands: same outcome as the non-caching loader; only without auto-reload may the source
    be an older version of the same entry (also of an entry deleted since: `gone` is its key).
    -> None or the name of the differing aspect."""
    if got == want:
        return None
    if got[0] != want[0]:
        if not auto_reload and gone and got[0] == "t" and want == ("err", "ENotFound") and tuple(got[2:4]) == tuple(gone):
            return None
        return "template-vs-error"
    if got[0] == "err":
        return "error-class"
    if got[1] != want[1]:
        return "name"
    if got[2:4] != want[2:4]:
        return "source-of-another-name-or-namespace"
    if got[5:] != want[5:]:
        return "globals"
    if got[4] != want[4]:
        if not auto_reload and got[4] is not None and want[4] is not None and got[4] < want[4]:
            return None
        return "stale-source"
    return "other"


# ----------------------------------------------------------------------------- Gallina printing
def g_ostr(x):
    return g_opt(x, g_str)


def g_cfg(world, cfg):
    nk_set, auto_reload, capacity, env_g = cfg
    return (f"{{| nk := {g_str(NSKEY if nk_set else '')}; auto_reload := {g_bool(auto_reload)}; capacity := {g_nat(capacity)}; "
            f"aware := {g_bool(world.aware)}; detects := true; awaitable_uptodate := false; missing_raises := false; env_g := {g_N(env_g)} |}}")


def g_store(entries):
    return g_list(f"(({g_str(n)}, {g_ostr(ns)}), ({g_N(v)}, true))" for (n, ns), v in entries)


def g_req(r):
    if r[0] == "edit":
        return f"Edit {g_str(r[1])} {g_ostr(r[2])}"
    if r[0] == "delete":
        return f"Delete {g_str(r[1])} {g_ostr(r[2])}"
    _, mode, name, kw, ctx, g = r
    return (f"Get {{| g_mode := {'Async' if mode == 'a' else 'Sync'}; g_name := {g_str(name)}; g_kw := {g_ostr(kw)}; "
            f"g_ctx := {g_ostr(ctx or None)}; g_globals := {g_N(g)} |}}")


def g_resp(o, base):
    """Versions are printed relative to the version the entry had when the history started (the model's store starts
    at version 0), so that the same history gives the same Gallina text wherever it occurs in the run."""
    if o[0] == "done":
        return "RDone"
    if o[0] == "err":
        return f"RE {o[1]}"
    _, tname, sname, sns, ver, _gr, _er, attrs = o
    if ver is None or attrs is None or (sname, sns) not in base or ver < base[(sname, sns)]:
        return "RInternal"
    ver -= base[(sname, sns)]
    return (f"RT {{| t_name := {g_str(tname)}; t_src := ({g_str(sname)}, {g_ostr(sns)}); t_ver := {g_N(ver)}; "
            f"t_awaitable := false; t_globals := ({g_N(int(attrs[0] or 0))}, {g_N(int(attrs[1] or 0))}) |}}")


class Interner:
    def __init__(self, prefix):
        self.prefix, self.ids, self.defs = prefix, {}, []

    def __call__(self, term, typ):
        i = self.ids.get(term)
        if i is None:
            i = self.ids[term] = f"{self.prefix}{len(self.ids)}"
            self.defs.append(f"Definition {i} : {typ} := {term}.")
        return i


# ----------------------------------------------------------------------------- generators
def gets(modes, names, sels, gs):
    return [("get", m, n, kw, ctx, g) for m in modes for n in names for (kw, ctx) in sels for g in gs]


def alphabets(world):
    """Three exhaustive universes (request alphabets); histories are all words over one alphabet."""
    ens = "x" if world.aware else None
    namespaces = gets("sa", NAMES, [("x", None), ("y", None)], [0]) + [("edit", "a", ens), ("delete", "a", ens)]
    globs = gets("sa", ["a"], [(None, None)], [0, 1, 2]) + [("get", "s", "d/b", None, None, 0), ("edit", "a", None)]
    context = gets("sa", ["a"], [(None, None), (None, ""), ("x", None), (None, "x"), (None, "y"), ("y", "x")], [0]) + [
        ("edit", "a", ens)]
    # sources appearing and disappearing: both names, gets without namespace games
    lifecycle = gets("sa", NAMES, [("x", None)], [0]) + [("edit", "a", ens), ("delete", "a", ens),
                                                         ("edit", "d/b", ens), ("delete", "d/b", ens)]
    return {"namespaces": namespaces, "globals": globs, "context": context, "lifecycle": lifecycle}


def random_history(rng, world, n):
    sels = [(None, None), (None, ""), ("x", None), ("y", None), (None, "x"), (None, "y"), ("x", "y"), ("y", "x")]
    out = []
    for _ in range(n):
        if rng.random() < 0.3:
            name, ns = rng.choice(sorted(world.versions, key=lambda k: (k[0], k[1] or "")))
            out.append(("edit" if rng.random() < 0.6 else "delete", name, ns))
        else:
            kw, ctx = rng.choice(sels)
            out.append(("get", rng.choice("sa"), rng.choice(NAMES), kw, ctx, rng.choice([0, 0, 1, 2])))
    return out


def plan(ck: Check):
    """-> list of (world kind, universe label, cfgs, iterator of histories)."""
    q = ck.quick
    caps_ar = [(True, ar, cap, 0) for cap in (1, 2, 3, 4) for ar in (True, False)]
    out = []

    def words(alpha, n, symmetric):
        """Every word of length n (its prefixes are the shorter histories) that neither starts nor ends with an edit
        (a leading edit only changes the initial version, a trailing one is not observed); where the two namespaces
        are interchangeable (loaders that ignore the namespace) the first request names namespace x."""
        for w in itertools.product(alpha, repeat=n):
            if w[0][0] == "edit" or w[-1][0] in ("edit", "delete"):
                continue
            if symmetric and w[0][0] == "get" and (w[0][3] == "y" or (w[0][3] is None and w[0][4] == "y")):
                continue
            yield w

    #            world      universe      length quick/thorough   configurations
    A, N_ = True, False  # auto_reload on / off
    table = [
        ("dict", "namespaces", 4, 5, [(True, A, 1, 0), (True, N_, 2, 0)]),
        ("dict", "namespaces", 3, 4, [(True, A, 2, 0)]),
        ("dict", "namespaces", 3, 4, [(True, A, 3, 0), (True, A, 4, 0)]),
        ("dict", "namespaces", 3, 4, [(True, N_, 1, 0), (True, N_, 3, 0), (True, N_, 4, 0)]),
        ("dict", "globals", 4, 5, [(False, A, 2, 0)]),
        ("dict", "globals", 3, 4, [(True, N_, 1, 0), (False, A, 1, 7)]),
        ("dict", "context", 3, 4, [(True, A, 2, 0)]),
        ("dict", "context", 2, 3, [(True, N_, 4, 0)]),
        ("dict-ns", "namespaces", 3, 4, [(True, A, 1, 0), (True, A, 3, 0), (True, N_, 2, 0)]),
        ("dict-ns", "context", 3, 4, [(True, A, 2, 0)]),
        ("choice", "namespaces", 3, 4, caps_ar),
        ("choice", "globals", 3, 4, [(False, A, 2, 0)]),
        ("fs", "namespaces", 3, 4, [(True, A, 1, 0), (True, A, 2, 0), (True, N_, 3, 0), (True, A, 4, 0)]),
        ("fs", "globals", 3, 4, [(False, A, 2, 0)]),
        ("fs-ns", "namespaces", 3, 4, [(True, A, 2, 0), (True, A, 4, 0)]),
        ("fs-ns", "context", 2, 3, [(True, A, 2, 0), (True, N_, 1, 0)]),
        # sources deleted and created again
        ("dict", "lifecycle", 4, 5, [(True, A, 2, 0), (True, N_, 1, 0)]),
        ("dict-ns", "lifecycle", 3, 4, [(True, A, 2, 0)]),
        ("choice", "lifecycle", 3, 4, [(True, A, 1, 0), (True, N_, 2, 0)]),
        ("fs", "lifecycle", 3, 4, [(True, A, 2, 0), (True, N_, 1, 0)]),
        ("fs-ns", "lifecycle", 3, 3, [(True, A, 1, 0)]),
        ("choice-fs", "lifecycle", 3, 4, [(True, A, 2, 0)]),
        # the same mixin over ThreadSafeLRUCache (thread_safe=True), used from one thread
        ("dict-ts", "namespaces", 3, 4, [(True, A, 2, 0), (True, N_, 1, 0)]),
        ("dict-ts", "lifecycle", 3, 4, [(True, A, 1, 0)]),
    ]
    for kind, uni, lq, lt, cfgs in table:
        out.append((kind, uni, cfgs, lq if q else lt, None))
    nrand = {"dict": 1500, "dict-ns": 1500, "choice": 700, "fs": 250, "fs-ns": 250, "dict-ts": 500, "choice-fs": 150}
    for kind, n in nrand.items():
        out.append((kind, "random", None, 12, n if q else 10 * n))
    return out, words


# ----------------------------------------------------------------------------- the check
def first_bad(got, want, auto_reload, gone=None):
    for i, (g, w) in enumerate(zip(got, want)):
        k = diff_kind(g, w, auto_reload, gone[i] if gone else False)
        if k:
            return i, k
    return None


def shrink(world, cfg, reqs, kind):
    """Greedy removal of requests while a violation of the same kind remains at the last request."""
    reqs = list(reqs)
    i = 0
    while i < len(reqs) - 1:
        cand = reqs[:i] + reqs[i + 1:]
        got, want, gone = run_history(world, cfg, cand)
        fb = first_bad(got, want, cfg[1], gone)
        if fb is not None and fb[1] == kind:
            reqs = cand[: fb[0] + 1]
            i = 0
        else:
            i += 1
    return reqs


def signature(kind, req):
    _, mode, _name, kw, ctx, g = req
    sel = "kw" if kw is not None else ("ctx" if ctx else "none")
    return f"c23:{kind}:{'async' if mode == 'a' else 'sync'}:ns-{sel}:{'globals' if g else 'noglobals'}"


def run(ck: Check) -> None:
    ck.rule = (
        "request histories over names {a, d/b} x namespaces {x, y} (keyword argument, render context, both, neither) x "
        "{get_template, get_template_async} x globals {none, g=1, g=2} with source edits in between, against one caching loader "
        "per history (CachingDictLoader, CachingChoiceLoader, CachingFileSystemLoader, and namespace-aware subclasses of the dict "
        "and file-system loaders), capacities 1..4, auto_reload on/off, namespace_key set/unset, environment globals empty/non-empty. "
        "Sources are edited, deleted and re-created between requests. "
        "Exhaustive: every word of the stated length over four request alphabets (namespaces: 10 symbols, globals: 8, context: 13, "
        "lifecycle = gets plus edit/delete of both names: 8); also a CachingChoiceLoader over two FileSystemLoaders and the mixin "
        "with thread_safe=True (ThreadSafeLRUCache, single-threaded); "
        "random: lengths 1..12 over everything. Each request is also served by a fresh non-caching loader (oracle), and every template object "
        "handed out is observed again at the end of its history (it must still say what it said when it was returned). "
        "Non-trivial = some cache key is requested at least twice; distinct = distinct (loader, configuration, history)."
    )
    ck.exhaustive = True
    ck.trusted_base = [
        "Coq 8.16.1 kernel + vm_compute",
        "harness: history generators, Gallina printers, the namespace-aware loader subclasses, the per-request non-caching oracle (props/c23.py)",
        "modelled not verified: Python object identity of cached templates (heap ids), pathlib basename for simple names, "
        "OrderedDict (through Lru.v, C24), file modification times (an edit always changes the mtime, alternately forwards and backwards: the harness sets it)",
    ]
    ck.assumptions = [
        "the mapping (name, namespace) -> cache key is injective on the requests of a history (names {a, d/b}, namespaces {x, y}); "
        "the colliding case is probed separately (signature c23-cache-key-collision)",
        "sources are edited, deleted and re-created between requests; every such change is visible to the loader's uptodate check "
        "(an edit always changes the modification time)",
        "requests are sequential (no concurrent use of one loader)",
    ]
    ck.proof()

    worlds = {}

    def world_of(kind):
        if kind not in worlds:
            worlds[kind] = WORLDS[kind](ck.workdir)
        return worlds[kind]

    the_plan, words = plan(ck)
    cases, expected, meta = [], [], []
    I_cfg, I_req, I_resp, I_store = Interner("cf"), Interner("rq"), Interner("rs"), Interner("st")
    nviol = 0
    seen_sig = set()

    def one(world, uni, cfg, reqs):
        nonlocal nviol
        world.restore()
        if hasattr(world, "begin_history"):
            world.begin_history()
        base = dict(world.versions)
        entries = [(k, 0) for k, _ in world.entries()]
        again = []
        got, want, gone = run_history(world, cfg, reqs, again)
        keys = [(r[2], r[3] if r[3] is not None else (r[4] or None)) for r in reqs if r[0] == "get"]
        ck.note_case((world.kind, cfg, reqs), nontrivial=len(set(keys)) < len(keys))
        ck.count(f"{world.kind}.{uni}.len{len(reqs)}")
        ck.traces += len(reqs)
        fb = first_bad(got, want, cfg[1], gone)
        explained = False
        if fb is not None:
            explained = True
            i, kind = fb
            sig = signature(kind, reqs[i])
            if sig not in seen_sig and nviol < 30:
                seen_sig.add(sig)
                nviol += 1
                small = shrink(world, cfg, reqs[: i + 1], kind)
                g2, w2, _ = run_history(world, cfg, small)
                ck.violation(
                    "impl-violation", sig,
                    f"{world.kind} loader, namespace_key={'uid' if cfg[0] else ''!r} auto_reload={cfg[1]} capacity={cfg[2]}: after "
                    f"{small[:-1]} the request {small[-1]} returns {g2[-1]} where a non-caching loader returns {w2[-1]} ({kind})",
                    {"type": "history", "world": world.kind, "cfg": list(cfg), "requests": [list(r) for r in small],
                     "caching": g2, "non_caching": w2, "kind": kind})
        ch = first_changed(got, again)
        if ch is not None:
            explained = True
            sig = "c23:earlier-response-changed:" + signature("x", reqs[ch]).split(":", 2)[2]
            if sig not in seen_sig and nviol < 30:
                seen_sig.add(sig)
                nviol += 1
                small, si = shrink_changed(world, cfg, reqs, ch)
                a2 = []
                g2, _w2, _ = run_history(world, cfg, small, a2)
                ck.violation(
                    "impl-violation", sig,
                    f"{world.kind} loader, namespace_key={'uid' if cfg[0] else ''!r} auto_reload={cfg[1]} capacity={cfg[2]}: the template "
                    f"returned to request #{si} of {small} said {g2[si]} when it was returned and says {a2[si]} after the later "
                    f"requests (the cached object is shared and was rebound)",
                    {"type": "history", "world": world.kind, "cfg": list(cfg), "requests": [list(r) for r in small],
                     "caching": g2, "again": a2, "kind": "earlier-response-changed"})
        cases.append(f"{{| c_cfg := {I_cfg(g_cfg(world, cfg), 'config')}; c_store := {I_store(g_store(entries), 'store')}; "
                     f"c_reqs := {g_list(I_req(g_req(r), 'request') for r in reqs)} |}}")
        expected.append(g_list(I_resp(g_resp(o, base), 'response') for o in got + again))
        meta.append((world.kind, cfg, reqs, entries, got, explained))

    for kind, uni, cfgs, length, nrand in the_plan:
        world = world_of(kind)
        if nrand is None:
            alpha = alphabets(world)[uni]
            for cfg in cfgs:
                for w in words(alpha, length, not world.aware):
                    one(world, uni, cfg, list(w))
        else:
            for _ in range(nrand):
                cfg = (ck.rng.random() < 0.8 or world.aware, ck.rng.random() < 0.7, ck.rng.randrange(1, 5), ck.rng.choice([0, 0, 7]))
                one(world, uni, cfg, random_history(ck.rng, world, ck.rng.randrange(1, length + 1)))
    mid = meta[len(meta) // 2]
    ck.sample({"loader": mid[0], "cfg": mid[1], "requests": mid[2], "responses": mid[4]})
    ck.sample({"loader": meta[-1][0], "cfg": meta[-1][1], "requests": meta[-1][2], "responses": meta[-1][4]})

    # the colliding cache keys: (a, namespace x) and (x/a, no namespace) are both cached as "x/a"
    probe_key_collision(ck)
    probe_falsy_namespace(ck)
    probe_equal_globals(ck)

    preamble = "\n".join(I_cfg.defs + I_store.defs + I_req.defs + I_resp.defs)
    mm = ck.coq_mismatches("hist", IMPORTS, "run_case_guarded", "obs_eqb", "case", "list response", cases, expected,
                           chunk=4000, preamble=preamble)
    unexplained = [i for i in mm if not meta[i][5]]
    ck.extra["model_mismatches"] = len(mm)
    for i in unexplained[:3]:
        kind, cfg, reqs, entries, got, _ = meta[i]
        term = (f"run_case_guarded {{| c_cfg := {g_cfg(world_of(kind), cfg)}; c_store := {g_store(entries)}; "
                f"c_reqs := {g_list(g_req(r) for r in reqs)} |}}")
        model = ck.coq_eval(IMPORTS, [term])[0]
        ck.violation(
            "correspondence", "c23-history-correspondence",
            f"model CachingLoader.run_case and the {kind} caching loader disagree on cfg={cfg} requests={reqs}",
            {"type": "history", "world": kind, "cfg": list(cfg), "requests": [list(r) for r in reqs], "impl": got, "model": model,
             "broken": "correspondence CachingLoader.run_case ~ CachingLoaderMixin.load/load_async (theorems C23_transparent*)"},
            no_input=True)


def probe_falsy_namespace(ck: Check) -> None:
    """Namespace values that are FALSY (0, '', None, False) are namespaces like any other: a multi-tenant loader keyed by the
    keyword argument must never hand the template of tenant 0 to a request without a namespace, or the other way round
    (oracle only; the model's namespaces are non-empty strings)."""
    import itertools

    from liquid import CachingDictLoader, DictLoader, Environment
    from liquid.loader import TemplateSource

    missing = object()

    class Ns:
        def get_source(self, env, template_name, *, context=None, **kwargs):
            uid = kwargs.get(NSKEY, missing)
            key = template_name if uid is missing else f"{uid!r}|{template_name}"
            src = super().get_source(env, key, context=context, **kwargs)
            return TemplateSource(src[0], template_name, src[2], *src[3:])

    class Plain(Ns, DictLoader):
        pass

    class Caching(Ns, CachingDictLoader):
        pass

    values = [missing, 0, "", None, False, "x"]
    d = {"a": "shared a"}
    for v in values[1:]:
        d[f"{v!r}|a"] = f"a of tenant {v!r}"
    penv = Environment(loader=Plain(d))
    for seq in itertools.permutations(values, 2):
        for use_async in (False, True):
            cenv = Environment(loader=Caching(d, namespace_key=NSKEY, capacity=4))
            for i, v in enumerate(seq):
                kw = {} if v is missing else {NSKEY: v}
                try:
                    if use_async:
                        got = run_async(cenv.get_template_async("a", **kw)).render()
                    else:
                        got = cenv.get_template("a", **kw).render()
                except Exception as e:  # noqa: BLE001
                    got = "ERR:" + classify_exc(e)
                want = penv.get_template("a", **kw).render()
                ck.count("probe.falsy-namespace")
                ck.traces += 1
                if got != want:
                    shown = ["<none>" if x is missing else repr(x) for x in seq[: i + 1]]
                    ck.violation(
                        "impl-violation", "c23:falsy-namespace:" + ("async" if use_async else "sync"),
                        f"namespace-aware caching loader (namespace_key='uid'), requests for 'a' with uid = {shown}: the last one returns "
                        f"{got!r} where the non-caching loader returns {want!r}",
                        {"type": "falsy-namespace", "sequence": shown, "async": use_async, "got": got, "non_caching": want})
                    break


def probe_equal_globals(ck: Check) -> None:
    """Globals that COMPARE EQUAL but are different values (1, True, 1.0; equal datetimes in different zones would be the same): a
    cache hit must be bound to the globals of THIS request, as the non-caching loader binds them (oracle only; the model's global is
    a number compared by value, which cannot tell these apart)."""
    import itertools

    from liquid import CachingDictLoader, DictLoader, Environment

    src = {"a": "{{ g }}|{% if g == true %}yes{% else %}no{% endif %}|{{ h }}"}
    values = [1, True, 1.0, "1"]
    for seq in itertools.permutations(values, 3):
        for use_async in (False, True):
            for extra in ({}, {"h": "H"}):
                cenv = Environment(loader=CachingDictLoader(src, capacity=4), globals=dict(extra))
                penv = Environment(loader=DictLoader(src), globals=dict(extra))
                for i, v in enumerate(seq):
                    g = {"g": v}
                    try:
                        t = run_async(cenv.get_template_async("a", globals=g)) if use_async else cenv.get_template("a", globals=g)
                        got = (t.render(), type(t.globals.get("g")).__name__)
                    except Exception as e:  # noqa: BLE001
                        got = ("ERR:" + classify_exc(e), "")
                    pt = penv.get_template("a", globals=g)
                    want = (pt.render(), type(pt.globals.get("g")).__name__)
                    ck.count("probe.equal-globals")
                    ck.traces += 1
                    if got != want:
                        shown = [repr(x) for x in seq[: i + 1]]
                        ck.violation(
                            "impl-violation", "c23:equal-but-different-globals:" + ("async" if use_async else "sync"),
                            f"caching loader, requests for 'a' ({src['a']!r}) with globals g = {shown}: the last one gives {got!r} where the "
                            f"non-caching loader gives {want!r} (values that compare equal are still different data)",
                            {"type": "equal-globals", "sequence": shown, "async": use_async, "got": got, "non_caching": want})
                        break


def probe_key_collision(ck: Check) -> None:
    """Known limitation of cache_key (not repaired): f"{namespace}/{name}" is not injective when names contain '/'."""
    from liquid import CachingDictLoader, DictLoader, Environment

    d = {"a": "plain a", "x/a": "the template named x/a"}
    cenv = Environment(loader=CachingDictLoader(d, namespace_key=NSKEY))
    first = cenv.get_template("a", **{NSKEY: "x"}).render()
    second = cenv.get_template("x/a").render()
    want = Environment(loader=DictLoader(d)).get_template("x/a").render()
    ck.count("probe.key-collision")
    ck.traces += 2
    if second != want:
        ck.violation(
            "impl-violation", "c23-cache-key-collision",
            f"CachingDictLoader(namespace_key='uid'): get_template('a', uid='x') then get_template('x/a') returns {second!r} "
            f"(the template cached for namespace x) where DictLoader returns {want!r}: both requests have the cache key 'x/a'",
            {"type": "collision", "first": first, "second": second, "non_caching": want})


PROBES = {"collision": probe_key_collision, "falsy-namespace": probe_falsy_namespace, "equal-globals": probe_equal_globals}


def replay(data) -> int:
    case = data["case"]
    if case.get("type") in PROBES:
        class _Ck:
            def __init__(self):
                self.v, self.traces = [], 0

            def count(self, *_a):
                pass

            def violation(self, *a, **_k):
                self.v.append(a)

        ck = _Ck()
        PROBES[case["type"]](ck)  # type: ignore[arg-type]   (the probes are small closed families: re-run, report what fails)
        for v in ck.v:
            print(v[2])
        print(("VIOLATION reproduced" if ck.v else "not reproduced") + f" property={data['property']}")
        return 1 if ck.v else 0
    if case.get("type") != "history" or ("non_caching" not in case and "impl" not in case and "again" not in case):
        print("replay names a proof/correspondence obligation:", case)
        return 1
    import shutil
    import tempfile

    from ..core import WORK

    os.makedirs(WORK, exist_ok=True)
    tmp = tempfile.mkdtemp(prefix="C23-replay-", dir=WORK)
    try:
        world = WORLDS[case["world"]](tmp)
        cfg = tuple(case["cfg"])
        reqs = [tuple(r) for r in case["requests"]]
        again = []
        got, want, gone = run_history(world, cfg, reqs, again)
        for r, g, w, a in zip(reqs, got, want, again):
            print(r, "\n   caching    :", g, "\n   non-caching:", w, *(("\n   at the end :", a) if a != g else ()))
        fb = first_bad(got, want, cfg[1], gone)
        ch = first_changed(got, again)
        if fb is None and ch is not None:
            fb = (ch, "earlier-response-changed")
        print(("VIOLATION reproduced" if fb else "not reproduced") + f" property={data['property']}"
              + (f" ({fb[1]} at request {fb[0]})" if fb else ""))
        return 1 if fb else 0
    finally:
        shutil.rmtree(tmp, ignore_errors=True)
