"""C01, second set of paired copies: template inheritance (PairInherit.v), template loading (PairLoad.v) and
static analysis (PairAnalyze.v).  Used by props/c01.py.

Every family runs the REAL engine through both public APIs on generated inputs and compares
  (a) the two APIs with each other on ordinary inputs (dict data, built-in loaders): the property itself (oracle);
  (b) each API with its own model copy inside Coq, on INSTRUMENTED inputs that show which API a primitive was reached
      through: a loader that records get_source / get_source_async, a data object whose items read differently through
      __getitem__ and __getitem_async__.  The instruments are not inputs of the property (it excludes objects with
      asynchronous item access); they make the run observable to the model.
"""

from __future__ import annotations

import itertools

from ..core import Check, classify_exc, run_async
from ..g import g_N, g_bool, g_list, g_nat, g_opt, g_str


def family_rng(ck: Check, family: str):
    """a random stream of its own per family: what one family draws does not depend on the others"""
    import random

    return random.Random(f"{ck.seed}:{family}")


def outcome(f):
    try:
        return ("out", f())
    except Exception as e:  # noqa: BLE001
        return ("err", classify_exc(e))


# ============================================================================================== instruments
def rec_loader(templates, log, matter=None):
    from liquid.exceptions import TemplateNotFoundError
    from liquid.loader import BaseLoader, TemplateSource

    class RecLoader(BaseLoader):
        def _get(self, tag, name):
            ok = name in templates
            log.append((tag, name, ok))
            if not ok:
                raise TemplateNotFoundError(name)
            return TemplateSource(templates[name], name, None, (matter or {}).get(name))

        def get_source(self, env, template_name, *, context=None, **kwargs):
            return self._get("S", template_name)

        async def get_source_async(self, env, template_name, *, context=None, **kwargs):
            return self._get("A", template_name)

    return RecLoader()


def mode_data():
    from collections.abc import Mapping

    class ModeData(Mapping):
        """d.x reads 's:x' through __getitem__ and 'a:x' through __getitem_async__."""

        def __getitem__(self, k):
            return f"s:{k}"

        async def __getitem_async__(self, k):
            return f"a:{k}"

        def __iter__(self):
            return iter(())

        def __len__(self):
            return 0

    return ModeData()


def g_mode(m):
    return "Sync" if m in ("S", "s") else "Async"


# ================================================================================================ inheritance
# nodes: ("t", n) ("v", x) ("s",) ("b", name, required, body) ("e", parent) ("i", name)
INH_IMPORTS = "PairInherit"


def inh_src(nodes):
    out = []
    for n in nodes:
        k = n[0]
        if k == "t":
            out.append(f"t{n[1]};")
        elif k == "v":
            out.append("{{ d." + n[1] + " }};")
        elif k == "s":
            out.append("{{ block.super }}")
        elif k == "b":
            out.append("{% block " + n[1] + (" required" if n[2] else "") + " %}" + inh_src(n[3]) + "{% endblock %}")
        elif k == "e":
            out.append("{% extends '" + n[1] + "' %}")
        else:
            out.append("{% include '" + n[1] + "' %}")
    return "".join(out)


def g_inh(nodes):
    items = []
    for n in nodes:
        k = n[0]
        if k == "t":
            items.append(f"NText {g_N(n[1])}")
        elif k == "v":
            items.append(f"NVar {g_str(n[1])}")
        elif k == "s":
            items.append("NSuper")
        elif k == "b":
            items.append(f"NBlock {g_str(n[1])} {g_bool(n[2])} {g_inh(n[3])}")
        elif k == "e":
            items.append(f"NExtends {g_str(n[1])}")
        else:
            items.append(f"NInclude {g_str(n[1])}")
    return g_list(items)


def inh_parse_out(text):
    evs = []
    for tok in text.split(";")[:-1]:
        if tok.startswith("t"):
            evs.append(f"OText {g_N(int(tok[1:]))}")
        elif tok[:2] in ("s:", "a:"):
            evs.append(f"OVal {g_mode(tok[0])} {g_str(tok[2:])}")
        else:
            evs.append(f"OVal Sync {g_str('?' + tok)}")  # plain data: never sent to the model
    return g_list(evs)


def g_iobs(o):
    log, out, err = o
    loads = g_list(f"({g_mode(m)}, {g_str(n)}, {g_bool(ok)})" for m, n, ok in log)
    return "{| io_out := %s; io_loads := %s; io_end := %s |}" % (
        inh_parse_out(out) if out is not None else "[]", loads, f"Some {err}" if err else "None")


def inh_run(templates, root, use_async, instrumented=True, loader_kind="dict"):
    """One render of `root` through one API.  Returns (load log after the root was obtained, output, exception class)."""
    import liquid

    log = []
    srcs = {k: inh_src(v) for k, v in templates.items()}
    if instrumented:
        loader = rec_loader(srcs, log)
        data = {"d": mode_data()}
    else:
        loader = liquid.CachingDictLoader(srcs) if loader_kind == "caching" else liquid.DictLoader(srcs)
        data = {"d": {x: "val-" + x for x in ("x", "y", "z")}}
    env = liquid.Environment(extra=True, loader=loader)
    try:
        if use_async:
            t = run_async(env.get_template_async(root))
            del log[:]
            return (log, run_async(t.render_async(**data)), None)
        t = env.get_template(root)
        del log[:]
        return (log, t.render(**data), None)
    except Exception as e:  # noqa: BLE001
        return (log, None, classify_exc(e))


T = lambda n: ("t", n)  # noqa: E731
V = lambda x: ("v", x)  # noqa: E731
S = ("s",)
B = lambda name, body, req=False: ("b", name, req, body)  # noqa: E731
E = lambda p: ("e", p)  # noqa: E731
I = lambda p: ("i", p)  # noqa: E731,E741

OVERRIDES = [
    None,                                     # the template does not define the block
    [T(1)],
    [T(1), S],
    [V("x"), S, T(2)],
    [S, I("inc")],
    [B("b3", [T(3), S]), S],
    [S, S],
]
BASE_BODIES = [[T(7)], [V("y")], [I("inc")], [V("y"), B("b3", [T(8), V("z")])], []]
INC_BODIES = [[V("z")], [V("z"), S, T(9)]]


def inh_chains(ck: Check):
    """leaf -> (mid ->) (mid2 ->) base, each level overriding b1 or not."""
    rng = family_rng(ck, "inherit-chains")
    for hops in (1, 2, 3):
        names = ["leaf", "mid", "mid2"][:hops] + ["base"]
        for ovs in itertools.product(range(len(OVERRIDES)), repeat=hops):
            for bi, bb in enumerate(BASE_BODIES):
                for ii, ib in enumerate(INC_BODIES):
                    uses_inc = any(OVERRIDES[o] and I("inc") in OVERRIDES[o] for o in ovs) or I("inc") in bb
                    if ii and not uses_inc:
                        continue
                    if hops == 3 and rng.random() < (0.94 if ck.quick else 0.4):
                        continue
                    if ck.quick and hops == 2 and rng.random() < 0.65:
                        continue
                    tpls = {"inc": ib}
                    for lvl, name in enumerate(names[:-1]):
                        body = [T(10 + lvl), E(names[lvl + 1])]
                        if OVERRIDES[ovs[lvl]] is not None:
                            body.append(B("b1", OVERRIDES[ovs[lvl]]))
                        body.append(T(20 + lvl))
                        tpls[name] = body
                    tpls["base"] = [T(30), B("b1", bb), T(31), B("b2", [T(32), S]), T(33)]
                    yield ("chain", hops, ovs, bi, ii), tpls, "leaf"


INH_SPECIAL = [
    ("required-not-overridden", {"leaf": [E("base")], "base": [B("b1", [T(1)], True)]}),
    ("required-overridden", {"leaf": [E("base"), B("b1", [T(2), S])], "base": [B("b1", [T(1)], True)]}),
    ("required-in-leaf", {"leaf": [E("base"), B("b1", [T(2)], True)], "base": [B("b1", [T(1)])]}),
    ("required-mid-overridden", {"leaf": [E("mid"), B("b1", [T(3), S])], "mid": [E("base"), B("b1", [T(2), S], True)],
                                 "base": [B("b1", [T(1)])]}),
    ("required-direct", {"leaf": [T(1), B("b1", [T(2)], True)]}),
    ("missing-parent", {"leaf": [T(1), E("nosuch"), B("b1", [T(2)])]}),
    ("missing-grandparent", {"leaf": [E("mid")], "mid": [E("nosuch"), B("b1", [T(2)])]}),
    ("circular", {"leaf": [E("mid")], "mid": [E("leaf")]}),
    ("self-extends", {"leaf": [E("leaf"), B("b1", [T(1)])]}),
    ("circular-3", {"leaf": [E("mid")], "mid": [E("base")], "base": [E("mid"), B("b1", [T(1)])]}),
    ("duplicate-block-leaf", {"leaf": [E("base"), B("b1", [T(1)]), B("b1", [T(2)])], "base": [B("b1", [T(3)])]}),
    ("duplicate-block-base", {"leaf": [E("base"), B("b1", [T(1)])], "base": [B("b1", [T(3)]), B("b1", [T(4)])]}),
    ("duplicate-nested", {"leaf": [E("base")], "base": [B("b1", [B("b1", [T(4)])])]}),
    ("two-extends", {"leaf": [E("base"), E("mid"), B("b1", [T(1)])], "base": [B("b1", [T(3)])], "mid": [B("b1", [T(5)])]}),
    ("two-extends-parent", {"leaf": [E("mid")], "mid": [E("base"), E("base")], "base": [B("b1", [T(3)])]}),
    ("dup-before-missing", {"leaf": [E("nosuch"), B("b1", []), B("b1", [])]}),
    ("super-top-level", {"leaf": [T(1), S, T(2), V("x")]}),
    ("super-direct-block", {"leaf": [B("b1", [T(1), S, V("x")]), T(2)]}),
    ("text-around-extends", {"leaf": [T(1), V("x"), E("base"), T(2), V("y")], "base": [T(3), B("b1", [V("z")]), T(4)]}),
    ("block-only-in-leaf", {"leaf": [E("base"), B("zz", [T(1), S])], "base": [T(3)]}),
    ("nested-override-inner", {"leaf": [E("base"), B("inn", [T(1), S])], "base": [B("outer", [T(2), B("inn", [T(3), V("x")]), T(4)])]}),
    ("nested-override-outer", {"leaf": [E("base"), B("outer", [T(1), S, B("inn", [T(5), S])])],
                               "base": [B("outer", [T(2), B("inn", [T(3), V("x")]), T(4)])]}),
    ("super-chain-3", {"leaf": [E("mid"), B("b1", [V("x"), S])], "mid": [E("mid2"), B("b1", [V("y"), S])],
                       "mid2": [E("base"), B("b1", [V("z"), S])], "base": [B("b1", [V("x"), S, T(1)])]}),
    ("super-skips-level", {"leaf": [E("mid"), B("b1", [T(1), S])], "mid": [E("base")], "base": [B("b1", [V("x")])]}),
    ("include-in-super-includes", {"leaf": [E("base"), B("b1", [S])], "base": [B("b1", [I("inc")])], "inc": [V("x"), I("inc2")],
                                   "inc2": [V("y")]}),
    ("include-missing-in-super", {"leaf": [E("base"), B("b1", [T(1), S])], "base": [B("b1", [V("x"), I("nosuch")])]}),
    ("include-missing-in-block", {"leaf": [E("base"), B("b1", [T(1), I("nosuch")])], "base": [B("b1", [V("x")])]}),
    ("include-extending-partial", {"leaf": [T(1), I("part"), T(2)], "part": [E("base"), B("b1", [V("x"), S])],
                                   "base": [T(3), B("b1", [V("y")]), T(4)]}),
    # an extends chain started from inside a block of another chain: the inner chain appends to the live stacks, and
    # its clear() empties them for the rest of the outer render
    ("include-extending-inside-block", {"leaf": [E("base"), B("b1", [T(1), I("part"), S])],
                                        "part": [E("base2"), B("b9", [V("x"), S])],
                                        "base2": [T(5), B("b9", [V("y")]), T(6)],
                                        "base": [T(3), B("b1", [V("z")]), T(4), B("b2", [T(7)]), T(8)]}),
    ("block-in-included-partial", {"leaf": [E("base"), B("b1", [T(1), S])], "base": [I("inc")], "inc": [T(2), B("b1", [V("x")])]}),
    ("super-in-included-partial", {"leaf": [E("base"), B("b1", [T(1), I("inc")])], "base": [B("b1", [V("y")])], "inc": [V("x"), S]}),
]


def inh_random(ck: Check, n):
    rng = family_rng(ck, "inherit-random")
    bnames = ["b1", "b2", "b3"]

    def body(depth, in_block, allow_inc):
        nonlocal bnames
        out = []
        for _ in range(rng.randint(0, 3)):
            r = rng.random()
            if r < 0.25:
                out.append(T(rng.randint(1, 9)))
            elif r < 0.45:
                out.append(V(rng.choice("xyz")))
            elif r < 0.65:
                out.append(S)
            elif r < 0.85 and depth > 0:
                out.append(B(rng.choice(bnames), body(depth - 1, True, allow_inc), rng.random() < 0.1))
            elif allow_inc:
                out.append(I(rng.choice(allow_inc)))
            else:
                out.append(T(0))
        return out

    def dedupe(nodes, seen):
        """most generated templates should get past the duplicate-block check"""
        out = []
        for nd in nodes:
            if nd[0] == "b":
                if nd[1] in seen and rng.random() < 0.9:
                    continue
                seen.add(nd[1])
                nd = ("b", nd[1], nd[2], dedupe(nd[3], seen))
            out.append(nd)
        return out

    for k in range(n):
        hops = rng.randint(0, 3)
        names = ["leaf", "mid", "mid2"][:hops] + ["base"] if hops else ["leaf"]
        # blocks of the partials have names of their own: a partial that re-opens a block it is included from never ends
        bnames = ["p1", "p2"]
        tpls = {"inc2": dedupe(body(1, False, []), set()), "inc": dedupe(body(1, False, ["inc2"]), set())}
        bnames = ["b1", "b2", "b3"]
        for lvl, name in enumerate(names):
            nodes = body(2, False, ["inc", "inc2"])
            if lvl + 1 < len(names):
                target = names[lvl + 1] if rng.random() < 0.93 else rng.choice(["nosuch", "leaf", names[lvl]])
                nodes.insert(rng.randint(0, min(1, len(nodes))), E(target))
            tpls[name if hops else "leaf"] = dedupe(nodes, set())
        yield ("random", k), tpls, "leaf"


def run_inherit(ck: Check) -> None:
    cases, expected, meta = [], [], []
    reported = {}

    def one(label, tpls, root):
        # (a) the property: ordinary data, built-in loaders
        for lk in ("dict", "caching"):
            ps = inh_run(tpls, root, False, instrumented=False, loader_kind=lk)
            pa = inh_run(tpls, root, True, instrumented=False, loader_kind=lk)
            if ps[1:] != pa[1:]:
                sig = "inherit:" + (label[0] if label[0] != "chain" else f"chain{label[1]}") + ":" + (
                    "exception" if ps[2] != pa[2] else "output")
                reported[sig] = reported.get(sig, 0) + 1
                if reported[sig] <= 2:
                    ck.violation("impl-violation", sig,
                                 f"templates {({k: inh_src(v) for k, v in tpls.items()})!r}: render gives "
                                 f"{ps[1] if ps[2] is None else ps[2]!r}, render_async gives {pa[1] if pa[2] is None else pa[2]!r} ({lk} loader)",
                                 {"type": "inherit", "templates": {k: inh_src(v) for k, v in tpls.items()}, "root": root, "loader": lk})
        # (b) instrumented, each API against its model copy
        s = inh_run(tpls, root, False)
        a = inh_run(tpls, root, True)
        uses_super = "block.super" in "".join(inh_src(v) for v in tpls.values())
        ck.note_case(("inherit", label), nontrivial=uses_super)
        ck.count("inherit." + (label[0] if label[0] != "chain" else f"chain{label[1]}") + "." + ("ok" if s[2] is None else s[2]))
        if a[2] is None and any(m == "S" for m, _, _ in a[0]):
            ck.count("inherit.async-render-loads-synchronously")
        if a[2] is None and "s:" in a[1]:
            ck.count("inherit.async-render-reads-synchronously")
        cases.append("{| ic_templates := %s; ic_root := %s |}" % (
            g_list(f"({g_str(k)}, {g_inh(v)})" for k, v in tpls.items()), g_str(root)))
        expected.append(f"({g_iobs(s)}, {g_iobs(a)})")
        meta.append((label, tpls, s, a))

    for label, tpls, root in inh_chains(ck):
        one(label, tpls, root)
    for name, tpls in INH_SPECIAL:
        one(("special", name), tpls, "leaf")
    for label, tpls, root in inh_random(ck, 180 if ck.quick else 2000):
        one(label, tpls, root)

    i0 = len(meta) // 2
    ck.sample({"templates": {k: inh_src(v) for k, v in meta[i0][1].items()}, "sync": meta[i0][2][1], "async": meta[i0][3][1],
               "async_loads": meta[i0][3][0]})
    mm = ck.coq_mismatches("inherit", INH_IMPORTS, "run_inherit", "iobs2_eqb", "icase", "iobs * iobs", cases, expected, chunk=250)
    ck.traces += len(cases)
    shown = 0
    for i in mm:
        label, tpls, s, a = meta[i]
        if shown >= 3:
            continue
        shown += 1
        model = ck.coq_eval(INH_IMPORTS, [f"run_inherit ({cases[i]})"])[0]
        ck.violation("correspondence", "c01-inherit-correspondence",
                     f"model PairInherit.run_inherit and the implementation disagree on {label}: "
                     f"{({k: inh_src(v) for k, v in tpls.items()})!r}; implementation sync {s}, async {a}",
                     {"type": "inherit", "templates": {k: inh_src(v) for k, v in tpls.items()}, "impl": [s, a], "model": model[:2000],
                      "broken": "correspondence PairInherit.run_inherit ~ extends / block / block.super through both APIs "
                                "(theorems C01_inherit_*)"}, no_input=True)


def replay_inherit(case) -> bool:
    import liquid

    bad = False
    for mk in (liquid.DictLoader, liquid.CachingDictLoader):
        data = {"d": {x: "val-" + x for x in ("x", "y", "z")}}
        s = outcome(lambda: liquid.Environment(extra=True, loader=mk(case["templates"])).get_template(case["root"]).render(**data))
        env = liquid.Environment(extra=True, loader=mk(case["templates"]))
        a = outcome(lambda: run_async(run_async(env.get_template_async(case["root"])).render_async(**data)))
        print(mk.__name__, "sync:", s, "async:", a)
        bad = bad or s != a
    return bad


# ==================================================================================================== loading
LOAD_IMPORTS = "PairLoad"
PROBES = ["k1", "k2", "k3", "k4", "k5"]


def load_text(n, bad=False):
    """source number n: n leading x's (shown by the output and by the position of the echo tag in a tag audit)"""
    return "x" * n + ";{% echo 0 %};" + "".join("{{ " + k + " }};" for k in PROBES) + ("{% if %}" if bad else "")


def g_dict(d):
    return g_list(f"({g_str(k)}, {g_N(v)})" for k, v in d.items())


class LoaderSpec:
    """A loader tree: ("dict", {name: n}) ("matter", {name: (n, matter)}) ("fs", [(dir, {rel: n})], ext) ("choice", [specs])"""

    def __init__(self, workdir):
        import tempfile

        self.root = tempfile.mkdtemp(prefix="c01-load-", dir=workdir)
        self.made = {}

    def dirpath(self, d, files, bad):
        import os

        key = (d, tuple(sorted(files.items())), tuple(bad))
        if key not in self.made:
            path = os.path.join(self.root, f"{d}-{len(self.made)}")
            for rel, n in files.items():
                fp = os.path.join(path, rel)
                os.makedirs(os.path.dirname(fp), exist_ok=True)
                with open(fp, "w") as f:
                    f.write(load_text(n, n in bad))
            os.makedirs(path, exist_ok=True)
            self.made[key] = path
        return self.made[key]

    def build(self, spec, bad):
        import liquid
        from liquid.loader import TemplateSource

        k = spec[0]
        if k == "dict":
            return liquid.DictLoader({name: load_text(n, n in bad) for name, n in spec[1].items()})
        if k == "matter":
            entries = spec[1]

            class MatterLoader(liquid.DictLoader):
                def get_source(self, env, template_name, *, context=None, **kwargs):
                    src = super().get_source(env, template_name, context=context, **kwargs)
                    return TemplateSource(src.text, src.name, src.uptodate, dict(entries[template_name][1]))

            return MatterLoader({name: load_text(n, n in bad) for name, (n, _) in entries.items()})
        if k == "fs":
            return liquid.FileSystemLoader([self.dirpath(d, files, bad) for d, files in spec[1]], ext=spec[2])
        return liquid.ChoiceLoader([self.build(x, bad) for x in spec[1]])

    def gallina(self, spec, bad):
        k = spec[0]
        if k == "dict":
            return "LDict " + g_list(f"({g_str(n)}, {g_N(v)})" for n, v in spec[1].items())
        if k == "matter":
            return "LMatter " + g_list(f"({g_str(n)}, ({g_N(v)}, {g_dict(m)}))" for n, (v, m) in spec[1].items())
        if k == "fs":
            dirs = g_list(f"({g_str(self.dirpath(d, files, bad))}, {g_list(f'({g_str(r)}, {g_N(v)})' for r, v in files.items())})"
                          for d, files in spec[1])
            return f"LFs {dirs} {g_opt(spec[2], g_str)}"
        return "LChoice " + g_list("(" + self.gallina(x, bad) + ")" for x in spec[1])


LOAD_NAMES = ["p", "dir/q", "t.html", "dir/u.v.liquid", "nosuch", "", "dir/sub/r"]
D1 = ("dict", {"p": 1, "dir/q": 2, "t.html": 3})
D2 = ("dict", {"p": 4, "dir/u.v.liquid": 5, "dir/sub/r": 6})
M1 = ("matter", {"p": (7, {"k3": 300, "k4": 400}), "dir/q": (8, {}), "t.html": (9, {"k1": 100})})
F1 = ("fs", [("a", {"p": 10, "dir/q": 11, "t.html": 12, "p.liquid": 13, "dir/q.liquid": 14})], None)
F2 = ("fs", [("a", {"p": 10, "dir/q": 11, "t.html": 12, "p.liquid": 13, "dir/q.liquid": 14, "dir/u.v.liquid": 15})], ".liquid")
F3 = ("fs", [("b", {"dir/q": 16}), ("a", {"p": 10, "dir/q": 11, "dir/sub/r": 17})], None)
LOADER_SPECS = [
    D1, M1, F1, F2, F3,
    ("choice", []),
    ("choice", [D1, D2]),
    ("choice", [D2, D1]),
    ("choice", [("dict", {}), M1, D2]),
    ("choice", [F3, ("choice", [("dict", {}), D2]), M1]),
    ("choice", [("choice", [("choice", [D2])]), F2]),
]
ENV_GLOBALS = [{}, {"k1": 1, "k2": 2}]
REQ_GLOBALS = [None, {}, {"k2": 20, "k3": 30}]
LOAD_ARGS = {"k4": 4000}


def load_picture(r):
    """(name, path, source number, resolved probes) of a template, or the exception class"""
    if r[0] == "err":
        return r
    t = r[1]
    out = outcome(lambda: t.render(**LOAD_ARGS))
    if out[0] == "err":
        return ("err", "render:" + out[1])
    parts = out[1].split(";")
    return ("tmpl", t.name, str(t.path), len(parts[0]), tuple(int(x) if x else None for x in parts[2:2 + len(PROBES)]))


def tags_picture(r):
    if r[0] == "err":
        return r
    a = r[1]
    return ("tmpl", a.template_name, a.template_name, a.all_tags["echo"][0].index - 4, ())


def g_lobs(pic):
    if pic[0] == "err":
        return f"LE {pic[1]}"
    return f"LT {g_str(pic[1])} {g_str(pic[2])} {g_N(pic[3])} {g_list(g_opt(v, g_N) for v in pic[4])}"


def run_loaders2(ck: Check) -> None:
    import shutil

    import liquid

    world = LoaderSpec(ck.workdir)
    cases, expected, meta = [], [], []
    reported = {}
    preamble = []
    try:
        for li, spec in enumerate(LOADER_SPECS):
            for bi, bad in enumerate(((), (2, 11, 8))):
                preamble.append(f"Definition ld_{li}_{bi} : loader := {world.gallina(spec, bad)}.")
                for eg in ENV_GLOBALS:
                    env = liquid.Environment(loader=world.build(spec, bad), globals=dict(eg))
                    for name in LOAD_NAMES:
                        for rg in REQ_GLOBALS:
                            if bad and rg is not None:
                                continue
                            kw = {} if rg is None else {"globals": dict(rg)}
                            s = load_picture(outcome(lambda: env.get_template(name, **kw)))
                            a = load_picture(outcome(lambda: run_async(env.get_template_async(name, **kw))))
                            ts = tags_picture(outcome(lambda: env.analyze_tags(name)))
                            ta = tags_picture(outcome(lambda: run_async(env.analyze_tags_async(name))))
                            ck.note_case(("load2", li, bad, tuple(eg), name, None if rg is None else tuple(rg)),
                                         nontrivial=spec[0] in ("choice", "fs", "matter"))
                            ck.count(f"load2.{spec[0]}." + ("ok" if s[0] == "tmpl" else s[1]))
                            if s != a or ts != ta:
                                sig = f"load2:{spec[0]}:" + ("analyze_tags" if s == a else "get_template")
                                reported[sig] = reported.get(sig, 0) + 1
                                if reported[sig] <= 2:
                                    ck.violation("impl-violation", sig,
                                                 f"loader {spec!r}, name {name!r}, globals {rg!r}, environment globals {eg!r}: get_template gives "
                                                 f"{s}, get_template_async gives {a}; analyze_tags gives {ts}, analyze_tags_async gives {ta}",
                                                 {"type": "load2", "loader": li, "bad": list(bad), "env_globals": eg, "name": name, "globals": rg})
                            cases.append("{| lc_env := {| e_globals := %s; e_loader := %s; e_bad := %s |}; lc_name := %s; lc_globals := %s; "
                                         "lc_args := %s; lc_probe := %s |}" % (
                                             g_dict(eg), f"ld_{li}_{bi}", g_list(g_N(b) for b in bad), g_str(name),
                                             g_opt(rg, g_dict), g_dict(LOAD_ARGS), g_list(g_str(k) for k in PROBES)))
                            expected.append(f"(({g_lobs(s)}, {g_lobs(a)}), ({g_lobs(ts)}, {g_lobs(ta)}))")
                            meta.append((spec, bad, eg, name, rg, s, a, ts, ta))
        _mixed_histories(ck, world)
    finally:
        shutil.rmtree(world.root, ignore_errors=True)
    k = len(meta) // 2
    ck.sample({"loader": repr(meta[k][0]), "name": meta[k][3], "globals": meta[k][4], "get_template": list(meta[k][5])})
    mm = ck.coq_mismatches("load2", LOAD_IMPORTS, "run_load2", "lobs4_eqb", "lcase", "(lobs * lobs) * (lobs * lobs)", cases, expected,
                           chunk=200, preamble="\n".join(preamble))
    ck.traces += len(cases)
    shown = 0
    for i in mm:
        spec, bad, eg, name, rg, s, a, ts, ta = meta[i]
        if shown >= 3:
            continue
        shown += 1
        model = ck.coq_eval(LOAD_IMPORTS, [f"run_load2 ({cases[i]})"], preamble="\n".join(preamble))[0]
        ck.violation("correspondence", "c01-load2-correspondence",
                     f"model PairLoad.run_load2 and the implementation disagree on loader {spec!r}, name {name!r}, globals {rg!r}, "
                     f"environment globals {eg!r}, unparsable sources {bad}: implementation {s} / {a} / {ts} / {ta}",
                     {"type": "load2", "impl": [s, a, ts, ta], "model": model[:1500],
                      "broken": "correspondence PairLoad.run_load2 ~ get_template(_async) / analyze_tags(_async) "
                                "(theorems C01_get_template, C01_analyze_tags)"}, no_input=True)


def mix_history(world, tag, kind, cap, steps):
    """Run `steps` against two caching loaders of the same kind: through the APIs as listed, and through get_template only."""
    import os

    import liquid

    pair = []
    for which in range(2):
        srcs = {"a": load_text(1), "dir/b": load_text(2)}
        if kind.startswith("fs"):
            d = world.dirpath(f"mix{tag}-{which}", {"a": 1, "dir/b": 2}, ())
            ld = liquid.CachingFileSystemLoader(d, auto_reload=(kind == "fs"), capacity=cap)
        elif kind == "choice":
            ld = liquid.CachingChoiceLoader([liquid.DictLoader({}), liquid.DictLoader(srcs)], capacity=cap)
            d = srcs
        else:
            ld = liquid.CachingDictLoader(srcs, namespace_key="ns" if kind == "dict-ns" else "", capacity=cap)
            d = srcs
        pair.append((liquid.Environment(loader=ld, globals={"k1": 1}), d))
    results = ([], [])
    for which, (env, d) in enumerate(pair):
        edits = 0
        for st in steps:
            if st[0] == "edit":
                edits += 1
                if isinstance(d, dict):
                    d[st[1]] = load_text(st[2])
                else:
                    fp = os.path.join(d, st[1])
                    with open(fp, "w") as f:
                        f.write(load_text(st[2]))
                    t0 = os.stat(fp).st_mtime
                    os.utime(fp, (t0 + 10 * edits, t0 + 10 * edits))
                continue
            _, api, name, g = st
            kw = {} if g is None else {"globals": dict(g)}
            if which == 0 and api == "A":
                pic = load_picture(outcome(lambda: run_async(env.get_template_async(name, **kw))))
            else:
                pic = load_picture(outcome(lambda: env.get_template(name, **kw)))
            # paths differ between the two sandboxes of a file system pair: compare name, source and values
            results[which].append(pic if pic[0] == "err" else (pic[0], pic[1], pic[3], pic[4]))
    return results


def _mixed_histories(ck: Check, world) -> None:
    """One caching loader, a history of loads through a mix of the two APIs with edits in between, against the same
    history through the synchronous API only on a second loader of the same kind (theorem C01_caching_api_mix)."""
    rng = family_rng(ck, "load-mixed")
    reported = {}
    kinds = ["dict", "fs", "choice", "dict-ns", "fs-noreload"]
    n_hist = 60 if ck.quick else 300
    for h in range(n_hist):
        kind = kinds[h % len(kinds)]
        cap = rng.choice([1, 2, 300])
        steps = []
        for _ in range(rng.randint(2, 6)):
            r = rng.random()
            if r < 0.2:
                steps.append(("edit", rng.choice(["a", "dir/b"]), rng.randint(3, 9)))
            else:
                steps.append(("get", rng.choice("SA"), rng.choice(["a", "dir/b", "nosuch"]),
                              rng.choice([None, {"k2": 20}, {"k2": 21, "ns": "x"}])))
        mixed, plain = mix_history(world, h, kind, cap, steps)
        ck.note_case(("mix", kind, cap, tuple(map(repr, steps))), nontrivial=any(s[0] == "get" and s[1] == "A" for s in steps))
        ck.count(f"load2.mixed-history.{kind}")
        if mixed != plain:
            sig = f"load2:mixed-history:{kind}"
            reported[sig] = reported.get(sig, 0) + 1
            if reported[sig] <= 2:
                ck.violation("impl-violation", sig,
                             f"{kind} caching loader (capacity {cap}), history {steps!r}: through the APIs as listed {mixed}, through "
                             f"get_template only {plain}",
                             {"type": "mix", "kind": kind, "capacity": cap, "steps": [list(s) for s in steps]})


def replay_load(case) -> bool:
    import shutil
    import tempfile

    import liquid

    work = tempfile.mkdtemp(prefix="c01-replay-")
    try:
        world = LoaderSpec(work)
        if case["type"] == "mix":
            mixed, plain = mix_history(world, "r", case["kind"], case["capacity"], [tuple(s) for s in case["steps"]])
            print("as listed :", mixed)
            print("sync only :", plain)
            return mixed != plain
        env = liquid.Environment(loader=world.build(LOADER_SPECS[case["loader"]], tuple(case["bad"])), globals=dict(case["env_globals"]))
        kw = {} if case["globals"] is None else {"globals": dict(case["globals"])}
        s = load_picture(outcome(lambda: env.get_template(case["name"], **kw)))
        a = load_picture(outcome(lambda: run_async(env.get_template_async(case["name"], **kw))))
        ts = tags_picture(outcome(lambda: env.analyze_tags(case["name"])))
        ta = tags_picture(outcome(lambda: run_async(env.analyze_tags_async(case["name"]))))
        print("get_template:", s, "get_template_async:", a)
        print("analyze_tags:", ts, "analyze_tags_async:", ta)
        return s != a or ts != ta
    finally:
        shutil.rmtree(work, ignore_errors=True)


# =================================================================================================== analysis
# nodes: ("probe", [vars]) ("assign", x) ("for", x, body) ("block", name, body) ("snippet", name, body)
#        ("include", name, [args]) ("render", name, [args]) ("rsnip", sname, [args]) ("extends", name)
AN_IMPORTS = "PairAnalyze"
AN_TAGS = {"echo": "TgEcho", "assign": "TgAssign", "for": "TgFor", "block": "TgBlock", "snippet": "TgSnippet",
           "include": "TgInclude", "render": "TgRender", "extends": "TgExtends"}
AN_STRIDE = 3000


class AnSource:
    """Source text of one template; every node is identified by the offset of its opening tag + 1.  Templates start
    with a run of text of different lengths so that offsets are unique across the templates of a case."""

    def __init__(self, tindex):
        self.text = "x" * (tindex * AN_STRIDE)
        self.ranges = []  # (start, end, id)

    def tag(self, body):
        start = len(self.text)
        self.text += "{% " + body + " %}"
        self.ranges.append((start, len(self.text), start + 1))
        return start + 1

    def emit(self, nodes):
        """append the nodes' source; return their Gallina terms"""
        out = []
        for n in nodes:
            k = n[0]
            args = lambda a: "".join(f", {x}: 1" for x in a)  # noqa: E731
            if k == "probe":
                i = self.tag("echo " + " | append: ".join(n[1]))
                out.append(f"AProbe {g_N(i)} {g_list(g_str(v) for v in n[1])}")
            elif k == "assign":
                i = self.tag(f"assign {n[1]} = 1")
                out.append(f"AAssign {g_N(i)} {g_str(n[1])}")
            elif k in ("for", "block", "snippet"):
                head = {"for": f"for {n[1]} in (1..2)", "block": f"block {n[1]}", "snippet": f"snippet {n[1]}"}[k]
                i = self.tag(head)
                body = self.emit(n[2])
                self.text += "{% end" + k + " %}"
                out.append(f"{ {'for': 'AFor', 'block': 'ABlock', 'snippet': 'ASnippet'}[k] } {g_N(i)} {g_str(n[1])} {g_list(body)}")
            elif k == "include":
                i = self.tag(f"include '{n[1]}'" + args(n[2]))
                out.append(f"AInclude {g_N(i)} {g_str(n[1])} {g_list(g_str(a) for a in n[2])}")
            elif k == "render":
                i = self.tag(f"render '{n[1]}'" + args(n[2]))
                out.append(f"ARender {g_N(i)} {g_str(n[1])} {g_list(g_str(a) for a in n[2])}")
            elif k == "rsnip":
                i = self.tag(f"render {n[1]}" + args(n[2]))
                out.append(f"ARenderSnippet {g_N(i)} {g_str(n[1])} {g_list(g_str(a) for a in n[2])}")
            else:
                i = self.tag(f"extends '{n[1]}'")
                out.append(f"AExtends {g_N(i)} {g_str(n[1])}")
        return out


def an_build(templates):
    """templates: {name: nodes}, 'root' among them.  -> sources, gallina terms, id lookup"""
    srcs, terms, ranges = {}, {}, []
    for ti, (name, nodes) in enumerate(templates.items()):
        a = AnSource(ti)
        terms[name] = g_list(a.emit(nodes))
        srcs[name] = a.text
        ranges.extend(a.ranges)
        assert len(a.text) < (ti + 1) * AN_STRIDE, "template too long for the offset stride"
    ranges.sort()

    def node_of(index):
        import bisect

        j = bisect.bisect_right(ranges, (index, 1 << 60, 0)) - 1
        assert j >= 0 and ranges[j][0] <= index < ranges[j][1], (index, ranges[max(j, 0)])
        return ranges[j][2]

    return srcs, terms, node_of


def an_picture(a, node_of):
    def spans(d, attr):
        return [(k, [(getattr(v, attr, v).template_name, node_of(getattr(v, attr, v).index)) for v in vs]) for k, vs in d.items()]

    return (spans(a.variables, "span"), spans(a.globals, "span"), spans(a.locals, "span"), spans(a.tags, "span"))


def an_run(srcs, node_of, ip, use_async, instrumented=True, loader_kind="dict"):
    import liquid
    from liquid.extra import SnippetTag

    log = []
    partials = {k: v for k, v in srcs.items() if k != "root"}
    if instrumented:
        loader = rec_loader(partials, log)
    else:
        loader = liquid.CachingDictLoader(partials) if loader_kind == "caching" else liquid.DictLoader(partials)
    env = liquid.Environment(extra=True, loader=loader)
    env.add_tag(SnippetTag)
    try:
        t = env.from_string(srcs["root"], name="root")
        a = run_async(t.analyze_async(include_partials=ip)) if use_async else t.analyze(include_partials=ip)
        return (log, an_picture(a, node_of), None)
    except Exception as e:  # noqa: BLE001
        return (log, None, classify_exc(e))


def g_aobs(o):
    log, pic, err = o

    def grp(items, key):
        return g_list(f"({key(k)}, {g_list(f'({g_str(tn)}, {g_N(i)})' for tn, i in sp)})" for k, sp in items)

    if pic is None:
        v = g = lo = tg = "[]"
    else:
        v, g, lo = (grp(x, g_str) for x in pic[:3])
        tg = grp(pic[3], lambda k: AN_TAGS[k])
    return "{| ao_vars := %s; ao_globals := %s; ao_locals := %s; ao_tags := %s; ao_loads := %s; ao_end := %s |}" % (
        v, g, lo, tg, g_list(f"({'ASync' if m == 'S' else 'AAsync'}, {g_str(n)}, {g_bool(ok)})" for m, n, ok in log),
        f"Some {err}" if err else "None")


def P_(*vs):
    return ("probe", ["g"] + list(vs))


AN_SPECIAL = [
    ("everything", {"root": [("extends", "base"), ("for", "a", [P_("a"), ("include", "p", ["a"])]), ("render", "p", ["a"]),
                             ("render", "p", ["c"]), ("snippet", "s", [P_("z")]), ("rsnip", "s", ["z"]), ("rsnip", "s", []),
                             ("include", "p", [])],
                    "p": [P_("a"), ("assign", "b"), ("include", "q", [])], "q": [P_("b")],
                    "base": [("block", "c", [P_("block")]), P_("a")]}),
    ("missing-include", {"root": [P_("a"), ("include", "nosuch", []), P_("b")]}),
    ("missing-render-late", {"root": [("include", "p", []), P_("a")], "p": [P_("b"), ("render", "nosuch", ["b"]), P_("c")]}),
    ("missing-extends", {"root": [("extends", "nosuch"), P_("a")]}),
    ("missing-in-revisit", {"root": [("include", "p", []), ("assign", "a"), ("include", "p", [])], "p": [P_("a"), ("include", "q", [])],
                            "q": [P_("b")]}),
    ("self-include", {"root": [("include", "p", [])], "p": [P_("a"), ("assign", "a"), ("include", "p", []), P_("a")]}),
    ("mutual-render", {"root": [("render", "p", ["a"])], "p": [P_("a"), ("render", "q", ["a"])], "q": [P_("a"), ("render", "p", ["a"])]}),
    ("snippet-unbound", {"root": [("rsnip", "s", ["a"]), P_("a")]}),
    ("snippet-empty", {"root": [("snippet", "s", []), ("rsnip", "s", []), ("snippet", "t", []), ("rsnip", "t", [])]}),
    ("snippet-twice-different", {"root": [("snippet", "s", [P_("a")]), ("snippet", "t", [P_("b")]), ("rsnip", "s", ["a"]),
                                          ("rsnip", "t", ["a"]), ("rsnip", "s", ["a"]), ("rsnip", "s", ["b"])]}),
    ("snippet-redefined", {"root": [("snippet", "s", [P_("a")]), ("rsnip", "s", []), ("snippet", "s", [P_("b")]), ("rsnip", "s", [])]}),
    ("snippet-from-partial", {"root": [("snippet", "s", [P_("a"), ("assign", "z")]), ("include", "p", []), P_("z")],
                              "p": [("rsnip", "s", ["a"]), P_("z")]}),
    ("snippet-in-partial-used-in-root", {"root": [("include", "p", []), ("rsnip", "s", [])], "p": [("snippet", "s", [P_("a")])]}),
    ("snippet-includes", {"root": [("snippet", "s", [("include", "p", ["a"])]), ("rsnip", "s", []), ("rsnip", "s", ["b"])],
                          "p": [P_("a", "b")]}),
    ("extends-chain", {"root": [("extends", "mid"), ("block", "c", [P_("block", "x")])],
                       "mid": [("extends", "base"), ("block", "c", [P_("y")]), ("assign", "x")],
                       "base": [("block", "c", [P_("x")]), P_("x")]}),
    ("extends-twice-same", {"root": [("extends", "base"), ("extends", "base")], "base": [P_("x")]}),
    ("include-scopes", {"root": [("include", "p", ["a"]), ("for", "b", [("include", "p", ["a"])]), ("include", "p", ["b"]),
                                 ("assign", "c"), ("include", "p", ["a"])], "p": [P_("a", "b", "c"), ("assign", "d")]}),
    ("render-keys", {"root": [("render", "p", ["a"]), ("render", "p", ["a"]), ("render", "p", ["b"]), ("render", "p", ["a", "b"]),
                              ("render", "p", ["b", "a"])], "p": [P_("a", "b"), ("assign", "a")]}),
    ("render-then-include", {"root": [("render", "p", ["a"]), ("include", "p", ["a"]), ("render", "q", [])],
                             "p": [P_("a"), ("include", "q", [])], "q": [P_("a"), ("assign", "a")]}),
    ("assign-leaks", {"root": [("include", "p", []), P_("b"), ("render", "p", []), P_("b")], "p": [("assign", "b"), P_("b")]}),
    ("block-and-for", {"root": [("for", "x", [("block", "c", [P_("x", "block", "forloop")]), ("assign", "y")]), P_("x", "y")]}),
]


def an_random(ck: Check, n):
    rng = family_rng(ck, "analyze-random")
    vars_ = ["a", "b", "c"]

    def body(depth, partials, snippets, top):
        out = []
        for _ in range(rng.randint(1, 4)):
            r = rng.random()
            if r < 0.3:
                out.append(P_(*rng.sample(vars_, rng.randint(0, 2))))
            elif r < 0.4:
                out.append(("assign", rng.choice(vars_)))
            elif r < 0.5 and depth > 0:
                out.append(("for", rng.choice(vars_), body(depth - 1, partials, snippets, False)))
            elif r < 0.55 and depth > 0:
                out.append(("block", rng.choice(["c", "d"]), body(depth - 1, partials, snippets, False)))
            elif r < 0.65 and depth > 0:
                name = rng.choice(["s", "t"])
                out.append(("snippet", name, body(depth - 1, partials, snippets, False)))
            elif r < 0.75:
                out.append(("rsnip", rng.choice(["s", "t"]), rng.sample(vars_, rng.randint(0, 2))))
            elif r < 0.87 and partials:
                out.append(("include", rng.choice(partials), rng.sample(vars_, rng.randint(0, 2))))
            elif partials:
                out.append(("render", rng.choice(partials), rng.sample(vars_, rng.randint(0, 2))))
        return out

    for k in range(n):
        order = ["q", "p", "base"]
        tpls = {}
        avail = []
        for name in order:
            tpls[name] = body(1, avail + (["nosuch"] if rng.random() < 0.05 else []), [], True)
            avail = avail + [name]
        root = body(2, ["p", "q"] + (["nosuch"] if rng.random() < 0.05 else []), [], True)
        if rng.random() < 0.3:
            root.insert(0, ("extends", "base"))
        yield ("random", k), {"root": root, **{n_: tpls[n_] for n_ in order}}


def run_analyze(ck: Check) -> None:
    cases, expected, meta = [], [], []
    reported = {}

    def one(label, tpls):
        srcs, terms, node_of = an_build(tpls)
        for ip in (True, False):
            for lk in ("dict", "caching"):
                ps = an_run(srcs, node_of, ip, False, instrumented=False, loader_kind=lk)
                pa = an_run(srcs, node_of, ip, True, instrumented=False, loader_kind=lk)
                if ps[1:] != pa[1:]:
                    sig = f"analyze2:{label[0]}:" + ("exception" if ps[2] != pa[2] else "result")
                    reported[sig] = reported.get(sig, 0) + 1
                    if reported[sig] <= 2:
                        ck.violation("impl-violation", sig,
                                     f"templates { {k: v.lstrip('x') for k, v in srcs.items()} !r}, include_partials={ip}, {lk} loader: analyze() gives {ps[1] if ps[2] is None else ps[2]!r}, "
                                     f"analyze_async() gives {pa[1] if pa[2] is None else pa[2]!r}",
                                     {"type": "analyze2", "templates": {k: v.lstrip("x") for k, v in srcs.items()}, "partials": ip, "loader": lk})
            s = an_run(srcs, node_of, ip, False)
            a = an_run(srcs, node_of, ip, True)
            ck.note_case(("analyze2", label, ip), nontrivial=len(s[0]) > 0 or not ip)
            ck.count(f"analyze2.{label[0]}." + ("partials" if ip else "no-partials") + "." + ("ok" if s[2] is None else s[2]))
            cases.append("{| ac_templates := %s; ac_root_name := %s; ac_root := %s; ac_partials := %s |}" % (
                g_list(f"({g_str(k)}, {v})" for k, v in terms.items() if k != "root"), g_str("root"), terms["root"], g_bool(ip)))
            expected.append(f"({g_aobs(s)}, {g_aobs(a)})")
            meta.append((label, srcs, ip, s, a))

    for name, tpls in AN_SPECIAL:
        one(("special", name), tpls)
    for fi, tpls in enumerate(STABILITY_FAMILIES):
        one(("special", f"snippet-in-reloaded-partial-{fi}"), tpls)
    for label, tpls in an_random(ck, 90 if ck.quick else 800):
        one(label, tpls)
    _analysis_is_a_function(ck)

    k = len(meta) // 2
    ck.sample({"templates": {n: v.lstrip("x") for n, v in meta[k][1].items()}, "include_partials": meta[k][2], "loads": meta[k][3][0],
               "error": meta[k][3][2]})
    mm = ck.coq_mismatches("analyze2", AN_IMPORTS, "run_analyze", "aobs2_eqb", "acase", "aobs * aobs", cases, expected, chunk=100)
    ck.traces += len(cases)
    shown = 0
    for i in mm:
        label, srcs, ip, s, a = meta[i]
        if shown >= 3:
            continue
        shown += 1
        model = ck.coq_eval(AN_IMPORTS, [f"run_analyze ({cases[i]})"])[0]
        ck.violation("correspondence", "c01-analyze2-correspondence",
                     f"model PairAnalyze.run_analyze and the implementation disagree on {label}, include_partials={ip}: "
                     f"{({n: v.lstrip('x') for n, v in srcs.items()})!r}; implementation sync {s}, async {a}",
                     {"type": "analyze2", "templates": {n: v.lstrip("x") for n, v in srcs.items()}, "impl": [s, a], "model": model[:2500],
                      "broken": "correspondence PairAnalyze.run_analyze ~ analyze / analyze_async (theorems C01_analyze_*)"},
                     no_input=True)


STABILITY_FAMILIES = [
    {"root": [("for", "i", [("render", "p", [])]), ("render", "p", ["a"]), ("render", "p", ["b"]), ("render", "p", ["c"]),
              ("render", "p", ["d"])],
     "p": [("snippet", "s", [P_()]), ("rsnip", "s", [])]},
    {"root": [("include", "p", []), ("assign", "a"), ("include", "p", []), ("assign", "b"), ("include", "p", []), ("render", "p", [])],
     "p": [("snippet", "s", [P_("a", "b")]), ("rsnip", "s", ["a"]), ("snippet", "t", [P_("c")]), ("rsnip", "t", [])]},
]


def stability_runs(srcs, n):
    """analyze() and analyze_async() alternately on one template family, with unrelated allocations in between: the
    result is a function of the templates, so all runs agree"""
    import random

    rnd = random.Random(0)
    seen = {}
    ident = lambda i: i  # noqa: E731
    for i in range(n):
        junk = [[] for _ in range(rnd.randint(0, 3000))]
        r = an_run(srcs, ident, True, i % 2 == 1, instrumented=False)
        seen.setdefault(repr(r[1:]), []).append("async" if i % 2 else "sync")
        del junk
    return seen


def _analysis_is_a_function(ck: Check) -> None:
    for fi, tpls in enumerate(STABILITY_FAMILIES):
        srcs, _, _ = an_build(tpls)
        seen = stability_runs(srcs, 30 if ck.quick else 200)
        ck.note_case(("analyze2-stability", fi))
        ck.count("analyze2.stability")
        if len(seen) > 1:
            ck.violation("impl-violation", "analyze2:snippet:unstable-result",
                         f"templates { {k: v.lstrip('x') for k, v in srcs.items()} !r}: {len(seen)} different results over repeated analyze() / "
                         f"analyze_async() of the same template: " + "; ".join(f"{len(v)} runs ({', '.join(sorted(set(v)))})" for v in seen.values()),
                         {"type": "analyze2-stability", "templates": {k: v.lstrip("x") for k, v in srcs.items()}})


def replay_stability(case) -> bool:
    seen = stability_runs(case["templates"], 200)
    for k, v in seen.items():
        print(len(v), "runs", sorted(set(v)), k[:300])
    return len(seen) > 1


def replay_analyze(case) -> bool:
    import liquid
    from liquid.extra import SnippetTag

    partials = {k: v for k, v in case["templates"].items() if k != "root"}
    env = liquid.Environment(extra=True, loader=(liquid.CachingDictLoader if case["loader"] == "caching" else liquid.DictLoader)(partials))
    env.add_tag(SnippetTag)
    t = env.from_string(case["templates"]["root"], name="root")
    ident = lambda i: i  # noqa: E731
    s = outcome(lambda: an_picture(t.analyze(include_partials=case["partials"]), ident))
    a = outcome(lambda: an_picture(run_async(t.analyze_async(include_partials=case["partials"])), ident))
    print("sync :", s)
    print("async:", a)
    return s != a
