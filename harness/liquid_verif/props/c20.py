"""C20 — Reported locations point at the reported item."""

from __future__ import annotations

from ..core import Check, classify_exc, run_async
from ..g import g_str
from . import lexgen as G

IMPORTS = "Lex"

PARTIALS = {
    "p": "{{ pv | downcase }}\n{% assign pl = pa.b %}",
    "q": "line\n\n  {% if qc %}{{ qd.e | append: qf }}{% endif %}",
}

_ENV = None


def env():
    global _ENV
    if _ENV is None:
        from liquid import DictLoader

        _ENV = G.make_env(G.DEFAULT, comments=True, loader=DictLoader(PARTIALS))
    return _ENV


# ------------------------------------------------------------------ generated templates
TEXTS = ["", "x", " ", "\n", "line one\n", "  \n\t", "\r\n", "ünï cödé\n", "a\rb", "tail"]
VARS = ["a", "b.c", "d.e.f", "g[0]", "h[i.j]", "k['l m']", "n_1"]
FILTERS = ["upcase", "append: s", "default: t.u, allow_false: v", "plus: 1", "join: ', '", "slice: w, 2"]


def ws(rng):
    return rng.choice(["", " ", " ", "  ", "\n", "\n  ", "\t"])


def expr(rng):
    e = rng.choice(VARS)
    for _ in range(rng.randrange(0, 3)):
        e += ws(rng) + "|" + ws(rng) + rng.choice(FILTERS)
    return e


def tag(rng, name_and_expr, lh=None, rh=None):
    l = "-" if (rng.random() < 0.3 if lh is None else lh) else ""
    r = "-" if (rng.random() < 0.3 if rh is None else rh) else ""
    return "{%" + l + ws(rng) + name_and_expr + ws(rng) + r + "%}"


def piece(rng, depth=0):
    r = rng.random()
    if r < 0.18:
        return rng.choice(TEXTS)
    if r < 0.36:
        l = "-" if rng.random() < 0.3 else ""
        rr = "-" if rng.random() < 0.3 else ""
        return "{{" + l + ws(rng) + expr(rng) + ws(rng) + rr + "}}"
    if r < 0.46:
        return tag(rng, "assign loc" + str(rng.randrange(3)) + " = " + expr(rng))
    if r < 0.54 and depth < 2:
        body = "".join(piece(rng, depth + 1) for _ in range(rng.randrange(1, 3)))
        alt = ""
        if rng.random() < 0.5:
            alt = tag(rng, "elsif " + rng.choice(VARS) + " == " + rng.choice(VARS)) + piece(rng, depth + 1)
        if rng.random() < 0.5:
            alt += tag(rng, "else") + piece(rng, depth + 1)
        return tag(rng, "if " + rng.choice(VARS) + " contains " + rng.choice(VARS)) + body + alt + tag(rng, "endif")
    if r < 0.62 and depth < 2:
        body = "{{ forloop.index }}" + piece(rng, depth + 1) + "{{ it.z }}"
        return tag(rng, "for it in " + rng.choice(["(1..n)", "coll.items", "arr"]) + " limit: lim") + body + tag(rng, "endfor")
    if r < 0.72:
        lines = []
        for _ in range(rng.randrange(0, 4)):
            k = rng.random()
            ind = rng.choice(["", " ", "  ", "\t"])
            # the gap between the inner tag's name and its expression is one or several blanks (seed C20-I: expression offset
            # computed as name end + 1)
            gap = rng.choice([" ", " ", "  ", "\t", " \t ", "   "])
            if k < 0.35:
                lines.append(ind + "assign" + gap + "lq" + str(rng.randrange(2)) + " = " + expr(rng).replace("\n", " "))
            elif k < 0.7:
                lines.append(ind + "echo" + gap + expr(rng).replace("\n", " "))
            elif k < 0.8:
                lines.append(ind + "# note " + rng.choice(VARS))
            elif k < 0.9:
                lines.append(ind + "increment" + gap + "cnt")
            else:
                lines.append("")
        # lines of a liquid tag end in LF or (one tag in three) CRLF: offsets of the inner tokens must count the carriage returns
        sep = rng.choice(["\n", "\n", "\r\n"])
        return tag(rng, "liquid" + (sep + sep.join(lines) if lines else ""))
    if r < 0.78:
        return tag(rng, rng.choice(["render 'p', pv: " + rng.choice(VARS), "include 'q'", "render 'q', qc: true, qd: x.y"]))
    if r < 0.83 and depth < 2:
        return tag(rng, "capture cap") + piece(rng, depth + 1) + tag(rng, "endcapture")
    if r < 0.87:
        return tag(rng, rng.choice(["increment n", "decrement m", "cycle 'a', cy.c"]))
    if r < 0.91 and depth < 2:
        return (tag(rng, "case " + rng.choice(VARS)) + tag(rng, "when 1, wv") + piece(rng, depth + 1)
                + tag(rng, "else") + piece(rng, depth + 1) + tag(rng, "endcase"))
    if r < 0.94:
        return tag(rng, "# inline " + rng.choice(VARS))
    if r < 0.96:
        return tag(rng, "comment") + " {{ hidden }} " + tag(rng, "endcomment")
    if r < 0.98:
        return tag(rng, "raw") + " {{ rawv }} {% x %}" + tag(rng, "endraw")
    return "{# short " + rng.choice(VARS) + " #}"


def gen_template(rng):
    return "".join(piece(rng) for _ in range(rng.randrange(1, 6)))


BREAKERS = ["{%", "{{", "%}", "}}", "{% endif %}", "{% else %}", "{% if %}", "{% for x %}", "{{ a ? b }}", "{{ 'open }}",
            "{% unknown_tag z %}", "{% assign = 1 %}", "{{ a | }}", "{{ a b }}", "{% liquid\n echo a |\n  %}", "{% liquid\n !bad %}",
            "{% assign x = a =! b %}", "{{ (1..) }}", "{% case %}", "{% when 1 %}", "{% endfor %}", "{% render %}",
            "{% include 'p' with %}", "{% cycle %}", "{{ a[ }}", "{{ a.'b' }}", "{% comment %}", "{% doc x %}", "{% # a\n b %}",
            "{% if a === b %}{% endif %}", "{{ a | f: }}", "{%- liquid\n\n  echo 'a' | upcase: &\n-%}", "{% if x %}", "{% for i in %}{% endfor %}"]


def gen_malformed(rng):
    src = gen_template(rng)
    k = rng.random()
    if k < 0.6:
        pos = rng.randrange(0, len(src) + 1)
        return src[:pos] + rng.choice(BREAKERS) + src[pos:]
    if k < 0.8 and src:
        pos = rng.randrange(0, len(src))
        return src[:pos] + src[pos + rng.randrange(1, 4):]
    return rng.choice(BREAKERS) + rng.choice(TEXTS) + rng.choice(BREAKERS)


# ------------------------------------------------------------------ oracles (implementation only)
def source_of(name, main_src):
    return main_src if name in ("main", "<string>") else PARTIALS.get(name)


def check_span(what, name, span, main_src):
    """Reported location indexes into the named template's source at the reported name."""
    src = source_of(span.template_name, main_src)
    if src is None:
        return f"{what} {name!r}: unknown template {span.template_name!r}"
    if not (0 <= span.index < len(src)) or not src[span.index:].startswith(name):
        return f"{what} {name!r} reported at {span.template_name}:{span.index} where the source has {src[span.index:span.index + 12]!r}"
    try:
        ln, col = span.line_col(src)
    except Exception as e:  # noqa: BLE001
        return f"{what} {name!r}: Span.line_col raises {type(e).__name__}"
    lines = src.splitlines(keepends=True)
    if not (1 <= ln <= len(lines)) or sum(len(x) for x in lines[:ln - 1]) + col != span.index or not (0 <= col < len(lines[ln - 1])):
        return f"{what} {name!r}: line/col {(ln, col)} does not contain index {span.index}"
    return None


def analysis_spans(src, use_async=False, the_env=None):
    """[(what, name, Span)] for everything static analysis and tag analysis report."""
    t = (the_env or env()).from_string(src, name="main")
    a = run_async(t.analyze_async()) if use_async else t.analyze()
    out = []
    for what, d in (("variable", a.variables), ("global", a.globals), ("local", a.locals)):
        for _root, vs in d.items():
            for v in vs:
                out.append((what, str(v.segments[0]), v.span))
    for fname, spans in a.filters.items():
        out.extend(("filter", fname, s) for s in spans)
    for tname, spans in a.tags.items():
        out.extend(("tag", tname, s) for s in spans)
    return out


def tag_analysis_spans(src):
    ta = env().analyze_tags_from_string(src, name="main")
    out = []
    for what in ("all_tags", "tags", "unclosed_tags", "unexpected_tags", "unknown_tags"):
        for tname, spans in getattr(ta, what).items():
            out.extend((what, tname, s) for s in spans)
    return out


def check_error(src, load=None):
    """Parse src; if it raises a Liquid error: position inside its own source, message can be formatted, line/col right.
    Returns (problem | None, error-info | None)."""
    from liquid.exceptions import LiquidError

    try:
        if load:
            env().get_template(load)
        else:
            env().from_string(src, name="main")
        return None, None
    except LiquidError as e:
        tok = e.token
        info = {"class": classify_exc(e)}
        try:
            msg = str(e)
            dm = e.detailed_message()
            ctx = e.context()
        except Exception as ex:  # noqa: BLE001
            pos = None if tok is None else tok.start_index
            return (f"formatting the {type(e).__name__} raises {type(ex).__name__} (token start {pos}, "
                    f"source length {len(tok.source) if tok is not None else None})"), info
        if tok is None or tok.start_index < 0:
            return None, info
        tsrc = tok.source
        info.update({"index": tok.start_index, "source": tsrc, "ctx": ctx[:2] if ctx else None})
        if not (0 <= tok.start_index < len(tsrc)):
            return f"error position {tok.start_index} outside its source (length {len(tsrc)})", info
        if tsrc != src and tsrc not in PARTIALS.values():
            return "error token's source is not the source of the template being parsed", info
        ln, col = ctx[0], ctx[1]
        lines = tsrc.splitlines(keepends=True)
        if not (1 <= ln <= len(lines)) or sum(len(x) for x in lines[:ln - 1]) + col != tok.start_index:
            return f"line/col {(ln, col)} does not contain index {tok.start_index}", info
        if not msg or not dm:
            return "empty message", info
        return None, info
    except Exception as e:  # noqa: BLE001
        return None, {"class": classify_exc(e)}   # non-Liquid errors are C02's business


# ------------------------------------------------------------------ expression tokens (liquid/builtin/expressions/_tokenize.py)
EXPR_PIECES = ["a", "b.c", "x-y", "q?", "true", "and", "or", "not", "in", "contains", "limit", "1", "23", "-4", "1.5", "-2.", "3..4",
               "..", ".", "(", ")", "(1..n)", "(a.b..c)", "((1..2))", "[", "]", "[0]", "[ -12 ]", "['k']", '[ "k l" ]', "['a'b']",
               "'s t'", '"u"', "'", '"', ":", ",", "|", "||", "==", "!=", "<>", "<=", ">=", "<", ">", "=", "=>", "!", " ", "\n",
               "\t", "-", "&", "%", "_", "7a", "a1", "a_b", "forloop.index", "x | f: y, k: 'v'"]
EKIND = {"rangeexpression": "ERangeLit", "identindex": "EIdentIndex", "identstring": "EIdentString", "string": "EString",
         "range": "ERange", "float": "EFloat", "integer": "EInteger", "dot": "EDot", "word": "EWord", "lparen": "ELparen",
         "rparen": "ERparen", "lbracket": "ELbracket", "rbracket": "ERbracket", "colon": "EColon", "comma": "EComma",
         "dpipe": "EDpipe", "pipe": "EPipe", "eq": "EEq", "ne": "ENe", "ltgt": "ELtGt", "lt": "ELt", "gt": "EGt", "le": "ELe",
         "ge": "EGe", "assign": "EAssign"}
KEYWORDS = {"true", "false", "nil", "null", "empty", "blank", "and", "or", "contains", "not", "in", "offset", "limit", "reversed",
            "cols", "continue", "with", "for", "as", "if", "else", "required"}


def gen_expression(rng):
    return "".join(rng.choice(EXPR_PIECES) if rng.random() < 0.7 else rng.choice("ab.()[]'\"-?01 |=<>!:,")
                   for _ in range(rng.randrange(0, 9)))


def real_expr_tokens(base, src):
    """(tokens, error-token | None): every token the expression tokenizer yields before it stops."""
    from liquid.builtin.expressions import tokenize
    from liquid.exceptions import LiquidSyntaxError
    from liquid.token import Token

    out = []
    try:
        for t in tokenize(src, Token("expression", src, base, "#" * base + src)):
            out.append((t.kind, t.value, t.start_index))
        return out, None
    except LiquidSyntaxError as e:
        return out, (e.token.kind, e.token.value, e.token.start_index)


def expr_token_problem(base, src, tok):
    """The documented reading of an expression token's location: its text is the expression text at its start; for a
    string the text after the opening quote; for a bracketed identifier the text after '[', whitespace (and the quote)."""
    kind, value, start = tok
    o = start - base
    if not (0 <= o < len(src)):
        return f"token {tok} starts outside the expression"
    if kind == "string":
        ok = src[o] in "'\"" and src[o + 1:o + 1 + len(value)] == value and src[o + 1 + len(value):o + 2 + len(value)] == src[o]
    elif kind in ("identindex", "identstring"):
        rest = src[o + 1:]
        k = len(rest) - len(rest.lstrip())
        inner = rest[k:]
        ok = src[o] == "[" and (inner.startswith(value) if kind == "identindex"
                                else inner[:1] in ("'", '"') and inner[1:1 + len(value)] == value)
    else:
        ok = src[o:o + len(value)] == value
    return None if ok else f"token {tok} is not the text of the expression at its start offset"


def g_eitems(toks, err):
    items = []
    for k, v, s in toks:
        kind = "EKeyword" if (k == v and k in KEYWORDS) else EKIND[k]
        items.append(f"ETok (Build_etoken {kind} {g_str(v)} {s}%N)")
    if err is not None:
        items.append(("EErrOp " if err[0] == "OP" else "EErrIllegal ") + f"{g_str(err[1])} {err[2]}%N")
    return "[" + "; ".join(items) + "]"


# ------------------------------------------------------------------ Gallina
def g_tagspans(spans):
    return "[" + "; ".join(f"({g_str(n)}, {i}%N)" for n, i in spans) + "]"


PREAMBLE = G.PREAMBLE + """
Definition spans_eqb (a : res (list (str * N))) (b : list (str * N)) : bool :=
  match a with
  | Ok x => list_eqb (fun p q => str_eqb (fst p) (fst q) && N.eqb (snd p) (snd q)) x b
  | _ => false
  end."""


SNIPPET_TEMPLATES = [
    # inline snippets (liquid.extra SnippetTag, registered by hand): what is reported inside a snippet body lives in the template
    # that DEFINES the snippet
    "{% snippet card %}\n  {{ item | upcase }}{% assign z = item %}\n{% endsnippet %}{% render card, item: a %}|{% render card, item: b.c %}",
    "x\n{% snippet row %}{% for i in xs %}{{ i | append: s }}{% endfor %}{{ n_1 }}{% endsnippet %}\n{% for r in rows %}{% render row, xs: r %}{% endfor %}",
    "{% snippet a %}{{ p }}{% endsnippet %}{% snippet b %}{{ q | upcase }}{% render a, p: q %}{% endsnippet %}{% render b, q: d.e.f %}{% render a, p: 1 %}",
]


def snippet_family(ck: Check, report) -> None:
    from liquid import DictLoader
    from liquid.extra.tags.snippet_tag import SnippetTag

    e2 = G.make_env(G.DEFAULT, comments=True, loader=DictLoader(PARTIALS))
    e2.add_tag(SnippetTag)
    for src in SNIPPET_TEMPLATES:
        for use_async in (False, True):
            try:
                spans = analysis_spans(src, use_async, e2)
            except Exception as e:  # noqa: BLE001
                ck.count("snippet-rejected:" + classify_exc(e))
                continue
            ck.note_case(("snippet", src, use_async), nontrivial=bool(spans))
            ck.count("snippet-spans", len(spans))
            for what, name, sp in spans:
                problem = check_span(what, name, sp, src)
                if problem:
                    report(f"c20-span:{what}", f"{src!r}: {problem}", {"type": "snippet-spans", "source": src, "what": what, "async": use_async})


def run(ck: Check) -> None:
    ck.rule = (
        "generated multi-line templates (output statements with nested paths and filter chains, assign/capture/if/elsif/else/for/"
        "case/cycle/increment/render/include with partials, liquid tags with indented assign/echo/#/increment lines, comments, raw, "
        "non-ASCII text, \\r\\n and \\r line ends, random whitespace and whitespace-control markers) and malformed variants of them "
        "(a breaker fragment inserted at a random position, characters deleted). Observed: every Span of template.analyze() "
        "(sync and async) and analyze_tags_from_string, Span.line_col; for sources that fail to parse the error's token, str(err), "
        "detailed_message(), context(). Model side: (tag name, index) of every tag incl. the inner tags of liquid tags, "
        "line/column of every reported index; plus generated expression texts (paths, brackets, strings, numbers, ranges, "
        "operators, keywords, stray characters) tokenized by liquid.builtin.expressions.tokenize with random parent offsets: "
        "(kind, value, start) of every token and of the error token. Non-trivial = at least one span, token or error position was checked."
    )
    ck.exhaustive = False
    ck.trusted_base = [
        "Coq 8.16.1 kernel + vm_compute",
        "harness: template/malformed-source generators, span and error oracles (props/c20.py), Gallina printers",
        "modelled not verified: Python re on the lexer rules and on the liquid-tag line rules, str.splitlines boundaries "
        "(Lex.line_lens), Python re on the expression rules (ExprLex.v), \\w and \\d on ASCII only",
        "expression tokens are read through liquid.builtin.expressions.tokenize (exported by that package, not part of the "
        "documented API): it is the only path that exposes every token",
    ]
    ck.assumptions = [
        "which token each AST node keeps as its location is observed (oracle), not proved",
        "tag delimiters and output delimiters are non-empty (hypothesis of C20_token_offsets)",
    ]
    ck.proof()
    rng = ck.rng
    n_ok = 400 if ck.quick else 5000
    n_bad = 500 if ck.quick else 6000

    span_cases, span_expected, span_meta = [], [], []
    lc_cases, lc_expected, lc_meta = [], [], []
    reported: set = set()

    def report(sig, what, data):
        if sig not in reported and len(reported) < 12:
            reported.add(sig)
            ck.violation("impl-violation", sig, what, data)

    snippet_family(ck, report)

    def add_lc(src, index, got):
        if len(lc_cases) < (3000 if ck.quick else 30000) and len(src) <= 160:
            lc_cases.append(f"{{| lcc_src := {g_str(src)}; lcc_index := {index}%N |}}")
            lc_expected.append(f"Some ({got[0]}%N, {got[1]}%N)" if got is not None else "None")
            lc_meta.append((src, index, got))

    for _ in range(n_ok):
        src = gen_template(rng)
        ck.count("well-formed")
        try:
            spans = analysis_spans(src)
            aspans = analysis_spans(src, use_async=True)
        except Exception as e:  # noqa: BLE001
            ck.count("well-formed-but-rejected:" + classify_exc(e))
            ck.note_case(src, nontrivial=False)
            continue
        tspans = tag_analysis_spans(src)
        ck.note_case(src, nontrivial=bool(spans or tspans))
        ck.count("spans", len(spans) + len(tspans))
        key = lambda x: (x[0], x[1], x[2].template_name, x[2].index)  # noqa: E731
        if sorted(map(key, spans)) != sorted(map(key, aspans)):
            report("c20-analyze-sync-async", f"{src!r}: analyze() and analyze_async() report different locations",
                   {"type": "spans", "source": src})
        for what, name, sp in spans + tspans:
            problem = check_span(what, name, sp, src)
            if problem:
                report(f"c20-span:{what}", f"{src!r}: {problem}", {"type": "spans", "source": src, "what": what})
        # model: (tag, index) of every tag in the main template, incl. liquid-tag inner tags
        main_tags = sorted((sp.index, name) for what, name, sp in spans if what == "tag" and sp.template_name == "main")
        if len(src) <= 160:
            span_cases.append(G.g_lexcase(G.DEFAULT, src))
            span_expected.append(g_tagspans([(n, i) for i, n in main_tags]))
            span_meta.append((src, main_tags))
        for what, name, sp in (spans + tspans)[:6]:
            s2 = source_of(sp.template_name, src)
            if s2 is not None and 0 <= sp.index < len(s2):
                add_lc(s2, sp.index, sp.line_col(s2))

    for name in PARTIALS:
        problem, _ = check_error("", load=name)
        if problem:
            report("c20-partial-error", problem, {"type": "error", "source": PARTIALS[name]})

    for _ in range(n_bad):
        src = gen_malformed(rng)
        problem, info = check_error(src)
        ck.count("malformed." + (info["class"] if info else "parses"))
        ck.note_case(src, nontrivial=info is not None)
        if problem:
            cls = problem.split(" (")[0].split(" outside")[0][:80]
            report("c20-error:" + cls, f"{src!r}: {problem}", {"type": "error", "source": src, "problem": problem})
        if info and info.get("ctx") and 0 <= info["index"]:
            add_lc(info["source"], info["index"], info["ctx"])
        if info is not None and rng.random() < 0.2:
            add_lc(src, len(src) + rng.randrange(0, 3), None)   # out of range: the model says ValueError too
    ck.sample({"source": span_meta[len(span_meta) // 2][0], "tags": span_meta[len(span_meta) // 2][1]})
    ck.sample({"source": lc_meta[-1][0], "index": lc_meta[-1][1], "line_col": lc_meta[-1][2]})

    # ---------------- expression tokens: every (kind, value, start) of the expression tokenizer vs the model
    ecases, eexpected, emeta = [], [], []
    for _ in range(1500 if ck.quick else 20000):
        esrc = gen_expression(rng)
        base = rng.randrange(0, 40)
        toks, err = real_expr_tokens(base, esrc)
        ck.count("expressions")
        ck.count("expression-tokens", len(toks))
        if err is not None:
            ck.count("expression-errors." + err[0])
        ck.note_case(("expr", esrc), nontrivial=bool(toks) or err is not None)
        for tk in toks + ([err] if err else []):
            pb = expr_token_problem(base, esrc, tk) if tk is not err else (
                None if 0 <= tk[2] - base < len(esrc) and esrc[tk[2] - base:tk[2] - base + len(tk[1])] == tk[1]
                else f"error token {tk} is not inside the expression at its own text")
            if pb:
                report("c20-expr-token:" + tk[0], f"expression {esrc!r} (parent start {base}): {pb}",
                       {"type": "expr", "source": esrc, "base": base})
        ecases.append(f"{{| ec_base := {base}%N; ec_src := {g_str(esrc)} |}}")
        eexpected.append(g_eitems(toks, err))
        emeta.append((base, esrc, toks, err))
    ck.sample({"expression": emeta[len(emeta) // 2][1], "tokens": emeta[len(emeta) // 2][2], "error": emeta[len(emeta) // 2][3]})
    mm = ck.coq_mismatches("exprtok", "Lex ExprLex", "run_etokens", "eitems_eqb", "ecase", "list eitem",
                           ecases, eexpected, chunk=400)
    ck.traces += len(ecases)
    for i in mm[:3]:
        base, esrc, toks, err = emeta[i]
        model = ck.coq_eval("Lex ExprLex", [f"run_etokens {{| ec_base := {base}%N; ec_src := {g_str(esrc)} |}}"])[0]
        ck.violation("correspondence", "c20-expr-token-correspondence",
                     f"model ExprLex.etokenize and liquid.builtin.expressions.tokenize disagree on {esrc!r}",
                     {"type": "expr-model", "source": esrc, "base": base, "impl": [toks, err], "model": model[:1500],
                      "broken": "correspondence ExprLex.etokenize ~ _tokenize.tokenize (theorems C20_expr_token_offsets, "
                                "C20_expr_tokens_in_source)"}, no_input=True)

    mm = ck.coq_mismatches("tagspans", IMPORTS, "run_tag_spans", "spans_eqb", "lexcase", "list (str * N)",
                           span_cases, span_expected, chunk=250, preamble=PREAMBLE)
    ck.traces += len(span_cases)
    for i in mm[:3]:
        src, tags = span_meta[i]
        model = ck.coq_eval(IMPORTS, [f"run_tag_spans ({G.g_lexcase(G.DEFAULT, src)})"])[0]
        ck.violation("correspondence", "c20-tag-span-correspondence",
                     f"model Lex.run_tag_spans and template.analyze().tags disagree on {src!r}",
                     {"type": "spans", "source": src, "impl": tags, "model": model[:1500],
                      "broken": "correspondence Lex.tokenize / liquid_tokens offsets ~ analyze().tags (theorems C20_token_offsets, "
                                "C20_liquid_inner_offsets)"}, no_input=True)
    # out-of-range probes: the implementation's answer is the ValueError
    from liquid.span import Span

    for j, (src, index, got) in enumerate(lc_meta):
        if got is None:
            try:
                Span("main", index).line_col(src)
                lc_expected[j] = "Some (0%N, 0%N)"
            except ValueError:
                pass
    mm = ck.coq_mismatches("linecol", IMPORTS, "run_line_col", "lc_eqb", "lccase", "option (N * N)",
                           lc_cases, lc_expected, chunk=300)
    ck.traces += len(lc_cases)
    for i in mm[:3]:
        src, index, got = lc_meta[i]
        model = ck.coq_eval(IMPORTS, [f"run_line_col {{| lcc_src := {g_str(src)}; lcc_index := {index}%N |}}"])[0]
        ck.violation("correspondence", "c20-line-col-correspondence",
                     f"model Lex.line_col and the implementation disagree on index {index} of {src!r}: impl {got}, model {model}",
                     {"type": "linecol", "source": src, "index": index, "impl": got, "model": model,
                      "broken": "correspondence Lex.line_col ~ Span.line_col / LiquidError.context (theorem C20_line_col_total)"},
                     no_input=True)


def replay(data) -> int:
    if data["case"].get("type") == "snippet-spans":
        found = []
        saved = SNIPPET_TEMPLATES[:]
        SNIPPET_TEMPLATES[:] = [data["case"]["source"]]

        class _Ck:
            def note_case(self, *a, **k):
                pass

            def count(self, *a, **k):
                pass
        snippet_family(_Ck(), lambda sig, what, d: found.append(what))
        SNIPPET_TEMPLATES[:] = saved
        for w in found:
            print(w)
        print(("VIOLATION reproduced" if found else "not reproduced") + f" property={data['property']}")
        return 1 if found else 0
    case = data["case"]
    src = case.get("source")
    if case.get("type") == "error":
        problem, info = check_error(src)
        print("source:", repr(src))
        print("error:", info and info.get("class"), "problem:", problem)
        bad = problem is not None
    elif case.get("type") == "expr":
        toks, err = real_expr_tokens(case["base"], src)
        problems = [p for p in (expr_token_problem(case["base"], src, t) for t in toks) if p]
        print("expression:", repr(src), "tokens:", toks, "error:", err)
        print("problems:", problems)
        bad = bool(problems)
    elif case.get("type") == "spans":
        problems = []
        try:
            for what, name, sp in analysis_spans(src) + tag_analysis_spans(src):
                p = check_span(what, name, sp, src)
                if p:
                    problems.append(p)
        except Exception as e:  # noqa: BLE001
            problems.append("analysis raises " + type(e).__name__)
        print("source:", repr(src))
        print("problems:", problems[:5])
        bad = bool(problems)
    else:
        print("replay names a proof/correspondence obligation:", {k: case[k] for k in case if k != "model"})
        return 1
    print(("VIOLATION reproduced" if bad else "not reproduced") + f" property={data['property']}")
    return 1 if bad else 0
