"""C07 — Output and local-namespace limits bound what they measure."""

from __future__ import annotations

from ..core import Check
from . import _limits as L

BIG = 10**9

T = lambda s: ("text", s)  # noqa: E731

SYSTEMATIC = [
    [T("é€\U0001f600x")],
    [T("ab"), ("capture", 0, [T("€€")]), ("echo", 0), T("|")],
    [T("aaaaaaaaaa"), ("capture", 0, [T("bb"), ("capture", 1, [T("cccccccccccc")])]), T("z")],
    [T("ab"), ("for", 3, [("capture", 0, [T("aaaaa")])]), T("|")],
    [T("ab"), ("for", 3, [T("-"), ("capture", 0, [T("aaaaa")])]), ("echo", 0)],
    [("for", 3, [("ifchanged", [T("é")])]), ("for", 2, [("ifchanged", [T("a")]), ("ifchanged", [T("b")])])],
    [("tablerow", 2, [("capture", 0, [T("\U0001f600")]), ("echo", 0)])],
    [("assign", 0, "abc"), ("assign", 1, "éé"), ("assign", 0, ""), ("assign", 2, "中中中")],
    [("assign", 0, "abc"), ("render", [("assign", 0, "defg"), ("render", [("assign", 1, "x")]), ("assign", 1, "yy")]), ("assign", 1, "z")],
    [("assign", 0, "abc"), ("renderfor", 3, [("capture", 1, [("echo", 1), T("x")]), ("echo", 1)])],
    [("assign", 0, "abc"), ("call", [("assign", 0, "defg"), ("echo", 0)]), ("echo", 0)],
    [("assign", 0, "abc"), ("include", [("assign", 1, "defg"), ("echo", 0)]), ("echo", 1)],
    [("assign", 0, "ab"), ("includearr", 2, [("capture", 0, [("echo", 0), T("ß")])]), ("echo", 0)],
    [("capture", 0, [("for", 2, [("assign", 1, "q")])]), ("echo", 0), ("echo", 1)],
    [("for", 2, [("tablerow", 2, [("render", [T("€")])])])],
    [("ifchanged", [("capture", 0, [T("abc")])]), ("ifchanged", [("echo", 0)]), ("ifchanged", [("echo", 0)])],
    [T("a\r\nb"), ("capture", 0, [T("c\rd")]), ("echo", 0), ("ifchanged", [T("e\r\nf")])],
    [("renderfor", 2, [("echo", 0), ("assign", 0, "q"), ("ifchanged", [T("r")])]), ("echo", 0)],
]


S = ("super",)
# (number of templates in the chain, nest of the chain's base template)
INHERIT = [
    (1, [T("a"), ("blockd", [T("é"), S, ("assign", 0, "abc")]), ("echo", 0)]),
    (2, [T("a"), ("block", [[T("b")]]), ("block", [[T("c"), S, S], [T("€")]])]),
    (2, [("block", [[("assign", 0, "aaaaaaaa"), T("["), S, T("]"), ("assign", 1, "cccc"), ("echo", 2), ("echo", 0)],
                    [("assign", 2, "pppppp"), T("P"), ("echo", 0)]])]),
    (3, [("assign", 0, "zz"), ("for", 2, [("block", [[("capture", 1, [S, T("t")]), ("echo", 1), S],
                                                      [("for", 2, [S, ("assign", 2, "m")]), ("echo", 0)],
                                                      [T("b"), ("assign", 0, "q"), S]])]), ("echo", 0), ("echo", 2)]),
    (2, [T("xx"), ("block", [[T("a"), ("capture", 0, [T("é"), S, S]), ("echo", 0), ("ifchanged", [S]), ("ifchanged", [S])],
                             [T("€€"), ("ifchanged", [T("q")]), ("ifchanged", [T("q")])]])]),
    (3, [("tablerow", 2, [("block", [[("include", [S, ("assign", 0, "i")]), ("render", [S, T("r")]), ("echo", 0)],
                                      [("assign", 1, "mid"), ("block", [[T("n"), S, ("echo", 1)], [T("N"), ("assign", 1, "w")]]), ("echo", 1)],
                                      [T("base")]])])]),
    (2, [("assign", 0, "g"), ("block", [[("for", 2, [("capture", 1, [S])]), ("echo", 1), ("echo", 0)], [("echo", 0), ("assign", 0, "hh"), T("-")]]),
         ("echo", 0), ("render", [("blockd", [T("d"), S])]), ("call", [("blockd", [T("never")])])]),
    (3, [("block", [[T("a"), S, ("assign", 0, "x")], [T("b"), S, ("assign", 1, "yy")], [T("c"), S, ("assign", 2, "zzz")]]),
         ("block", [[("assign", 0, "1"), S, ("assign", 0, "22"), S], [("assign", 1, "333"), ("echo", 0)]])]),
]


def gen_nests(ck: Check):
    """(label, number of templates in the chain, nest of the chain's base template)."""
    for n in SYSTEMATIC:
        yield "systematic", 1, L.normalize(n)
    for levels, n in INHERIT:
        yield "inherit", levels, L.normalize(n)
    rng = ck.rng
    for _ in range(110 if ck.quick else 1400):
        yield "random", 1, L.gen_tree(rng, maxdepth=3, lengths=(0, 1, 2, 3), width=3)
    for i in range(90 if ck.quick else 1200):
        levels = (1, 2, 2, 3, 3)[i % 5]
        yield f"chain{levels}", levels, L.gen_tree(rng, maxdepth=3, lengths=(0, 1, 2, 3), width=3,
                                                    level=(levels - 1 if levels > 1 else None), blocks=2.0)


def judge_out(limit, S, s, a):
    if s != a:
        return "c07-sync-async-differ", f"sync {s[:2]} but async {a[:2]}"
    if s[0] == "out" and L.utf8(s[1]) > limit:
        return "c07-output-exceeds-limit", f"completed with {L.utf8(s[1])} UTF-8 bytes under output_stream_limit {limit}"
    if S > limit and s != ("err", "XOutput"):
        return "c07-no-output-limit-error", f"unlimited output has {S} bytes > limit {limit} but the render gave {s[:2]}"
    return None


def judge_ns(limit, s, a, true_log, ns_log):
    if s != a:
        return "c07-sync-async-differ", f"sync {s[:2]} but async {a[:2]}"
    if s[0] == "out":
        if any(t > limit for t in true_log):
            sig = "c07-namespace-limit-zero-ignored" if limit == 0 else "c07-namespace-exceeds-limit"
            return sig, f"completed although the local namespaces held {max(true_log)} measured bytes under local_namespace_limit {limit}"
        if true_log != ns_log:
            return "c07-carry-differs-from-measured", f"namespace sizes computed by the engine {ns_log} differ from the measured ones {true_log}"
    return None


def lax_output(printed, limit, mode, use_async):
    """Render under an output limit in LAX / WARN mode -> ('out', text) | ('err', class)."""
    import warnings

    from liquid import Mode

    from ..core import run_async

    src, parts, data = printed
    env = L.make_env(L.Limits(out=limit), parts)
    env.mode = getattr(Mode, mode)
    with warnings.catch_warnings():
        warnings.simplefilter("ignore")
        try:
            t = env.from_string(src)
            return ("out", run_async(t.render_async(**data)) if use_async else t.render(**data))
        except Exception as e:  # noqa: BLE001
            return ("err", L.classify(e))


def run(ck: Check) -> None:
    ck.rule = (
        "18 systematic nests + seeded random trees (depth <= 3, up to 3 children) over text with 1-4 byte characters, {{ var }}, assign, "
        "capture, ifchanged, for, tablerow, include, include-with-array, render, render-for and macro calls; plus 8 systematic and seeded random "
        "CHAINS of 1..3 templates (extends; block tags with up to 3 definitions anywhere in the base template and inside other definitions, "
        "{{ block.super }} anywhere in a definition - inside loops, captures, ifchanged, partials, macros -, block tags without a stack), "
        "printed from the model's nests; for each, the unlimited "
        "output size S is measured and output_stream_limit swept over 0..2S (every value when 2S <= 40, else 25 values incl. S-1, S, S+1), "
        "and local_namespace_limit swept over 0, every observed namespace size t (t-1, t), and 2*max; sync and async; "
        "output limits 0, S/2, S-1, S and three namespace limits also in WARN and LAX mode (errors dropped per top-level node), the latter "
        "again with 300-character render arguments named like the template's variables (oracle and model). "
        "Non-trivial = the render writes or assigns something; distinct = distinct (nest, limits)."
    )
    ck.exhaustive = False
    ck.trusted_base = [
        "Coq 8.16.1 kernel + vm_compute",
        "harness: tree generator, Liquid/partials printer, Gallina printer, UTF-8 length and namespace walks of the oracle (props/_limits.py, props/c07.py)",
        "oracle (not modelled): sys.getsizeof - the measured size of every assigned value is recorded by a RenderContext subclass "
        "(Environment.template_class / BoundTemplate.context_class hooks) and handed to the model as a stream; the namespaces alive at an "
        "assignment are those of the render contexts the frames of the Python call stack refer to (sys._getframe)",
        "modelled not verified: str.encode('utf-8') length (1/2/3/4-byte rule), StringIO, dict update order",
    ]
    ck.assumptions = [
        "values are strings; texts contain no whitespace-only literal; no break/continue; cycle and increment are outside the model; "
        "block names are distinct, no required blocks, extends is the first tag of a template",
        "sys.getsizeof(value) does not change between the assignment and later namespace checks",
    ]
    ck.proof()

    sw = L.Sweeps()
    nolim = L.Limits()

    def add(nest, lim, printed, s, sizes, v, extra):
        if v is not None:
            ck.violation("impl-violation", v[0], f"{printed[0]!r} partials {printed[1]!r} limits {lim.as_dict()}: {v[1]}",
                         dict({"main": nest, "levels": levels, "limits": lim.as_dict(), "template": printed[0], "partials": printed[1], "sync": s}, **extra))
        if s[0] == "err" and s[1].startswith("other:"):
            ck.violation("impl-violation", "c07-foreign-error:" + s[1], f"{printed[0]!r}: {s[1]}",
                         {"main": nest, "levels": levels, "limits": lim.as_dict(), "template": printed[0], "partials": printed[1], "sync": s})
            return
        sw.add(lim, sizes, s, explained=v is not None)

    GLOB = {f"v{i}": "G" * 300 for i in range(4)}
    for label, levels, nest in gen_nests(ck):
        printed = L.to_source(nest, levels)
        base, bsizes = L.run_impl(nest, nolim, False, printed)
        ck.count(f"{label}.{'unlimited-fails' if base[0] == 'err' else 'unlimited-ok'}")
        for k in L.kinds_in(nest):
            ck.count("construct." + k)
        sw.group(nest, printed)
        add(nest, nolim, printed, base, bsizes, None, {})
        if base[0] != "out":
            continue
        S = L.utf8(base[1])
        hi = 2 * S
        vals = set(L.sweep_values(hi, 40 if hi <= 40 else 25, ck.rng)) | {v for v in (S - 1, S, S + 1) if v >= 0}
        for limit in sorted(vals):
            lim = L.Limits(out=limit)
            s, sizes = L.run_impl(nest, lim, False, printed)
            a, _ = L.run_impl(nest, lim, True, printed)
            ck.note_case((nest, lim.key()), nontrivial=S > 0)
            ck.count("out." + ("raised" if s[0] == "err" else "completed"))
            add(nest, lim, printed, s, sizes, judge_out(limit, S, s, a), {"async": a, "unlimited_bytes": S, "kind": "out"})
        # the bound is about EVERY completed render: in warn and lax mode the limit error is dropped per top-level node, the
        # render completes, and what it returns must still be within the limit (oracle AND model: Limits.run_prog in that mode)
        for limit in sorted({0, S // 2, S - 1, S} - {-1}):
            for mode in ("lax", "warn"):
                lim = L.Limits(out=limit, mode=mode)
                s, sizes = L.run_impl(nest, lim, False, printed)
                a, _ = L.run_impl(nest, lim, True, printed)
                ck.note_case((nest, lim.key()), nontrivial=S > limit)
                ck.count(f"out.{mode}." + ("completed" if s[0] == "out" else "raised"))
                v = None
                if s != a:
                    v = (f"c07-{mode}-sync-async-differ", f"sync {s[:2]} but async {a[:2]}")
                for o, use_async in ((s, False), (a, True)):
                    if o[0] == "out" and L.utf8(o[1]) > limit:
                        v = (f"c07-{mode}-output-exceeds-limit", f"in {mode.upper()} mode ({'async' if use_async else 'sync'}) completed with "
                             f"{L.utf8(o[1])} bytes under output_stream_limit {limit}")
                        ck.violation("impl-violation", v[0], f"{printed[0]!r} partials {printed[1]!r}: {v[1]}",
                                     {"kind": "lax-out", "template": printed[0], "partials": printed[1], "data": printed[2], "limit": limit,
                                      "mode": mode.upper(), "async": use_async, "bytes": L.utf8(o[1])})
                        break
                else:
                    if v is not None:
                        add(nest, lim, printed, s, sizes, v, {"async": a, "kind": "out"})
                        continue
                if s[0] == "err" and s[1].startswith("other:"):
                    continue
                sw.add(lim, sizes, s, explained=v is not None)
        big, _, btrue = L.run_impl(nest, L.Limits(ns=BIG), False, printed, want_true=True)
        if big[0] != "out" or not btrue:
            continue
        nsvals = {0, 1, 2 * max(btrue)}
        for t in btrue:
            nsvals.update((t - 1, t))
        nsvals = sorted(v for v in nsvals if v >= 0)
        if len(nsvals) > 14:
            nsvals = sorted(set(ck.rng.sample(nsvals, 12)) | {0, nsvals[-1]})
        for limit in nsvals:
            lim = L.Limits(ns=limit)
            s, sizes, true_log = L.run_impl(nest, lim, False, printed, want_true=True)
            a, _ = L.run_impl(nest, lim, True, printed)
            ck.note_case((nest, lim.key()), nontrivial=True)
            ck.count("ns." + ("raised" if s[0] == "err" else "completed"))
            ns_log = s[2] if s[0] == "out" else []
            add(nest, lim, printed, s, sizes, judge_ns(limit, s, a, true_log, ns_log),
                {"async": a, "measured": true_log, "kind": "ns"})
        # warn / lax: a refused assignment is dropped with its error; the namespaces must still never hold more than the limit
        for limit in sorted({nsvals[0], nsvals[len(nsvals) // 2], nsvals[-2] if len(nsvals) > 1 else nsvals[0]}):
            for mode in ("lax", "warn"):
                lim = L.Limits(ns=limit, mode=mode)
                s, sizes, true_log = L.run_impl(nest, lim, False, printed, want_true=True)
                a, _, atrue = L.run_impl(nest, lim, True, printed, want_true=True)
                ck.note_case((nest, lim.key()), nontrivial=True)
                ck.count(f"ns.{mode}." + ("completed" if s[0] == "out" else "raised"))
                v = None
                if s != a:
                    v = (f"c07-{mode}-sync-async-differ", f"sync {s[:2]} but async {a[:2]}")
                elif s[0] == "out" and any(t > limit for t in true_log + atrue):
                    v = (f"c07-{mode}-namespace-exceeds-limit",
                         f"completed in {mode.upper()} mode although the local namespaces held {max(true_log + atrue)} measured bytes "
                         f"under local_namespace_limit {limit} (sizes after each assignment, refused ones included: {true_log})")
                add(nest, lim, printed, s, sizes, v, {"async": a, "measured": true_log, "kind": "ns-tolerant"})
                # the same, with render-time GLOBALS named like the template's variables (a refused assignment must leave no copy of
                # the shadowed global behind in the local namespace); oracle and model (Limits.run_prog ... glob)
                gs, gsizes, gtrue = L.run_impl(nest, lim, False, printed, want_true=True, glob=GLOB)
                ga, _, gatrue = L.run_impl(nest, lim, True, printed, want_true=True, glob=GLOB)
                ck.note_case((nest, lim.key(), "shadowed-globals"), nontrivial=True)
                ck.count(f"ns.{mode}.shadowed-globals." + ("completed" if gs[0] == "out" else "raised"))
                gv = None
                if gs != ga:
                    gv = (f"c07-{mode}-shadowed-sync-async-differ", f"sync {gs[:2]} but async {ga[:2]}")
                elif gs[0] == "out" and any(t > limit for t in gtrue + gatrue):
                    gv = (f"c07-{mode}-namespace-exceeds-limit-shadowed-global",
                          f"with 300-character globals v0..v3, completed in {mode.upper()} mode although the local namespaces held "
                          f"{max(gtrue + gatrue)} measured bytes under local_namespace_limit {limit} (after each assignment: {gtrue})")
                if gv is not None and sum(1 for x in ck.violations if x.signature == gv[0]) < 3:
                    ck.violation("impl-violation", gv[0], f"{printed[0]!r} partials {printed[1]!r} limits {lim.as_dict()}: {gv[1]}",
                                 {"main": nest, "levels": levels, "limits": lim.as_dict(), "template": printed[0], "partials": printed[1], "sync": gs,
                                  "async": ga, "measured": gtrue, "kind": "ns-tolerant", "shadow_globals": True})
                if not (gs[0] == "err" and gs[1].startswith("other:")):
                    sw.add(lim, gsizes, gs, explained=gv is not None, glob=GLOB)
    g = sw.groups[len(sw.groups) // 2]
    r = g[2][len(g[2]) // 2]
    ck.sample({"template": g[1][0], "partials": g[1][1], "limits": r[0].as_dict(), "observed": r[2][:2], "measured_sizes": r[1]})
    for nest, printed, lim, sizes, s, glob in sw.mismatches(ck, "c07", chunk=12)[:3]:
        model = ck.coq_eval(L.IMPORTS, [f"run_case ({L.g_case(lim, L.expand(nest), sizes, printed[3], glob)})"])[0]
        ck.violation("correspondence", "c07-correspondence",
                     f"model Limits.run_case and the implementation disagree on {printed[0]!r} partials {printed[1]!r} limits {lim.as_dict()}"
                     + (" with globals v0..v3" if glob else ""),
                     {"main": nest, "limits": lim.as_dict(), "template": printed[0], "partials": printed[1], "impl": s, "sizes": sizes,
                      "model": model[:400],
                      "broken": "correspondence Limits.run_case ~ render under output_stream_limit / local_namespace_limit "
                                "(theorems C07_output_bound, C07_output_raises, C07_namespace_bound)"},
                     no_input=True)


def replay(data) -> int:
    case = data["case"]
    if case.get("kind") == "lax-out":
        o = lax_output((case["template"], case["partials"], case.get("data", {})), case["limit"], case["mode"], case["async"])
        bad = o[0] == "out" and L.utf8(o[1]) > case["limit"]
        print("template:", case["template"], "partials:", case["partials"], "mode:", case["mode"], "limit:", case["limit"], "->", o)
        print(("VIOLATION reproduced" if bad else "not reproduced") + f" property={data['property']}")
        return 1 if bad else 0
    if "main" not in case or data.get("kind") != "impl-violation":
        print("replay names a proof/correspondence obligation:", {k: case[k] for k in case if k != "main"})
        return 1
    nest = case["main"]
    lim = L.Limits.from_dict(case["limits"])
    printed = L.to_source(nest, case.get("levels", 1))
    glob = None
    if case.get("shadow_globals"):
        glob = {f"v{i}": "G" * 300 for i in range(4)}
        print("render data: 300-character globals v0..v3")
    base, _ = L.run_impl(nest, L.Limits(), False, printed, glob=glob)
    s, _, true_log = L.run_impl(nest, lim, False, printed, want_true=True, glob=glob)
    a, _ = L.run_impl(nest, lim, True, printed, glob=glob)
    print("template:", printed[0], "partials:", printed[1], "limits:", lim.as_dict())
    print("sync :", s)
    print("async:", a)
    if case.get("kind") == "ns-tolerant":
        print("measured namespace sizes after each assignment (refused ones included):", true_log)
        bad = s[0] == "out" and any(t > lim.ns for t in true_log)
        print(("VIOLATION reproduced" if bad or s != a else "not reproduced") + f" property={data['property']}")
        return 1 if bad or s != a else 0
    if case.get("kind") == "ns":
        print("measured namespace sizes after each assignment:", true_log)
        v = judge_ns(lim.ns, s, a, true_log, s[2] if s[0] == "out" else [])
    else:
        S = L.utf8(base[1]) if base[0] == "out" else -1
        print("unlimited output bytes:", S)
        v = judge_out(lim.out, S, s, a)
    print(("VIOLATION reproduced: " + v[1] if v else "not reproduced") + f" property={data['property']}")
    return 1 if v else 0
