"""C01 — Synchronous and asynchronous APIs behave identically.

Targeted generators for the hand-written pairs the property names (each tied to its model in PairSync.v):
  paths     bracketed / nested / literal roots and segments over data with non-string values
  elsif     if / elsif / else with a condition that counts its evaluations (script of truth values)
  loaders   template names with and without directories under dict, choice, file-system and caching loaders;
            `include ... with` default variable name
and a broad oracle: a pool of templates covering every registered tag, rendered under every environment feature
flag with several data sets, synchronously and asynchronously; get_template vs get_template_async; analyze vs
analyze_async.  Oracle everywhere: same text or same exception class, same names, same analysis.
Three more families live in props/_pairs2.py: template inheritance (PairInherit.v), name -> bound template (PairLoad.v) and
the two static-analysis walks (PairAnalyze.v); each compares the two APIs on ordinary inputs and each API with its own
model copy on instrumented inputs that show which API a loader or data object was reached through.
"""

from __future__ import annotations

import itertools
import os
import shutil
import tempfile

from ..core import Check, classify_exc, run_async
from ..g import g_N, g_Z, g_bool, g_list, g_nat, g_opt, g_str
from . import _pairs2
from . import c17 as P

IMPORTS = "PyPrims PairSync"


def outcome(f):
    try:
        return ("out", f())
    except Exception as e:  # noqa: BLE001
        return ("err", classify_exc(e))


def both(t, data):
    """Render one parsed template through both APIs."""
    s = outcome(lambda: t.render(**data))
    a = outcome(lambda: run_async(t.render_async(**data)))
    return s, a


# ------------------------------------------------------------------------------------------------------ paths
# values: ("int", n) ("str", s) ("nil",) ("list", [...]) ("dict", [(k, v)...]) ("float", x)
PATH_DATA = [
    ("x1", {"x": 1}),
    ("xa", {"x": "a"}),
    ("xk", {"x": "k"}),
    ("xnil", {"x": None}),
    ("xlist", {"x": [1]}),
    ("xfloat", {"x": 1.5}),
    ("xneg", {"x": -1}),
    ("xunset", {}),
]
COMMON = {"a": {"b": "v", "k": 7, "a": "inner", "1": "one"}, "l": [10, 20, 30], "s": "a", "n": 5,
          "d": {"a": {"k": "deep"}, "l": [1, 2]}}

# path syntax trees: ("name", s) | ("idx", n) | ("nested", [segments]) ; first element is the root
ROOTS = [
    [("name", "a")], [("name", "l")], [("name", "x")], [("name", "d")], [("name", "nosuch")],
    [("nested", [("name", "x")])], [("nested", [("name", "s")])], [("nested", [("name", "nosuch")])],
    [("nested", [("name", "n")])], [("nested", [("name", "l"), ("idx", 0)])], [("nested", [("name", "a"), ("name", "a")])],
    [("nested", [("nested", [("name", "s")]), ("name", "a")])],
]
SEGS = [
    ("name", "b"), ("name", "k"), ("name", "a"), ("idx", 0), ("idx", -1), ("idx", 5),
    ("nested", [("name", "x")]), ("nested", [("name", "s")]), ("nested", [("name", "nosuch")]),
    ("nested", [("name", "l"), ("idx", 1)]), ("nested", [("nested", [("name", "x")])]),
]


def path_src(p, first=True):
    out = []
    for i, s in enumerate(p):
        if s[0] == "name":
            out.append(s[1] if (i == 0 and first) else "." + s[1])
        elif s[0] == "idx":
            out.append(f"[{s[1]}]")
        else:
            out.append("[" + path_src(s[1]) + "]")
    return "".join(out)


def g_path(p):
    items = []
    for s in p:
        if s[0] == "name":
            items.append(f"PName {g_str(s[1])}")
        elif s[0] == "idx":
            items.append(f"PIndex {g_Z(s[1])}")
        else:
            items.append(f"PNested {g_path(s[1])}")
    return g_list(items)


def g_val(v):
    if v is None:
        return "VNil"
    if isinstance(v, bool):
        raise ValueError
    if isinstance(v, int):
        return f"VInt {g_Z(v)}"
    if isinstance(v, float):
        return "VList []"  # any other object: as a segment it is SOther, nothing can be looked up in it, its text is not compared
    if isinstance(v, str):
        return f"VStr {g_str(v)}"
    if isinstance(v, list):
        return f"VList {g_list(g_val(x) for x in v)}"
    if isinstance(v, dict):
        return "VDict " + g_list(f"({g_str(k)}, {g_val(x)})" for k, x in v.items())
    raise ValueError(v)


def g_obs(r):
    return f"OText {g_str(r[1])}" if r[0] == "out" else f"OExn {r[1]}"


def gen_paths(ck: Check):
    for root in ROOTS:
        yield root
        for s1 in SEGS:
            yield root + [s1]
            if not ck.quick or ck.rng.random() < 0.35:
                for s2 in SEGS:
                    yield root + [s1, s2]


def float_printed(data, out):
    return False


# ------------------------------------------------------------------------------------------------------ elsif
class Flip:
    """A condition with a side effect: its k-th evaluation yields script[k], then false."""

    def __init__(self, script):
        self.script = list(script)
        self.n = 0

    def __liquid__(self):
        v = self.script[self.n] if self.n < len(self.script) else False
        self.n += 1
        return v


def if_source(nalts, has_else):
    src = "{% if c %}B0;"
    for k in range(nalts):
        src += "{% elsif c %}B" + str(k + 1) + ";"
    if has_else:
        src += "{% else %}B99;"
    return src + "{% endif %}"


def blocks_of(text):
    return [int(x[1:]) for x in text.split(";") if x]


def g_ifres(blocks, n):
    return f"({g_list(g_N(b) for b in blocks)}, {g_nat(n)})"


# ---------------------------------------------------------------------------------------------------- loaders
LOADER_NAMES = ["p", "dir/q", "dir/sub/r", "t.html", "dir/u.v.liquid"]


def partial_source(name, alias):
    base = name.rsplit("/", 1)[-1].split(".")[0]
    var = alias or base
    return "(" + name + ":{{ " + var + " }})"


class LoaderWorld:
    def __init__(self, workdir):
        self.dir = tempfile.mkdtemp(prefix="c01-", dir=workdir)

    def sources(self, alias):
        return {n: partial_source(n, alias) for n in LOADER_NAMES}

    def loaders(self, alias):
        import liquid

        src = self.sources(alias)
        sub = tempfile.mkdtemp(prefix="fs-", dir=self.dir)
        for n, text in src.items():
            path = os.path.join(sub, n)
            os.makedirs(os.path.dirname(path), exist_ok=True)
            with open(path, "w") as f:
                f.write(text)
            with open(path + ".liquid", "w") as f:
                f.write(text)
        yield "dict", lambda: liquid.DictLoader(dict(src))
        yield "choice", lambda: liquid.ChoiceLoader([liquid.DictLoader({}), liquid.DictLoader(dict(src))])
        yield "fs", lambda: liquid.FileSystemLoader(sub)
        yield "fs-ext", lambda: liquid.FileSystemLoader(sub, ext=".liquid")
        yield "caching-dict", lambda: liquid.CachingDictLoader(dict(src))
        yield "caching-fs", lambda: liquid.CachingFileSystemLoader(sub)
        yield "caching-fs-ns", lambda: liquid.CachingFileSystemLoader(sub, namespace_key="ns")
        yield "caching-choice", lambda: liquid.CachingChoiceLoader([liquid.DictLoader(dict(src))], namespace_key="ns")


def before_dot(s):
    return s.split(".")[0]


# ------------------------------------------------------------------------------------------------ broad pool
EXTRA_TEMPLATES = [
    ("breakcont", "{% for i in ys %}{% if i == 2 %}{% continue %}{% endif %}{% if i == nil %}{% break %}{% endif %}{{ i }}{% endfor %}"),
    ("forelse", "{% for i in e %}x{% else %}empty{% endfor %}|{% for i in (1..3) reversed %}{{ i }}{{ forloop.last }}{% endfor %}"),
    ("echo", "{% echo x | plus: 1 %}|{% echo s | upcase %}"),
    ("doc", "{% doc %}some docs {{ x }}{% enddoc %}after"),
    ("inlinecomment", "{% # a comment %}after"),
    ("raw", "{% raw %}{{ x }}{% endraw %}|{{ x }}"),
    ("unlesselse", "{% unless x %}u{% elsif s %}e{% else %}o{% endunless %}"),
    ("caseelse", "{% case s %}{% when 'hello', 'x' %}h{% else %}o{% endcase %}{% case nosuch %}{% when nil %}n{% endcase %}"),
    ("capturefor", "{% capture c %}{% for i in xs %}{{ i }}{% endfor %}{% endcapture %}{{ c | size }}"),
    ("incdec", "{% increment x %}{% decrement x %}{{ x }}"),
    ("bracketroot", "{{ [s] }}|{{ [x] }}|{{ d[s] }}|{{ d['a'] }}|{{ ['s'] }}"),
    ("nestedpartials", "{% include 'p' %}|{% render 'dir/q', q: x %}|{% include 'dir/q' with ys %}|{% include 'nosuch' %}"),
    ("renderfor", "{% render 'p' for ys as x %}|{% render 'p' with s as x %}"),
    ("translate", "{% translate n: x %}Hello {{ n }}{% plural %}Hellos {{ n }}{% endtranslate %}"),
    ("blockreq", "{% extends 'base' %}{% block c %}{{ block.super }}!{% endblock %}"),
    ("macrorec", "{% macro m a %}{{ a }}{% if a > 0 %}{% call m a | minus: 1 %}{% endif %}{% endmacro %}{% call m 3 %}"),
    ("withnest", "{% with a: 1 %}{% with b: a %}{{ a }}{{ b }}{% endwith %}{{ b }}{% endwith %}"),
    ("ternaryfilters", "{{ s | upcase if x else s | downcase || append: '!' }}"),
    ("notparen", "{% if not x and (s or n) %}t{% else %}f{% endif %}"),
    ("stringseq", "{{ s[0] }}|{{ s.first }}|{{ s.last }}|{% for ch in s limit: 2 %}{{ ch }}{% endfor %}"),
    ("shortidx", "{{ ys.0 }}|{{ nested.1.0 }}"),
    ("kwassign", "{% include 'p', x=5 %}|{{ s | default: 'd', allow_false=true }}"),
    ("blankblocks", "{% if x %}  \n {% endif %}|{% for i in xs %} {% endfor %}|"),
    ("undefinedops", "{{ nosuch.a.b }}|{{ nosuch | default: 'd' }}|{% if nosuch %}y{% else %}n{% endif %}|{{ nosuch | size }}"),
    ("filtererr", "{{ x | divided_by: 0 }}"),
    ("typeerr", "{{ s | plus: ys }}|{{ ys | join: 1, 2 }}"),
    ("outputlimit", "{% for i in (1..50) %}xxxxxxxxxx{% endfor %}"),
    ("selfinclude", "{% include 'selfinc' %}"),
    # the bound variable of include/render AND a keyword argument with the same root name: which of the two the bound
    # variable is evaluated against (it is evaluated after the arguments are pushed in include) must not depend on the API
    ("bindshadow", "{% include 'p' with s as x, s: 'special' %}|{% include 'p' for ys as x, ys: xs %}|{% include 'p' with x, x: s %}|"
                   "{% render 'p' with s as x, s: 'special' %}|{% render 'p' for ys as x, ys: xs %}|{% include 'dir/q' with x as q, x: 'K' %}"),
    # nested repetition through every construct that carries the loop count into a copy of the context: under a loop limit
    # (configuration loop-limit) both APIs must raise, or both complete
    ("looplimitnest", "{% macro m %}{% for j in (1..3) %}.{% endfor %}{% endmacro %}{% for i in (1..3) %}{% call m %}{% endfor %}"),
    ("looplimitnest2", "{% for i in (1..3) %}{% render 'loop3' %}{% endfor %}"),
    ("looplimitnest3", "{% for i in (1..3) %}{% include 'loop3' %}{% endfor %}"),
    ("looplimitnest4", "{% tablerow i in (1..3) %}{% for j in (1..3) %}.{% endfor %}{% endtablerow %}"),
    ("looplimitnest5", "{% render 'loop3' for ys %}|{% include 'loop3' for ys %}"),
    ("stringends", "{{ s.first }}|{{ s.last }}|{{ s.size }}|{{ s[0] }}|{{ s[-1] }}|{{ e.first }}|{{ e.last }}|{{ ys.first }}|{{ ys.last }}|{{ n.first }}{{ n.last }}"),
]
MORE_PARTIALS = {"selfinc": "{% include 'selfinc' %}", "loop3": "{% for j in (1..3) %}.{% endfor %}"}

CLASS_FLAGS = ["keyword_assignment", "logical_not_operator", "logical_parentheses", "shorthand_indexes",
               "string_first_and_last", "string_sequences", "suppress_blank_control_flow_blocks", "ternary_expressions"]


def make_env(cfg, loader=None):
    """cfg: dict of constructor arguments and class-level feature flags / limits."""
    import liquid

    attrs = {k: cfg[k] for k in CLASS_FLAGS if k in cfg}
    for k in ("loop_iteration_limit", "output_stream_limit", "local_namespace_limit", "context_depth_limit"):
        if k in cfg:
            attrs[k] = cfg[k]
    cls = type("Env", (liquid.Environment,), attrs)
    partials = dict(P.PARTIALS)
    partials.update(MORE_PARTIALS)
    return cls(
        extra=cfg.get("extra", True),
        tolerance=getattr(liquid.Mode, cfg.get("tolerance", "STRICT")),
        undefined=getattr(liquid, cfg.get("undefined", "Undefined")),
        strict_filters=cfg.get("strict_filters", True),
        autoescape=cfg.get("autoescape", False),
        template_comments=cfg.get("template_comments", False),
        loader=loader or liquid.DictLoader(partials),
        globals=cfg.get("globals"),
    )


def env_configs(ck: Check):
    base = {}
    yield "default", base
    for f in CLASS_FLAGS:
        yield f, {f: (f != "suppress_blank_control_flow_blocks")}
    yield "all-flags", {f: (f != "suppress_blank_control_flow_blocks") for f in CLASS_FLAGS}
    for a in (False, True):
        for b in (False, True):
            yield f"string-flags-{int(a)}{int(b)}", {"string_first_and_last": a, "string_sequences": b}
    yield "no-extra", {"extra": False}
    yield "autoescape", {"autoescape": True}
    yield "lax", {"tolerance": "LAX"}
    yield "warn", {"tolerance": "WARN"}
    yield "strict-undefined", {"undefined": "StrictUndefined"}
    yield "debug-undefined", {"undefined": "DebugUndefined"}
    yield "lax-strict-undefined", {"tolerance": "LAX", "undefined": "StrictUndefined"}
    yield "lenient-filters", {"strict_filters": False}
    yield "template-comments", {"template_comments": True}
    yield "globals", {"globals": {"x": 42, "g": "glob"}}
    yield "loop-limit", {"loop_iteration_limit": 5}
    yield "output-limit", {"output_stream_limit": 40}
    yield "namespace-limit", {"local_namespace_limit": 60}
    yield "depth-limit", {"context_depth_limit": 3}


# ------------------------------------------------------------------------------------------------------- run
def run(ck: Check) -> None:
    ck.rule = (
        "paths: 12 roots (names, bracketed variables holding strings / ints / nil / lists / floats / nothing, nested brackets) x up "
        "to two further segments out of 11 (names, indexes, bracketed variables, nested brackets), 8 data sets (exhaustive; second "
        "segment sampled in the quick tier); if/elsif/else: every script of truth values up to length 4 (5 thorough) for a condition "
        "that counts its evaluations x 0..3 elsif branches x else or not (exhaustive); loaders: 5 names (with directories, with "
        "dots) x 8 loaders (dict, choice, file system with and without ext, four caching ones, two with a namespace key) x alias or "
        "not (exhaustive); broad: 63 templates covering every registered tag x 9 data sets x 20 environment configurations (all "
        "feature flags, tolerance, undefined types, autoescape, every resource limit), render / analyze / get_template through both "
        "APIs; operators: 10 boolean operators x 19x19 heterogeneous operand pairs (nil, bools, ints, floats, strings, lists, dicts) x 6 "
        "forms (if, unless, elsif, not, parenthesised, ternary) through both APIs (if and ternary exhaustive, the others one third in the quick tier); paired tags: include (2 names x 6 bound variables x alias x 6 keyword-argument sets incl. arguments that shadow the bound "
        "variable or read each other x 4 partial bodies x 5 loop-limit / nesting scenes), render (with / for, same axes) and call (3 "
        "signatures x 3 positional x 4 keyword sets x 3 bodies x 5 scenes), each run through both APIs with a recording mapping that "
        "logs every global lookup in order (sampled in the quick tier, exhaustive in the thorough tier).  Non-trivial = the case "
        "reaches the named mechanism; distinct = distinct case.  Inheritance: chains leaf -> (mid ->) (mid2 ->) base, every level "
        "overriding block b1 with one of 7 bodies (text, block.super once or twice, data items, an include, a nested block) or not, "
        "5 base bodies, 2 partial bodies (exhaustive for one hop, and for two hops in the thorough tier; sampled otherwise); "
        "31 hand-written cases (required blocks, missing / circular / duplicate / double extends, super outside a block and "
        "across three levels, includes inside super, an extending partial included at top level and from inside a block); "
        "seeded random template families (180 quick / 2000 thorough).  Loading: 11 loader trees (dict, a user loader with front "
        "matter, file system with and without ext and with two search directories, choice loaders nested up to three deep, the "
        "empty choice) x 7 names x 3 globals arguments x 2 environment globals x unparsable sources, get_template / "
        "get_template_async / analyze_tags / analyze_tags_async (exhaustive); seeded histories that mix the two APIs against one "
        "caching loader with edits in between (60 quick / 300 thorough).  Analysis: 23 hand-written template families and seeded "
        "random ones (90 quick / 800 thorough) over probe / assign / for / block / snippet / include / render / render-snippet / "
        "extends, each with include_partials true and false."
    )
    ck.exhaustive = True
    ck.trusted_base = [
        "Coq 8.16.1 kernel + vm_compute",
        "harness: generators, path / Gallina printers, the counting condition drop, loader sandboxes (props/c01.py)",
        "modelled not verified: dict / list item access, pathlib.Path(name).name, str.split; asyncio scheduling is not modelled (no "
        "model function yields)",
        "include / render / call are modelled as sequences of context operations (PairTags.v): scope stack, evaluation log, copy flags, "
        "loop-limit arithmetic; expression values are ints / int lists / undefined, partial bodies are six probe statements",
        "extends / block / block.super (PairInherit.v): nodes are text, one data item, block.super, block, extends, include; no resource "
        "limits, strict mode, no blank-block rule, no autoescape; observed through a recording loader (get_source vs get_source_async) "
        "and a data object whose items read differently through __getitem__ and __getitem_async__ (instruments, not property inputs)",
        "loading (PairLoad.v): relative normalised names; sources are numbers (text identity); parse outcome is a list of "
        "unparsable sources; the caching mixin itself is CachingLoader.v (C23), used here for the API-mix theorem",
        "analysis (PairAnalyze.v): the walk over probe / assign / for / block / snippet / include / render / extends nodes with "
        "literal names and literal arguments; Partial.key hashes are modelled as the hashed tuples; identity of snippet nodes as "
        "(number of the load, position); ast.BlockNode containers flattened",
        "no model for the remaining tags under both APIs and for resource limits under both APIs: oracle only",
    ]
    ck.assumptions = [
        "render data is JSON-like plus one drop with a __liquid__ hook; no object with __getitem_async__ and no filter with "
        "filter_async (for those the two APIs are allowed to differ by design)",
    ]
    ck.proof()
    _paths(ck)
    _elsif(ck)
    _loaders(ck)
    _broad(ck)
    _operators(ck)
    _tags(ck)
    _kwargs_family(ck)
    _pairs2.run_inherit(ck)
    _pairs2.run_loaders2(ck)
    _pairs2.run_analyze(ck)


def _paths(ck: Check) -> None:
    env = make_env({})
    cases, expected, meta = [], [], []
    reported = 0
    for p in gen_paths(ck):
        src = "{{ " + path_src(p) + " }}"
        try:
            t = env.from_string(src)
        except Exception:  # noqa: BLE001
            ck.count("path.unparsable")
            continue
        for dname, extra in PATH_DATA:
            data = dict(COMMON)
            data.update(extra)
            s, a = both(t, data)
            ck.note_case(("path", src, dname), nontrivial=p[0][0] == "nested" or any(x[0] == "nested" for x in p))
            ck.count("path." + ("bracketed-root" if p[0][0] == "nested" else "named-root") + "." + dname)
            if s != a:
                reported += 1
                if reported <= 6:
                    ck.violation("impl-violation", "path:" + ("bracketed-root" if p[0][0] == "nested" else "segment") + f":{a[1] if a[0] == 'err' else 'text'}",
                                 f"{src!r} with x={extra.get('x', '<unset>')!r}: render gives {s}, render_async gives {a}",
                                 {"type": "path", "template": src, "data": dname, "sync": s, "async": a})
            scope = g_list(f"({g_str(k)}, {g_val(v)})" for k, v in data.items())
            cases.append("{| pc_scope := %s; pc_path := %s |}" % (scope, g_path(p)))
            expected.append(f"({g_obs(s)}, {g_obs(a)})")
            meta.append((src, dname, s, a))
    ck.sample({"template": meta[len(meta) // 3][0], "data": meta[len(meta) // 3][1], "sync": meta[len(meta) // 3][2]})
    mm = ck.coq_mismatches("path", IMPORTS, "run_path", "obs2_eqb", "pathcase", "obs * obs", cases, expected, chunk=700)
    ck.traces += len(cases)
    shown = 0
    for i in mm:
        src, dname, s, a = meta[i]
        if s != a or shown >= 3:
            continue
        shown += 1
        model = ck.coq_eval(IMPORTS, [f"run_path ({cases[i]})"])[0]
        ck.violation("correspondence", "c01-path-correspondence",
                     f"model PairSync.run_path and the implementation disagree on {src!r} (data {dname})",
                     {"type": "path", "template": src, "data": dname, "impl": [s, a], "model": model,
                      "broken": "correspondence PairSync.run_path ~ {{ path }} (theorems C01_context_get, C01_path_evaluate)"},
                     no_input=True)


def _elsif(ck: Check) -> None:
    env = make_env({})
    cases, expected, meta = [], [], []
    reported = 0
    maxlen = 4 if ck.quick else 5
    for nalts in range(0, 4):
        for has_else in (False, True):
            src = if_source(nalts, has_else)
            t = env.from_string(src)
            for n in range(0, maxlen + 1):
                for script in itertools.product([False, True], repeat=n):
                    cs, ca = Flip(script), Flip(script)
                    s = outcome(lambda: t.render(c=cs))
                    a = outcome(lambda: run_async(t.render_async(c=ca)))
                    ck.note_case(("if", nalts, has_else, script), nontrivial=nalts > 0)
                    ck.count(f"elsif.alts{nalts}." + ("else" if has_else else "noelse"))
                    if (s, cs.n) != (a, ca.n):
                        reported += 1
                        if reported <= 4:
                            what = "output" if s != a else "number of condition evaluations"
                            ck.violation("impl-violation", f"elsif:{what.split()[0]}",
                                         f"{src!r} with a condition whose successive evaluations yield {list(script)}: render gives {s} "
                                         f"after {cs.n} evaluations, render_async gives {a} after {ca.n}",
                                         {"type": "elsif", "nalts": nalts, "else": has_else, "script": list(script)})
                    if s[0] == "out" and a[0] == "out":
                        cases.append("{| ic_script := %s; ic_nalts := %s; ic_else := %s |}" % (
                            g_list(g_bool(b) for b in script), g_nat(nalts), g_bool(has_else)))
                        expected.append(f"({g_ifres(blocks_of(s[1]), cs.n)}, {g_ifres(blocks_of(a[1]), ca.n)})")
                        meta.append((src, script, s, cs.n, a, ca.n))
    ck.sample({"template": meta[-1][0], "script": list(meta[-1][1]), "sync": meta[-1][2], "evaluations": meta[-1][3]})
    mm = ck.coq_mismatches("elsif", IMPORTS, "run_if", "ifres2_eqb", "ifcase", "ifres * ifres", cases, expected, chunk=700)
    ck.traces += len(cases)
    shown = 0
    for i in mm:
        src, script, s, sn, a, an = meta[i]
        if (s, sn) != (a, an) or shown >= 3:
            continue
        shown += 1
        model = ck.coq_eval(IMPORTS, [f"run_if ({cases[i]})"])[0]
        ck.violation("correspondence", "c01-elsif-correspondence",
                     f"model PairSync.run_if and the implementation disagree on {src!r} script {list(script)}",
                     {"type": "elsif", "template": src, "script": list(script), "impl": [s, sn, a, an], "model": model,
                      "broken": "correspondence PairSync.run_if ~ if/elsif rendering (theorem C01_if_elsif)"}, no_input=True)


def load_both(env, name, **kw):
    s = outcome(lambda: env.get_template(name, **kw))
    a = outcome(lambda: run_async(env.get_template_async(name, **kw)))
    return s, a


def tmpl_picture(r, data):
    if r[0] == "err":
        return r
    t = r[1]
    return ("tmpl", t.name, str(t), outcome(lambda: t.render(**data)))


def _loaders(ck: Check) -> None:
    world = LoaderWorld(ck.workdir)
    cases, expected, meta = [], [], []
    reported = 0
    try:
        for alias in (None, "al"):
            for kind, mk in world.loaders(alias):
                for name in LOADER_NAMES:
                    # 1. get_template / get_template_async on two fresh loaders (a caching loader must not help the second API)
                    env_s, env_a = make_env({}, loader=mk()), make_env({}, loader=mk())
                    kw = {"globals": {"ns": "x"}} if kind.endswith("-ns") else {}
                    s = tmpl_picture(outcome(lambda: env_s.get_template(name, **kw)), {"v": 1})
                    a = tmpl_picture(outcome(lambda: run_async(env_a.get_template_async(name, **kw))), {"v": 1})
                    ck.note_case(("load", kind, name, alias), nontrivial="/" in name)
                    ck.count(f"loader.{kind}")
                    if s != a:
                        reported += 1
                        if reported <= 6:
                            ck.violation("impl-violation", "loader:template-name" if s[0] == a[0] == "tmpl" and s[1] != a[1] else f"loader:{kind}",
                                         f"{kind} loader, get_template({name!r}) gives {s[:2]}, get_template_async gives {a[:2]}",
                                         {"type": "load", "loader": kind, "name": name, "alias": alias})
                    # 2. include ... with: the variable the value is bound to
                    inc = "{% include '" + name + "' with v" + (f" as {alias}" if alias else "") + " %}"
                    env_i = make_env({}, loader=mk())
                    data = {"v": "VAL", "ns": "x"}
                    t = env_i.from_string(inc)
                    si = outcome(lambda: t.render(**data))
                    env_j = make_env({}, loader=mk())
                    tj = env_j.from_string(inc)
                    ai = outcome(lambda: run_async(tj.render_async(**data)))
                    if si != ai:
                        reported += 1
                        if reported <= 6:
                            ck.violation("impl-violation", "loader:include-with-binding",
                                         f"{kind} loader, {inc!r}: render gives {si}, render_async gives {ai}",
                                         {"type": "include", "loader": kind, "name": name, "alias": alias})
                    if s[0] == "tmpl" and a[0] == "tmpl" and si[0] == "out" and ai[0] == "out":
                        full = str(outcome(lambda: env_s.get_template(name, **kw))[1].path)
                        bound = alias or before_dot(name.rsplit("/", 1)[-1])

                        def key(obs, tname):
                            return bound if "VAL" in obs[1] else (alias or before_dot(tname))

                        cases.append("{| lc_name := %s; lc_full := %s; lc_alias := %s |}" % (g_str(name), g_str(full), g_opt(alias, g_str)))
                        expected.append(f"(({g_str(s[1])}, {g_str(key(si, s[1]))}), ({g_str(a[1])}, {g_str(key(ai, a[1]))}))")
                        meta.append((kind, name, alias, s, a, si, ai))
    finally:
        shutil.rmtree(world.dir, ignore_errors=True)
    ck.sample({"loader": meta[1][0], "name": meta[1][1], "sync": list(meta[1][3][:2]), "include": meta[1][5]})
    mm = ck.coq_mismatches("load", IMPORTS, "run_load", "load_eqb", "loadcase", "(str * str) * (str * str)", cases, expected, chunk=700)
    ck.traces += len(cases)
    shown = 0
    for i in mm:
        kind, name, alias, s, a, si, ai = meta[i]
        if s != a or si != ai or shown >= 3:
            continue
        shown += 1
        model = ck.coq_eval(IMPORTS, [f"run_load ({cases[i]})"])[0]
        ck.violation("correspondence", "c01-loader-correspondence",
                     f"model PairSync.run_load and the implementation disagree on {kind} loader, name {name!r}, alias {alias!r}",
                     {"type": "load", "loader": kind, "name": name, "alias": alias, "impl": [s[:2], a[:2], si, ai], "model": model,
                      "broken": "correspondence PairSync.run_load ~ get_template(_async) names / include binding (theorem C01_loader_name)"},
                     no_input=True)


def pool_templates():
    return list(P.TEMPLATES) + EXTRA_TEMPLATES


def _broad(ck: Check) -> None:
    import warnings

    templates = pool_templates()
    datas = [P.decode(d) for d in P.DATA]
    tags_seen = set()
    reported = {}
    nren = 0
    for cname, cfg in env_configs(ck):
        env = make_env(cfg)
        for tname, src in templates:
            with warnings.catch_warnings():
                warnings.simplefilter("ignore")
                pt = outcome(lambda: env.from_string(src))
                if pt[0] == "err":
                    ck.count(f"broad.parse-error.{pt[1]}")
                    continue
                t = pt[1]
                # analysis through both APIs (once per template and configuration)
                sa = outcome(lambda: P.analysis_of(t.analyze()))
                aa = outcome(lambda: P.analysis_of(run_async(t.analyze_async())))
                ck.count("broad.analyze")
                if sa[0] == "out":
                    tags_seen.update(k for k, _ in sa[1][5])
                if sa != aa:
                    sig = f"analyze:{tname}"
                    reported[sig] = reported.get(sig, 0) + 1
                    if reported[sig] <= 1:
                        ck.violation("impl-violation", sig, f"configuration {cname}, template {tname!r}: analyze() and analyze_async() differ",
                                     {"type": "analyze", "config": cname, "template": tname})
                for di in (range(len(datas)) if not ck.quick else (0, 1, 5, 7)):
                    s, a = both(t, datas[di])
                    nren += 1
                    ck.note_case(("broad", cname, tname, di))
                    ck.count(f"broad.config.{cname}")
                    if s != a:
                        sig = f"render:{tname}:{a[1] if a[0] == 'err' else 'text'}"
                        reported[sig] = reported.get(sig, 0) + 1
                        if reported[sig] <= 1:
                            ck.violation("impl-violation", sig,
                                         f"configuration {cname}, template {tname!r} ({src!r}), data x={P.decode(P.XVALUES[di])!r}: render gives "
                                         f"{s}, render_async gives {a}",
                                         {"type": "broad", "config": cname, "template": tname, "data": di})
    env = make_env({})
    registered = {k for k in env.tags if k not in ("content", "illegal", "output")}
    missing = sorted(registered - tags_seen - {"raw", "doc"})  # raw and doc are lexer-level: never reported by analyze()
    ck.extra["registered_tags_not_rendered"] = missing
    ck.extra["renders_compared"] = nren
    if missing:
        ck.violation("correspondence", "c01-tag-coverage", f"registered tags never rendered by the pool: {missing}",
                     {"type": "coverage", "missing": missing, "broken": "the broad generator no longer covers every registered tag"},
                     no_input=True)


# ------------------------------------------------------------------------------------------------ operators
# Every boolean operator over heterogeneous operand pairs through both APIs (seed C01-I: GeExpression.evaluate_async
# rewritten as `not _lt(...)` differs from the sync copy only on bool / nil / list operands).  Operands are render
# data (l, r) and, for the left side, also literals; the forms cover if / unless / elsif / the ternary output form.
OP_VALUES = [None, True, False, 0, 1, 1.0, 2, -1, 2.5, "", "a", "b", "1", [], [1], [1, 2], ["a"], {}, {"a": 1}]
OP_OPERATORS = ["==", "!=", "<>", "<", ">", "<=", ">=", "contains", "and", "or"]
OP_FORMS = [
    ("if", "{{% if l {op} r %}}yes{{% else %}}no{{% endif %}}"),
    ("unless", "{{% unless l {op} r %}}yes{{% else %}}no{{% endunless %}}"),
    ("elsif", "{{% if nosuch %}}x{{% elsif l {op} r %}}yes{{% else %}}no{{% endif %}}"),
    ("not", "{{% if not l {op} r %}}yes{{% else %}}no{{% endif %}}"),
    ("group", "{{% if (l {op} r) and true %}}yes{{% else %}}no{{% endif %}}"),
    ("ternary", "{{{{ 'yes' if l {op} r else 'no' }}}}"),
]


def _operators(ck: Check) -> None:
    import warnings

    reported = {}
    n = 0
    for cname, cfg in (("default", {}), ("extra", {"logical_not_operator": True, "logical_parentheses": True, "ternary_expressions": True})):
        env = make_env(cfg)
        for fname, form in OP_FORMS:
            for op in OP_OPERATORS:
                src = form.format(op=op)
                with warnings.catch_warnings():
                    warnings.simplefilter("ignore")
                    pt = outcome(lambda: env.from_string(src))
                if pt[0] == "err":
                    ck.count(f"operators.parse-error.{cname}.{fname}")
                    continue
                t = pt[1]
                for li, lv in enumerate(OP_VALUES):
                    for ri, rv in enumerate(OP_VALUES):
                        if ck.quick and fname not in ("if", "ternary") and (li + 2 * ri) % 3:
                            continue
                        s, a = both(t, {"l": lv, "r": rv})
                        n += 1
                        ck.note_case(("operators", cname, fname, op, li, ri))
                        ck.count(f"operators.{op}")
                        if s != a:
                            sig = f"operator:{op}:{fname}"
                            reported[sig] = reported.get(sig, 0) + 1
                            if reported[sig] <= 1:
                                ck.violation("impl-violation", sig,
                                             f"configuration {cname}, {src!r} with l={lv!r}, r={rv!r}: render gives {s}, render_async gives {a}",
                                             {"type": "operator", "config": cname, "template": src, "l": li, "r": ri})
    ck.extra["operator_renders_compared"] = n


# ================================================================================================ paired tags
# include / render / call: both hand-written copies against PairTags.v.  Observed through the public API:
#   * an EVALUATION LOG: every variable lookup that reaches the template's `matter` mapping (a recording Mapping
#     passed to from_string), in order, with hit or miss -- which shows both the order of evaluation and whether a
#     keyword argument / bound variable was already in scope when an expression was evaluated;
#   * the output, split into printed values, counters, loop dots and forloop indexes;
#   * the exception class (loop limit through carried iterations, disabled include, break under block scope ...).
TAG_IMPORTS = "PyPrims MacroArgs PairTags"
TAG_GLOBALS = {"gx": 5, "gl": [1, 2, 3], "g2": [4, 6], "a": 9, "tn": "p"}


def _recorder(data):
    from collections.abc import Mapping

    class Rec(Mapping):
        def __init__(self):
            self.log = []

        def __getitem__(self, k):
            if k in data:
                self.log.append((k, True))
                return data[k]
            self.log.append((k, False))
            raise KeyError(k)

        def __iter__(self):
            return iter(data)

        def __len__(self):
            return len(data)

    return Rec()


# expressions: ("lit", n) | ("var", name)
def ex_src(e):
    return str(e[1])


def g_ex(e):
    return f"ELit (VS {g_Z(e[1])})" if e[0] == "lit" else f"EVar {g_str(e[1])}"


def g_v(x):
    if isinstance(x, list):
        return f"VL {g_list(g_Z(z) for z in x)}"
    if isinstance(x, str):
        return "VS 0"  # a template name held in a variable: its value is only used as a name
    return f"VS {g_Z(x)}"


# bodies: ("print", n) ("for", len) ("incr",) ("include",) ("break",) ("index",)
def body_src(body):
    out = []
    for n in body:
        if n[0] == "print":
            out.append("{{ " + n[1] + " | join: ',' }};")
        elif n[0] == "for":
            out.append("!{% for q in (1.." + str(n[1]) + ") %}.{% endfor %};")
        elif n[0] == "incr":
            out.append("#{% increment cnt %};")
        elif n[0] == "include":
            out.append("{% include 'empty' %}")
        elif n[0] == "break":
            out.append("{% break %}")
        else:
            out.append("@{{ forloop.index }};")
    return "".join(out)


def g_body(body):
    m = {"print": lambda n: f"PPrint {g_str(n[1])}", "for": lambda n: f"PFor {g_nat(n[1])}", "incr": lambda n: "PIncr",
         "include": lambda n: "PInclude", "break": lambda n: "PBreak", "index": lambda n: "PIndex"}
    return g_list(m[n[0]](n) for n in body)


def parse_out(text):
    evs = []
    for tok in text.split(";")[:-1]:
        if tok.startswith("#"):
            evs.append(f"OCount {g_nat(int(tok[1:]))}")
        elif tok.startswith("!"):
            evs.append(f"ODots {g_nat(len(tok) - 1)}")
        elif tok.startswith("@"):
            evs.append(f"OIdx {g_nat(int(tok[1:]))}" if tok[1:] else "OV VU")
        elif tok == "":
            evs.append("OV VU")
        elif "," in tok:
            evs.append(f"OV (VL {g_list(g_Z(int(z)) for z in tok.split(','))})")
        else:
            evs.append(f"OV (VS {g_Z(int(tok))})")
    return g_list(evs)


def wrap_loops(tag, loops):
    src = tag
    for i, n in reversed(list(enumerate(loops))):
        src = "{% for w" + str(i) + " in (1.." + str(n) + ") %}{% if forloop.first %}" + src + "{% endif %}{% endfor %}"
    return src


def tag_env(limit, templates):
    import liquid

    cls = type("Env", (liquid.Environment,), {"loop_iteration_limit": limit})
    d = {"empty": ""}
    d.update(templates)
    return cls(extra=True, loader=liquid.DictLoader(d))


def run_tag(env, src, use_async):
    rec = _recorder(TAG_GLOBALS)
    try:
        t = env.from_string(src, matter=rec)
        out = run_async(t.render_async()) if use_async else t.render()
        return (rec.log, out, None)
    except Exception as e:  # noqa: BLE001
        return (rec.log, None, classify_exc(e))


def g_tobs(o):
    log, out, err = o
    seen = g_list(f"({g_str(k)}, {g_bool(h)})" for k, h in log)
    return "{| o_seen := %s; o_out := %s; o_end := %s |}" % (seen, parse_out(out) if out is not None else "[]",
                                                             f"Some {err}" if err else "None")


def g_tcase(limit, loops, templates, macros):
    gl = g_list(f"({g_str(k)}, {g_v(x)})" for k, x in TAG_GLOBALS.items())
    gt = g_list(f"({g_str(k)}, {g_body(b)})" for k, b in templates.items())
    gm = g_list("(%s, (%s, %s))" % (g_str(k), g_list(f"({g_str(p)}, {g_opt(d, lambda e: '(' + g_ex(e) + ')')})" for p, d in ps), g_body(b))
                for k, (ps, b) in macros.items())
    return "{| tc_limit := %s; tc_depth := 30; tc_loops := %s; tc_globals := %s; tc_templates := %s; tc_macros := %s |}" % (
        g_opt(limit, g_nat), g_list(g_nat(n) for n in loops), gl, gt, gm)


BODIES = [
    [("print", "item"), ("print", "p"), ("print", "a"), ("print", "b"), ("print", "gx"), ("incr",)],
    [("print", "item"), ("for", 2), ("print", "a"), ("index",), ("incr",)],
    [("print", "p"), ("include",), ("print", "a")],
    [("print", "item"), ("incr",), ("break",), ("print", "a")],
]
ARGSETS = [
    [],
    [("a", ("lit", 1))],
    [("a", ("var", "gx")), ("b", ("var", "a"))],          # arguments that read each other: b sees the caller's a
    [("gx", ("lit", 7))],                                  # a keyword argument that shadows the bound variable
    [("item", ("lit", 3)), ("gl", ("lit", 8))],
    [("a", ("lit", 1)), ("b", ("var", "gm")), ("a", ("var", "g2"))],
]
SCENES = [(None, []), (12, [2]), (11, [2, 3]), (24, [2, 3]), (5, [])]


def gen_include(ck):
    yield ("lit", "nosuch"), None, None, [], 0, BODIES[0], None, []
    yield ("lit", "nosuch"), ("var", "gx"), "item", ARGSETS[2], 0, BODIES[0], 12, [2]
    for name in (("lit", "p"), ("var", "tn")):
        for var in (None, ("var", "gx"), ("var", "gl"), ("var", "gm"), ("var", "a"), ("var", "g2")):
            for alias in (None, "item"):
                if var is None and alias:
                    continue
                for args in ARGSETS:
                    for bi, body in enumerate(BODIES):
                        for limit, loops in SCENES:
                            if ck.quick and ck.rng.random() < 0.85:
                                continue
                            yield name, var, alias, args, bi, body, limit, loops


def include_src(name, var, alias, args, kw="with"):
    s = "{% include " + (f"'{name[1]}'" if name[0] == "lit" else name[1])
    if var is not None:
        s += f" {kw} {var[1]}" + (f" as {alias}" if alias else "")
    if args:
        s += ", " + ", ".join(f"{k}: {ex_src(e)}" for k, e in args)
    return s + " %}"


def gen_render(ck):
    yield "nosuch", None, False, None, [], 0, BODIES[0], None, []
    yield "nosuch", ("var", "gl"), True, "item", ARGSETS[2], 0, BODIES[0], 12, [2]
    for tname in ("p",):
        for var in (None, ("var", "gx"), ("var", "gl"), ("var", "gm"), ("var", "a"), ("var", "g2")):
            for loop in (False, True):
                if var is None and loop:
                    continue
                for alias in (None, "item"):
                    if var is None and alias:
                        continue
                    for args in ARGSETS:
                        for bi, body in enumerate(BODIES):
                            for limit, loops in SCENES:
                                if ck.quick and ck.rng.random() < 0.85:
                                    continue
                                yield tname, var, loop, alias, args, bi, body, limit, loops


def render_src(tname, var, loop, alias, args):
    s = "{% render '" + tname + "'"
    if var is not None:
        s += (" for " if loop else " with ") + var[1] + (f" as {alias}" if alias else "")
    if args:
        s += ", " + ", ".join(f"{k}: {ex_src(e)}" for k, e in args)
    return s + " %}"


PARAMSETS = [
    [("a", None)],
    [("a", None), ("b", ("var", "gx"))],
    [("a", ("lit", 1)), ("b", ("var", "a"))],
]
POSSETS = [[], [("lit", 1)], [("var", "gx"), ("var", "gl"), ("var", "gm")]]
KWSETS = [[], [("b", ("lit", 2))], [("x", ("var", "gm"))], [("a", ("var", "gx")), ("y", ("var", "a"))]]
MACRO_BODIES = [
    [("print", "a"), ("print", "b"), ("print", "gx"), ("incr",)],
    [("print", "a"), ("for", 2), ("index",)],
    [("print", "b"), ("include",)],
]


def gen_call(ck):
    for defined in (True, False):
        for params in PARAMSETS:
            for pos in POSSETS:
                for kws in KWSETS:
                    for bi, body in enumerate(MACRO_BODIES):
                        for limit, loops in SCENES:
                            if not defined and (bi or loops):
                                continue
                            if ck.quick and defined and ck.rng.random() < 0.5:
                                continue
                            yield defined, params, pos, kws, bi, body, limit, loops


def call_src(defined, params, pos, kws, body):
    ps = ", ".join(p if d is None else f"{p}: {ex_src(d)}" for p, d in params)
    args = ", ".join([ex_src(e) for e in pos] + [f"{k}: {ex_src(e)}" for k, e in kws])
    macro = "{% macro m " + ps + " %}" + body_src(body) + "{% endmacro %}" if defined else ""
    return macro, "{% call m" + (" " + args if args else "") + " %}"


def _tag_family(ck, fam, gen, build):
    """build(case) -> (src, env, coq_case_term, signature_hint)"""
    cases, expected, meta = [], [], []
    reported = {}
    envs = {}
    for case in gen(ck):
        src, envkey, templates, limit, term, hint = build(case)
        ek = (fam, limit, envkey)
        env = envs.get(ek)
        if env is None:
            env = envs[ek] = tag_env(limit, templates)
        s = run_tag(env, src, False)
        a = run_tag(env, src, True)
        ck.note_case((fam, src, limit), nontrivial=True)
        ck.count(f"tags.{fam}." + ("ok" if s[2] is None else s[2]))
        if s != a:
            what = "evaluation order / scope" if s[0] != a[0] else ("exception" if s[2] != a[2] else "output")
            sig = f"tags:{fam}:{what.split()[0]}:{hint}"
            reported[sig] = reported.get(sig, 0) + 1
            if reported[sig] <= 2:
                ck.violation("impl-violation", sig,
                             f"{src!r} (loop limit {limit}): render looks up {s[0]} and gives {s[1] if s[2] is None else s[2]!r}; "
                             f"render_async looks up {a[0]} and gives {a[1] if a[2] is None else a[2]!r}",
                             {"type": "tags", "family": fam, "template": src, "limit": limit, "partials": {k: body_src(b) for k, b in templates.items()} if fam != "call" else {}})
        cases.append(term)
        expected.append(f"({g_tobs(s)}, {g_tobs(a)})")
        meta.append((src, limit, s, a))
    if not cases:
        return
    ck.sample({"template": meta[len(meta) // 2][0], "lookups": meta[len(meta) // 2][2][0], "output": meta[len(meta) // 2][2][1]})
    casetype = {"include": "tcase * include_node", "render": "tcase * render_node", "call": "tcase * call_node"}[fam]
    mm = ck.coq_mismatches(f"tags_{fam}", TAG_IMPORTS, f"run_{fam}", "obs2_eqb", casetype, "obs * obs", cases, expected, chunk=400)
    ck.traces += len(cases)
    shown = 0
    for i in mm:
        src, limit, s, a = meta[i]
        if s != a or shown >= 3:
            continue
        shown += 1
        model = ck.coq_eval(TAG_IMPORTS, [f"run_{fam} ({cases[i]})"])[0]
        ck.violation("correspondence", f"c01-tags-{fam}-correspondence",
                     f"model PairTags.run_{fam} and the implementation disagree on {src!r} (loop limit {limit}): implementation looks up "
                     f"{s[0]} and gives {s[1] if s[2] is None else s[2]!r}",
                     {"type": "tags", "family": fam, "template": src, "limit": limit, "impl": [s, a], "model": model[:1500],
                      "broken": f"correspondence PairTags.run_{fam} ~ the {fam} tag through both APIs (theorem C01_{fam}_tag)"}, no_input=True)


def _tags(ck: Check) -> None:
    def b_include(case):
        name, var, alias, args, bi, body, limit, loops = case
        tag = include_src(name, var, alias, args)
        templates = {"p": body_src(body)}
        tname = "p" if name[1] in ("p", "tn") else "nosuch"
        node = "{| in_name := %s; in_tname := %s; in_var := %s; in_alias := %s; in_args := %s |}" % (
            ("ELit (VS 0)" if name[0] == "lit" else f"EVar {g_str(name[1])}"), g_str(tname), g_opt(var, lambda e: "(" + g_ex(e) + ")"),
            g_opt(alias, g_str), g_list(f"({g_str(k)}, {g_ex(e)})" for k, e in args))
        term = f"({g_tcase(limit, loops, {'p': body}, {})}, {node})"
        return wrap_loops(tag, loops), bi, templates, limit, term, "with-var" if var else "plain"

    def b_render(case):
        tname, var, loop, alias, args, bi, body, limit, loops = case
        tag = render_src(tname, var, loop, alias, args)
        node = "{| rn_tname := %s; rn_var := %s; rn_loop := %s; rn_alias := %s; rn_args := %s |}" % (
            g_str(tname), g_opt(var, lambda e: "(" + g_ex(e) + ")"), g_bool(loop), g_opt(alias, g_str),
            g_list(f"({g_str(k)}, {g_ex(e)})" for k, e in args))
        term = f"({g_tcase(limit, loops, {'p': body}, {})}, {node})"
        return wrap_loops(tag, loops), bi, {"p": body_src(body)}, limit, term, ("for" if loop else "with") if var else "plain"

    def b_call(case):
        defined, params, pos, kws, bi, body, limit, loops = case
        macro, tag = call_src(defined, params, pos, kws, body)
        node = "{| cn_name := %s; cn_pos := %s; cn_kws := %s |}" % (
            g_str("m"), g_list(g_ex(e) for e in pos), g_list(f"({g_str(k)}, {g_ex(e)})" for k, e in kws))
        term = f"({g_tcase(limit, loops, {}, {'m': (params, body)} if defined else {})}, {node})"
        return macro + wrap_loops(tag, loops), 0, {}, limit, term, "call"

    _tag_family(ck, "include", gen_include, b_include)
    _tag_family(ck, "render", gen_render, b_render)
    _tag_family(ck, "call", gen_call, b_call)


def _kwargs_scenarios():
    """Delegate loaders that USE the keyword arguments a load carries (the `tag` that asks, a namespace key), behind choice
    loaders: -> [(label, make_env, action)] where action(env, use_async) -> observation."""
    import liquid

    class TagAware(liquid.DictLoader):
        def _name(self, template_name, kwargs):
            tag = kwargs.get("tag")
            uid = kwargs.get("uid")
            name = f"{tag}/{template_name}" if tag and f"{tag}/{template_name}" in self.templates else template_name
            return f"{uid}/{name}" if uid and f"{uid}/{name}" in self.templates else name

        def get_source(self, env, template_name, *, context=None, **kwargs):
            src = super().get_source(env, self._name(template_name, kwargs), context=context, **kwargs)
            return liquid.loader.TemplateSource(src.text, template_name, src.uptodate, src.matter)

        async def get_source_async(self, env, template_name, *, context=None, **kwargs):
            src = await super().get_source_async(env, self._name(template_name, kwargs), context=context, **kwargs)
            return liquid.loader.TemplateSource(src.text, template_name, src.uptodate, src.matter)

    srcs = {"card": "[plain card {{ t }}]", "render/card": "[RENDERED card {{ t }}]", "include/card": "[INCLUDED card {{ t }}]",
            "u1/card": "[u1 card]", "main": "{% render 'card', t: 'T' %}{% include 'card' %}"}
    mk = {
        "choice": lambda: liquid.ChoiceLoader([liquid.DictLoader({}), TagAware(srcs)]),
        "nested-choice": lambda: liquid.ChoiceLoader([liquid.ChoiceLoader([TagAware(srcs)])]),
        "caching-choice": lambda: liquid.CachingChoiceLoader([liquid.DictLoader({}), TagAware(srcs)], namespace_key="uid"),
    }

    def render_main(env, use_async):
        t = run_async(env.get_template_async("main")) if use_async else env.get_template("main")
        return run_async(t.render_async(t="T")) if use_async else t.render(t="T")

    def load_with(kw):
        def act(env, use_async):
            t = run_async(env.get_template_async("card", **kw)) if use_async else env.get_template("card", **kw)
            return t.render(t="T")
        return act

    def analyze_main(env, use_async):
        t = env.get_template("main")
        a = run_async(t.analyze_async()) if use_async else t.analyze()
        return sorted(a.variables), sorted(a.tags)

    actions = {"render-main": render_main, "load-tag-render": load_with({"tag": "render"}), "load-tag-include": load_with({"tag": "include"}),
               "load-uid": load_with({"uid": "u1"}), "analyze-main": analyze_main}
    return [(f"{ln}:{an}", lambda m=m: liquid.Environment(loader=m()), act) for ln, m in mk.items() for an, act in actions.items()]


def _kwargs_family(ck: Check) -> None:
    """Keyword arguments of a load (tag, namespace) reach the delegate loaders under both APIs."""
    for label, mkenv, act in _kwargs_scenarios():
        s = outcome(lambda: act(mkenv(), False))
        a = outcome(lambda: act(mkenv(), True))
        ck.note_case(("kwargs", label), nontrivial=True)
        ck.count("kwargs.scenarios")
        ck.traces += 2
        if s != a:
            ck.violation("impl-violation", f"load-kwargs:{label}",
                         f"delegate loader that uses the load's keyword arguments behind a choice loader, scenario {label}: sync {s}, async {a}",
                         {"type": "kwargs", "scenario": label, "sync": s, "async": a})


def replay_tags(case) -> bool:
    env = tag_env(case["limit"], case.get("partials", {}))
    s = run_tag(env, case["template"], False)
    a = run_tag(env, case["template"], True)
    print(case["template"])
    print("sync :", s)
    print("async:", a)
    return s != a


def replay(data) -> int:
    import warnings

    case = data["case"]
    typ = case.get("type")
    bad = False
    if data.get("kind") != "impl-violation":
        print("replay names a proof/correspondence obligation:", case.get("broken", case))
        return 1
    if typ == "kwargs":
        for label, mkenv, act in _kwargs_scenarios():
            if label == case["scenario"]:
                s_ = outcome(lambda: act(mkenv(), False))
                a_ = outcome(lambda: act(mkenv(), True))
                print(label, "sync:", s_, "async:", a_)
                bad = s_ != a_
    elif typ == "path":
        env = make_env({})
        d = dict(COMMON)
        d.update(dict(PATH_DATA)[case["data"]])
        s, a = both(env.from_string(case["template"]), d)
        print(case["template"], "sync:", s, "async:", a)
        bad = s != a
    elif typ == "elsif":
        env = make_env({})
        t = env.from_string(if_source(case["nalts"], case["else"]))
        cs, ca = Flip(case["script"]), Flip(case["script"])
        s = outcome(lambda: t.render(c=cs))
        a = outcome(lambda: run_async(t.render_async(c=ca)))
        print(if_source(case["nalts"], case["else"]), case["script"], "sync:", s, cs.n, "async:", a, ca.n)
        bad = (s, cs.n) != (a, ca.n)
    elif typ in ("load", "include"):
        work = tempfile.mkdtemp(prefix="c01-replay-")
        try:
            world = LoaderWorld(work)
            mk = dict(world.loaders(case["alias"]))[case["loader"]]
            kw = {"globals": {"ns": "x"}} if case["loader"].endswith("-ns") else {}
            if typ == "load":
                s = tmpl_picture(outcome(lambda: make_env({}, loader=mk()).get_template(case["name"], **kw)), {"v": 1})
                a = tmpl_picture(outcome(lambda: run_async(make_env({}, loader=mk()).get_template_async(case["name"], **kw))), {"v": 1})
            else:
                inc = "{% include '" + case["name"] + "' with v" + (f" as {case['alias']}" if case["alias"] else "") + " %}"
                dd = {"v": "VAL", "ns": "x"}
                s = outcome(lambda: make_env({}, loader=mk()).from_string(inc).render(**dd))
                a = outcome(lambda: run_async(make_env({}, loader=mk()).from_string(inc).render_async(**dd)))
            print("sync:", s, "async:", a)
            bad = s != a
        finally:
            shutil.rmtree(work, ignore_errors=True)
    elif typ in ("broad", "analyze"):
        cfg = dict(env_configs(None))[case["config"]]
        env = make_env(cfg)
        src = dict(pool_templates())[case["template"]]
        with warnings.catch_warnings():
            warnings.simplefilter("ignore")
            t = env.from_string(src)
            if typ == "broad":
                s, a = both(t, P.decode(P.DATA[case["data"]]))
            else:
                s = outcome(lambda: P.analysis_of(t.analyze()))
                a = outcome(lambda: P.analysis_of(run_async(t.analyze_async())))
        print(src, "sync:", s, "async:", a)
        bad = s != a
    elif typ == "operator":
        cfg = {} if case["config"] == "default" else {"logical_not_operator": True, "logical_parentheses": True, "ternary_expressions": True}
        with warnings.catch_warnings():
            warnings.simplefilter("ignore")
            t = make_env(cfg).from_string(case["template"])
        s, a = both(t, {"l": OP_VALUES[case["l"]], "r": OP_VALUES[case["r"]]})
        print(case["template"], OP_VALUES[case["l"]], OP_VALUES[case["r"]], "sync:", s, "async:", a)
        bad = s != a
    elif typ == "tags":
        bad = replay_tags(case)
    elif typ == "inherit":
        bad = _pairs2.replay_inherit(case)
    elif typ == "analyze2":
        bad = _pairs2.replay_analyze(case)
    elif typ == "analyze2-stability":
        bad = _pairs2.replay_stability(case)
    elif typ in ("load2", "mix"):
        bad = _pairs2.replay_load(case)
    else:
        print("unknown replay case", case)
        return 1
    print(("VIOLATION reproduced" if bad else "not reproduced") + f" property={data['property']}")
    return 1 if bad else 0
