"""C18 — Template inheritance resolves blocks to the most-derived definition."""

from __future__ import annotations

import itertools

from ..core import Check, classify_exc, run_async
from ..g import g_Z, g_bool, g_list, g_nat, g_opt, g_str

IMPORTS = "PyPrims Inherit"

# ---------------------------------------------------------------------------------------------------- cases
# node:  ("text", s) | ("var", x) | ("super",) | ("superup",) | ("block", name, required, endname|None, [node]) | ("for", x, lo, hi, [node])
# item:  ("node", node) | ("extends", parent)
# case:  {"limit": int, "loader": {name: [item]}, "leaf": name, "data": {name: int}, "judge": bool, "tag": str,
#         "suppress": bool (suppress_blank_control_flow_blocks; default True)}


def node_src(n) -> str:
    k = n[0]
    if k == "text":
        return n[1]
    if k == "var":
        return "{{ " + n[1] + " }}"
    if k == "super":
        return "{{ block.super }}"
    if k == "superup":
        return "{{ block.super | upcase }}"
    if k == "block":
        _, name, req, end, body = n
        return ("{% block " + name + (" required" if req else "") + " %}" + "".join(node_src(m) for m in body)
                + "{% endblock" + ("" if end is None else " " + end) + " %}")
    _, x, lo, hi, body = n
    return "{% for " + x + " in (" + str(lo) + ".." + str(hi) + ") %}" + "".join(node_src(m) for m in body) + "{% endfor %}"


def template_src(t) -> str:
    return "".join(node_src(i[1]) if i[0] == "node" else "{% extends '" + i[1] + "' %}" for i in t)


def g_node(n) -> str:
    k = n[0]
    if k == "text":
        return f"Text {g_str(n[1])}"
    if k == "var":
        return f"Var {g_str(n[1])}"
    if k == "super":
        return "Super false"
    if k == "superup":
        return "Super true"
    if k == "block":
        _, name, req, end, body = n
        return f"Block {g_str(name)} {g_bool(req)} {g_opt(end, g_str)} {g_list(g_node(m) for m in body)}"
    _, x, lo, hi, body = n
    return f"For {g_str(x)} {g_list(g_Z(v) for v in range(lo, hi + 1))} {g_list(g_node(m) for m in body)}"


def g_template(t) -> str:
    return g_list((f"TNode ({g_node(i[1])})" if i[0] == "node" else f"TExtends {g_str(i[1])}") for i in t)


def g_case(c) -> str:
    ld = g_list(f"({g_str(k)}, {g_template(t)})" for k, t in c["loader"].items())
    data = g_list(f"({g_str(k)}, {g_Z(v)})" for k, v in sorted(c["data"].items()))
    return (f"{{| k_suppress := {g_bool(c.get('suppress', True))}; k_limit := {g_nat(c['limit'])}; k_loader := {ld}; k_leaf := {g_str(c['leaf'])}; "
            f"k_data := {data} |}}")


# --------------------------------------------------------------------------------------------- implementation
_ENVCLS: dict = {}


def make_env(limit: int, sources: dict, suppress: bool = True):
    from liquid import DictLoader, Environment
    import liquid.extra as ex

    cls = _ENVCLS.get((limit, suppress))
    if cls is None:
        cls = type(f"Env{limit}{suppress}", (Environment,),
                   {"context_depth_limit": limit, "suppress_blank_control_flow_blocks": suppress})
        _ENVCLS[(limit, suppress)] = cls
    env = cls(loader=DictLoader(sources))
    ex.add_tags(env)
    return env


def run_impl(limit, sources, leaf, data, use_async, suppress=True):
    try:
        env = make_env(limit, sources, suppress)
        if use_async:
            async def go():
                t = await env.get_template_async(leaf)
                return await t.render_async(**data)
            return ("out", run_async(go()))
        return ("out", env.get_template(leaf).render(**data))
    except Exception as e:  # noqa: BLE001
        return ("err", classify_exc(e))


def sources_of(c) -> dict:
    return {k: template_src(t) for k, t in c["loader"].items()}


# ------------------------------------------------------------------------------------------------------ oracle
# The documented behaviour (docs/optional_tags.md, "extends" / "block" / "Super blocks"), as a reference resolver.
class _Raise(Exception):
    def __init__(self, cls):
        self.cls = cls


class _Diverge(Exception):
    pass


def _blocks(nodes):
    for n in nodes:
        if n[0] == "block":
            yield n
            yield from _blocks(n[4])
        elif n[0] == "for":
            yield from _blocks(n[4])


def _tblocks(t):
    return list(_blocks([i[1] for i in t if i[0] == "node"]))


def _rejected(t) -> bool:
    bl = _tblocks(t)
    names = [b[1] for b in bl]
    return len(set(names)) != len(names) or any(b[3] is not None and b[3] != b[1] for b in bl)


def _blank(n) -> bool:
    """Engine-wide rule (docs: "blank" blocks): whitespace-only text is blank, {{ ... }} never is, a loop is when its body
    is, and a block tag never is (it stands for whatever the chain defines for it)."""
    if n[0] == "text":
        return n[1] == "" or n[1].isspace()
    if n[0] == "for":
        return all(_blank(m) for m in n[4])
    return False


def reference(c):
    """('out', text) | ('err', class) | ('diverge',) | None (the documentation does not say)."""
    loader, data = c["loader"], c["data"]
    out: list = []
    suppress = c.get("suppress", True)

    def body(nodes, env, chain, cur, depth):
        """A tag's block: when all its nodes are blank it still runs, but contributes no output."""
        mark = len(out)
        render(nodes, env, chain, cur, depth)
        if suppress and all(_blank(m) for m in nodes):
            del out[mark:]

    def defs(chain, name, frm):
        for lvl in range(frm, len(chain)):
            for b in _tblocks(chain[lvl]):
                if b[1] == name:
                    return lvl, b
        return None

    def render(nodes, env, chain, cur, depth):
        if depth > 400:
            raise _Diverge
        for n in nodes:
            k = n[0]
            if k == "text":
                out.append(n[1])
            elif k == "var":
                out.append(str(env[n[1]]) if n[1] in env else "")
            elif k == "for":
                for v in range(n[2], n[3] + 1):
                    body(n[4], {**env, n[1]: v}, chain, cur, depth)
            elif k in ("super", "superup"):
                if cur is not None:
                    up = defs(chain, cur[0], cur[1] + 1)          # the next definition up the chain
                    if up is not None:
                        mark = len(out)
                        body(up[1][4], env, chain, (cur[0], up[0]), depth + 1)
                        if k == "superup":                          # block.super is a string; filters apply to it
                            out[mark:] = ["".join(out[mark:]).upper()]
            else:
                md = defs(chain, n[1], 0) if chain else None       # the most-derived definition
                lvl, b = md if md is not None else (0, n)
                if b[2]:
                    raise _Raise("ERequiredBlock")                # required and nobody overrides it
                body(b[4], env, chain, (n[1], lvl), depth + 1)

    try:
        if c["leaf"] not in loader:
            return ("err", "ENotFound")
        t = loader[c["leaf"]]
        if any(b[3] is not None and b[3] != b[1] for b in _tblocks(t)):
            return ("err", "EInherit")
        if not any(i[0] == "extends" for i in t):
            if _rejected(t):
                return ("err", "EInherit")
            render([i[1] for i in t], dict(data), [], None, 0)
            return ("out", "".join(out))
        pre = list(itertools.takewhile(lambda i: i[0] == "node", t))
        render([i[1] for i in pre], dict(data), [], None, 0)     # a child renders what precedes its extends tag
        chain, seen, cur = [], {c["leaf"]}, t
        while True:
            if _rejected(cur):
                return ("err", "EInherit")
            chain.append(cur)
            ext = [i[1] for i in cur if i[0] == "extends"]
            if len(ext) > 1:
                return None
            if not ext:
                break
            if ext[0] in seen:
                return ("err", "EInherit")                         # circular extends
            if ext[0] not in loader:
                return ("err", "ENotFound")
            seen.add(ext[0])
            cur = loader[ext[0]]
        render([i[1] for i in chain[-1]], dict(data), chain, None, 0)
        return ("out", "".join(out))
    except _Raise as e:
        return ("err", e.cls)
    except _Diverge:
        return ("diverge",)


def chain_len(c) -> int:
    n, cur, seen = 0, c["leaf"], set()
    while cur in c["loader"] and cur not in seen:
        seen.add(cur)
        n += 1
        ext = [i[1] for i in c["loader"][cur] if i[0] == "extends"]
        if not ext:
            break
        cur = ext[0]
    return n


def verdict(c, s, a):
    """None when the implementation agrees with the documentation, else (signature, text)."""
    if s != a:
        return ("sync-async:" + c["tag"], f"sync {s} but async {a}")
    want = reference(c) if c["judge"] else None
    if want is None:
        return None
    if want == ("diverge",):
        # blocks that render each other without end: only a resource limit may stop that
        return None if s == ("err", "EContextDepth") else ("diverge:" + c["tag"], f"endless block recursion gave {s}")
    if s == ("err", "EContextDepth"):
        return None                                              # a resource limit aborted the render (model decides)
    if s == want:
        return None
    t = c["loader"].get(c["leaf"], [])
    if (want == ("err", "EInherit") and s != want and not any(i[0] == "extends" for i in t)
            and all(b[3] is None or b[3] == b[1] for b in _tblocks(t))):
        return ("standalone-duplicate-block", f"duplicate block names in a template without extends: {s}, documented: rejected")
    return (f"resolve:len{chain_len(c)}:want-{want[0] if want[0] == 'out' else want[1]}:got-{s[0] if s[0] == 'out' else s[1]}",
            f"implementation {s}, documented {want}")


# -------------------------------------------------------------------------------------------------- generators
def T(s):
    return ("text", s)


def shape(name: str, k: int, lvl: int, other: str):
    """The k-th way template `lvl` may define block `name` (None = it does not)."""
    t = name.upper() + str(lvl)
    if k == 0:
        return None
    if k == 1:
        return ("block", name, False, None, [T(t)])
    if k == 2:
        return ("block", name, False, name, [T(t), ("super",), T(".")])
    if k == 3:
        return ("block", name, True, None, [T(t)])
    if k == 4:
        return ("block", name, False, None,
                [("for", "i", 1, 2, [("var", "i"), ("superup",) if lvl % 2 else ("super",)]), ("var", "g"), T(t.lower())])
    # 5: the other block nested inside
    return ("block", name, False, None,
            [T(t), ("block", other, False, None, [T(other + str(lvl)), ("super",)]), T(";")])


def shaped_case(combo, post_junk: bool, tag: str):
    """combo: per level (leaf first) a pair (shape of a, shape of b)."""
    n = len(combo)
    names = ["leaf", "p1", "p2", "p3"][: n - 1] + ["root"] if n > 1 else ["leaf"]
    loader = {}
    for lvl, (ka, kb) in enumerate(combo):
        items = []
        if lvl < n - 1:
            items.append(("extends", names[lvl + 1]))
            if post_junk:
                items.append(("node", T("JUNK")))
        else:
            items.append(("node", T("[")))
        for nm, k, other in (("a", ka, "b"), ("b", kb, "a")):
            sh = shape(nm, k, lvl, other)
            if sh is not None:
                items.append(("node", sh))
            if lvl == n - 1:
                items.append(("node", T("|")))
        if lvl == n - 1:
            items.append(("node", T("]")))
        loader[names[lvl]] = items
    return {"limit": 30, "loader": loader, "leaf": names[0], "data": {"g": 7}, "judge": True, "tag": tag}


def gen_shaped(ck: Check):
    sa, sb = range(6), range(5)
    per = list(itertools.product(sa, sb))
    for combo in itertools.product(per, repeat=1):
        yield shaped_case(combo, False, "shape1")
    for combo in itertools.product(per, repeat=2):
        yield shaped_case(combo, ck.rng.random() < 0.5, "shape2")
    if ck.quick:
        small = list(itertools.product(range(6), range(3)))
        for combo in itertools.product(small, repeat=3):
            if ck.rng.random() < 0.6:
                yield shaped_case(combo, ck.rng.random() < 0.5, "shape3")
    else:
        for combo in itertools.product(per, repeat=3):
            yield shaped_case(combo, ck.rng.random() < 0.5, "shape3")
        for _ in range(12000):
            yield shaped_case([ck.rng.choice(per) for _ in range(4)], ck.rng.random() < 0.5, "shape4")


def gen_random(ck: Check, count: int, maxlen: int):
    rng = ck.rng
    names = ["a", "b", "c"]

    def body(depth, inblock, loopvars, lvl, lexical, counter):
        out = []
        for _ in range(rng.randrange(1, 4)):
            r = rng.random()
            if r < 0.05:
                out.append(T(rng.choice([" ", "\n ", "  "])))
            elif r < 0.25:
                counter[0] += 1
                out.append(T(f"t{lvl}{counter[0]}"))
            elif r < 0.37:
                pool = ["g", "h"] + (loopvars if lexical else ["i1", "i2", "i3"])
                out.append(("var", rng.choice(pool)))
            elif r < 0.55 and inblock:
                out.append(("super",) if rng.random() < 0.8 else ("superup",))
            elif r < 0.85 and depth < 3:
                nm = rng.choice(names)
                end = None if rng.random() < 0.6 else (nm if rng.random() < 0.93 else rng.choice(names))
                out.append(("block", nm, rng.random() < 0.12, end,
                            body(depth + 1, True, loopvars, lvl, lexical, counter)))
            elif depth < 3:
                x = f"i{len(loopvars) + 1}" if not lexical else f"j{lvl}{len(loopvars) + 1}"
                hi = rng.choice([0, 1, 2, 2, 3])
                out.append(("for", x, 1, hi, body(depth + 1, inblock, loopvars + [x], lvl, lexical, counter)))
        return out

    def dedupe(nodes, used):
        """Mostly keep block names unique inside one template (duplicates stay with small probability)."""
        res = []
        for n in nodes:
            if n[0] == "block":
                if n[1] in used and rng.random() < 0.9:
                    continue
                used.add(n[1])
                res.append(("block", n[1], n[2], n[3], dedupe(n[4], used)))
            elif n[0] == "for":
                res.append(("for", n[1], n[2], n[3], dedupe(n[4], used)))
            else:
                res.append(n)
        return res

    for _ in range(count):
        n = rng.randrange(1, maxlen + 1)
        tn = ["leaf", "p1", "p2", "p3"][: n - 1] + ["root"] if n > 1 else ["leaf"]
        lexical = rng.random() < 0.8
        loader = {}
        for lvl in range(n):
            counter = [0]
            nodes = dedupe(body(1, False, [], lvl, lexical, counter), set())
            items = [("node", m) for m in nodes]
            if lvl < n - 1:
                parent = tn[lvl + 1]
                r = rng.random()
                if r < 0.04:
                    parent = rng.choice(tn)                        # a cycle, or a shortcut
                elif r < 0.06:
                    parent = "missing"
                pos = 0 if rng.random() < 0.8 else rng.randrange(0, len(items) + 1)
                items.insert(pos, ("extends", parent))
                if rng.random() < 0.02:
                    items.append(("extends", parent))              # too many extends tags
            loader[tn[lvl]] = items
        limit = 30 if rng.random() < 0.85 else rng.randrange(3, 10)
        data = {k: v for k, v in (("g", 7), ("h", 8)) if rng.random() < 0.7}
        yield {"limit": limit, "loader": loader, "leaf": tn[0], "data": data, "judge": lexical, "tag": f"random{n}",
               "suppress": rng.random() < 0.9}


def gen_probes(ck: Check):
    """Depth guards at their thresholds, variable visibility in block.super, recursion between blocks."""
    def nest(kind, n, inner):
        for k in range(n):
            inner = [("for", f"v{k}", 1, 1, inner)] if kind == "for" else [("block", "abcdefgh"[k], False, None, inner)]
        return inner

    for limit in range(3, 10):
        for n in range(0, 6):
            for kind in ("for", "block"):
                yield {"limit": limit, "loader": {"leaf": [("node", m) for m in nest(kind, n, [T("x")])]},
                       "leaf": "leaf", "data": {}, "judge": True, "tag": "limit-standalone"}
                yield {"limit": limit, "loader": {"leaf": [("extends", "root")],
                                                  "root": [("node", m) for m in nest(kind, n, [T("x")])]},
                       "leaf": "leaf", "data": {}, "judge": True, "tag": "limit-chain"}
            # a chain of n+1 templates, each calling block.super (inside a loop in every second one)
            loader = {}
            for k in range(n + 1):
                inner = [T(f"s{k}"), ("super",)]
                if k % 2:
                    inner = [("for", "w", 1, 1, inner)]
                items = [("node", ("block", "a", False, None, inner))]
                if k < n:
                    items.insert(0, ("extends", f"t{k + 1}"))
                loader[f"t{k}"] = items
            yield {"limit": limit, "loader": loader, "leaf": "t0", "data": {}, "judge": True, "tag": "limit-super"}
    # variables seen by a parent definition rendered through block.super
    for leafbody, midbody in itertools.product(
            ([("super",)], [("for", "i", 1, 2, [T("<"), ("super",), T(">")])], [("var", "i"), ("super",)]), repeat=2):
        for datai in ({}, {"i": 9}):
            yield {"limit": 30, "leaf": "leaf", "data": datai, "judge": False, "tag": "scope",
                   "loader": {"leaf": [("extends", "mid"), ("node", ("block", "a", False, None, leafbody))],
                              "mid": [("extends", "root"), ("node", ("block", "a", False, None, midbody))],
                              "root": [("node", ("for", "i", 5, 6, [("block", "a", False, None, [T("i="), ("var", "i")])]))]}}
    # blocks that render each other: unbounded copy depth, and bounded copy depth with growing scope
    yield {"limit": 30, "leaf": "leaf", "data": {}, "judge": True, "tag": "recursion",
           "loader": {"leaf": [("extends", "root"), ("node", ("block", "b", False, None, [("block", "a", False, None, [T("["), ("super",), T("]")])]))],
                      "root": [("node", ("block", "a", False, None, [("block", "b", False, None, [])]))]}}
    yield {"limit": 30, "leaf": "leaf", "data": {}, "judge": True, "tag": "recursion",
           "loader": {"leaf": [("extends", "mid"), ("node", ("block", "x", False, None, [("super",)]))],
                      "mid": [("extends", "root"), ("node", ("block", "x", False, None, [("block", "m", False, None, [("super",)])]))],
                      "root": [("node", ("block", "m", False, None, [("block", "x", False, None, [])]))]}}
    # cycles of every length up to 4, entered at every position
    for n in range(1, 5):
        for back in range(n):
            loader = {f"c{k}": [("extends", f"c{k + 1}" if k + 1 < n else f"c{back}"), ("node", ("block", "a", False, None, [T("x")]))]
                      for k in range(n)}
            yield {"limit": 30, "leaf": "c0", "loader": loader, "data": {}, "judge": True, "tag": "cycle"}


def gen_placeholders(ck: Check):
    """Placeholder blocks: a parent defines a block with an EMPTY (or whitespace-only) default as the only content of a
    loop, of an outer block, or on its own, and a descendant overrides it -- the override must be rendered."""
    def holders(body):
        inner = ("block", "a", False, None, body)
        yield [inner]
        yield [("for", "i", 1, 2, [inner])]
        yield [("block", "o", False, None, [inner])]
        yield [("block", "o", False, None, [("for", "i", 1, 1, [inner])])]
        yield [T("<"), ("for", "i", 1, 2, [inner]), T(">")]
        yield [("block", "a", True, None, body)]
        yield [("for", "i", 1, 1, [("block", "a", True, None, body)])]
    overrides = ([T("X")], [T("X"), ("super",)], [("var", "g")], [("for", "j", 1, 2, [T("y")])], [])
    # whitespace-only defaults: by the engine-wide blank-body rule they give no output, also through block.super
    for body in ([], [T(" ")], [T("\n  ")]):
        for hold in holders(body):
            for ov in overrides:
                leaf = [("extends", "root"), ("node", ("block", "a", False, None, ov))]
                yield {"limit": 30, "leaf": "leaf", "data": {"g": 7}, "judge": True, "tag": "placeholder2",
                       "loader": {"leaf": leaf, "root": [("node", T("["))] + [("node", m) for m in hold] + [("node", T("]"))]}}
                yield {"limit": 30, "leaf": "leaf", "data": {"g": 7}, "judge": True, "tag": "placeholder3",
                       "loader": {"leaf": leaf, "root": [("extends", "base")],
                                  "base": [("node", T("["))] + [("node", m) for m in hold] + [("node", T("]"))]}}
                # the placeholder in the middle template, the text default in the base
                yield {"limit": 30, "leaf": "leaf", "data": {"g": 7}, "judge": True, "tag": "placeholder-mid",
                       "loader": {"leaf": leaf, "root": [("extends", "base"), ("node", ("block", "a", False, None, body))],
                                  "base": [("node", T("["))] + [("node", m) for m in hold] + [("node", T("]"))]}}


def gen_blank(ck: Check):
    """The blank-body rule around inheritance: whitespace-only bodies reached through block tags, through block.super and
    in loops, next to block tags, with suppress_blank_control_flow_blocks on and off."""
    ws = (T(" "), T("\n "), T("\t"))
    bodies = ([], [ws[0]], [ws[1], ws[2]], [ws[0], T("x")], [("for", "k", 1, 2, [ws[0]])], [("for", "k", 1, 2, [ws[0], ("var", "g")])],
              [ws[0], ("super",)], [("super",)], [("for", "k", 1, 2, [("super",)])], [ws[0], ("block", "n", False, None, [ws[0]])])
    for suppress in (True, False):
        for leafbody, rootbody in itertools.product(bodies, repeat=2):
            leaf = [("extends", "root"), ("node", ws[0]), ("node", ("block", "a", False, None, leafbody))]
            for hold in ([("block", "a", False, None, rootbody)],
                         [("for", "i", 1, 2, [ws[0], ("block", "a", False, None, rootbody)])],
                         [("for", "i", 1, 2, [("block", "a", False, None, rootbody)]), ws[1]]):
                yield {"limit": 30, "leaf": "leaf", "data": {"g": 7}, "judge": True, "tag": "blank2", "suppress": suppress,
                       "loader": {"leaf": leaf, "root": [("node", T("[")), ("node", ws[0])] + [("node", m) for m in hold] + [("node", T("]"))]}}
        for b1, b2, b3 in itertools.product(bodies[:8], repeat=3):
            if ck.quick and ck.rng.random() < 0.5:
                continue
            yield {"limit": 30, "leaf": "leaf", "data": {"g": 7}, "judge": True, "tag": "blank3", "suppress": suppress,
                   "loader": {"leaf": [("extends", "mid"), ("node", ("block", "a", False, None, b1))],
                              "mid": [("extends", "root"), ("node", ("block", "a", False, None, b2))],
                              "root": [("node", T("[")), ("node", ("for", "i", 1, 2, [("block", "a", False, None, b3)])), ("node", T("]"))]}}
        for b in bodies:
            yield {"limit": 30, "leaf": "leaf", "data": {"g": 7}, "judge": True, "tag": "blank1", "suppress": suppress,
                   "loader": {"leaf": [("node", ws[0]), ("node", ("block", "a", False, None, b))]
                                      + ([] if list(_blocks(b)) else [("node", ("for", "i", 1, 2, b))]) + [("node", ws[1]), ("node", T("."))]}}


# --------------------------------------------------------------------------------------------------------- run
def _depth(s):
    return ("err", "EContextDepth") if s == ("err", "ERecursionError") else s


def _obs(s) -> str:
    return f"Ok {g_str(s[1])}" if s[0] == "out" else f"Err {s[1]}"


SEQ_SOURCES = {
    "base": "<{% block t %}untitled{% endblock %}:{% block b %}-{% endblock %}>",
    "child": "{% extends 'base' %}{% block t %}FANCY{% endblock %}{% block b %}{{ block.super }}fancy body{% endblock %}",
    "child2": "{% extends 'base' %}{% block b %}two{% endblock %}",
    "grand": "{% extends 'child' %}{% block t %}G{{ block.super }}{% endblock %}",
    "reqbase": "({% block r required %}{% endblock %})",
    "reqchild": "{% extends 'reqbase' %}{% block r %}R{% endblock %}",
}


def sequence_family(ck: Check) -> None:
    """Several inheritance chains resolved one after the other in ONE render context (include / render of templates that extend):
    each is resolved on its own -- the block definitions of a finished chain do not reach the next template, whether that is another
    chain over the same base or the base itself rendered directly (oracle only: the main template prints what its pieces print when
    each is the template being rendered; the first piece that raises decides the error)."""
    names = ["base", "child", "child2", "grand", "reqbase", "reqchild"]
    alone = {n: run_impl(30, SEQ_SOURCES, n, {}, False) for n in names}
    for tag in ("include", "render"):
        for k in (2, 3):
            for seq in itertools.permutations(names, k):
                if k == 3 and ck.quick and ("reqbase" in seq and "reqchild" in seq):
                    continue
                main = "".join("{% " + tag + " '" + n + "' %}|" for n in seq)
                sources = dict(SEQ_SOURCES, main=main)
                exp = next((alone[n] for n in seq if alone[n][0] == "err"), None) or ("out", "".join(alone[n][1] + "|" for n in seq))
                s = _depth(run_impl(30, sources, "main", {}, False))
                x = _depth(run_impl(30, sources, "main", {}, True))
                ck.note_case(("sequence", tag, seq), nontrivial=True)
                ck.count("sequence." + ("raised" if s[0] == "err" else "completed"))
                ck.traces += 2
                if (s != exp or x != exp) and sum(1 for v in ck.violations if v.signature.startswith("c18-chains-in-sequence")) < 4:
                    ck.violation("impl-violation", f"c18-chains-in-sequence:{tag}",
                                 f"{main!r} over {SEQ_SOURCES}: sync {s}, async {x}; each piece on its own gives {[alone[n] for n in seq]}, "
                                 f"so the whole must give {exp}",
                                 {"type": "render", "limit": 30, "sources": sources, "leaf": "main", "data": {}, "reference": list(exp)})


def run(ck: Check) -> None:
    ck.rule = (
        "exhaustive shapes: chains of 1, 2, 3 (thorough: 3 in full, 4 sampled) templates, each defining blocks a and b in one of "
        "6x5 ways (absent, plain, with block.super and endblock name, required, loop+variable+super, the other block nested inside "
        "with super), junk after the extends tag; seeded random chains of 1..3 (thorough 1..4) templates over block names {a,b,c}, "
        "nesting <= 2, loops, variables, super at any depth, required flags, endblock names (matching and not), duplicate names, "
        "content before the extends tag, cycles, missing parents, two extends tags, depth limit 30 or 3..9; probes: depth guards at "
        "their thresholds, variable visibility in super, mutually recursive blocks, cycles of length 1..4; placeholders: empty and "
        "whitespace-only defaults alone in a loop / an outer block / on their own, overridden by a descendant; blank bodies: 10 "
        "whitespace/loop/super bodies as leaf, middle and root definition of a block inside and outside loops, with "
        "suppress_blank_control_flow_blocks on and off. Every case rendered sync "
        "and async. Non-trivial = a block tag was reached in a chain of >= 2 templates, or an inheritance error was raised."
    )
    ck.exhaustive = True
    ck.trusted_base = [
        "Coq 8.16.1 kernel + vm_compute",
        "harness: generators, source and Gallina printers, reference resolver (props/c18.py)",
        "modelled not verified: DictLoader/get_template, the parser for the generated subset, RenderContext.extend/copy depth "
        "guards, ReadOnlyChainMap lookup order, StringIO buffers",
    ]
    ck.assumptions = [
        "extends tags only at the top level of a template; values are integers; default Undefined; STRICT mode; no autoescape",
        "blankness (Node.blank) is modelled for text, output, for and block nodes only; str.isspace is a modelled primitive",
        "no loop-iteration / output-stream / local-namespace limits configured; loop variables are not called `block`",
        "endless mutual recursion between blocks: RecursionError from the Python stack is read as the depth guard (C02/C09 own that escape)",
    ]
    ck.proof()
    sequence_family(ck)

    n_random = 1500 if ck.quick else 15000
    cases = itertools.chain(gen_probes(ck), gen_placeholders(ck), gen_blank(ck), gen_shaped(ck), gen_random(ck, n_random, 3 if ck.quick else 4))
    gcases, expected, meta = [], [], []
    explained = set()
    nviol = 0
    for c in cases:
        src = sources_of(c)
        sup = c.get("suppress", True)
        s = run_impl(c["limit"], src, c["leaf"], c["data"], False, sup)
        a = run_impl(c["limit"], src, c["leaf"], c["data"], True, sup)
        # Blocks that render each other without end: the interpreter stack may run out before the depth guard fires
        # (about 70 Python frames per block+super round).  That escape of RecursionError belongs to C02/C09; here both
        # count as "aborted by depth", and the model must then predict the depth guard.
        if ("err", "ERecursionError") in (s, a):
            ck.count("recursion-error-before-depth-guard")
            s, a = _depth(s), _depth(a)
        n = chain_len(c)
        nontrivial = (n >= 2 and any("block" in v for v in src.values())) or s in (("err", "EInherit"), ("err", "ERequiredBlock"))
        ck.note_case((c["limit"], c.get("suppress", True), sorted(src.items()), c["leaf"], sorted(c["data"].items())), nontrivial=nontrivial)
        ck.count(f"{c['tag']}.{s[0] if s[0] == 'out' else s[1]}")
        ck.count(f"chain-length.{n}")
        v = verdict(c, s, a)
        idx = len(gcases)
        if v is not None:
            explained.add(idx)
            if nviol < 40:
                nviol += 1
                ck.violation("impl-violation", v[0], f"{src!r} leaf {c['leaf']!r} data {c['data']!r} limit {c['limit']}: {v[1]}",
                             {"type": "render", "limit": c["limit"], "suppress": c.get("suppress", True), "sources": src, "leaf": c["leaf"], "data": c["data"],
                              "sync": s, "async": a, "reference": reference(c) if c["judge"] else None})
        if len(ck.samples) < 4 and n >= 2 and s[0] == "out" and "block.super" in "".join(src.values()) and c["tag"].startswith("random"):
            ck.sample({"templates": src, "leaf": c["leaf"], "data": c["data"], "output": s[1]})
        gcases.append(g_case(c))
        expected.append(_obs(s))
        meta.append((c, src, s))
    ck.traces += 2 * len(gcases)
    mm = ck.coq_mismatches("inherit", IMPORTS, "run_inherit", "res_str_eqb", "icase", "res str", gcases, expected, chunk=400)
    ck.extra["model_mismatches_total"] = len(mm)
    ck.extra["model_mismatches_on_documented_violations"] = len([i for i in mm if i in explained])
    shown = 0
    for i in mm:
        if i in explained or shown >= 3:
            continue
        shown += 1
        c, src, s = meta[i]
        model = ck.coq_eval(IMPORTS, [f"run_inherit ({gcases[i]})"])[0]
        ck.violation("correspondence", "c18-inherit-correspondence",
                     f"model Inherit.run_inherit and the implementation disagree on {src!r} (leaf {c['leaf']!r}, data {c['data']!r}, "
                     f"limit {c['limit']}): implementation {s}, model {model}",
                     {"type": "render", "limit": c["limit"], "suppress": c.get("suppress", True), "sources": src, "leaf": c["leaf"], "data": c["data"], "impl": s,
                      "model": model, "broken": "correspondence Inherit.run_inherit ~ extends/block rendering "
                      "(theorems C18_most_derived, C18_override_rendered_through_placeholders, C18_standalone_partial)"}, no_input=True)


def replay(data) -> int:
    case = data["case"]
    if case.get("type") != "render":
        print("replay names a proof/correspondence obligation:", case)
        return 1
    sup = case.get("suppress", True)
    s = _depth(run_impl(case["limit"], case["sources"], case["leaf"], case["data"], False, sup))
    a = _depth(run_impl(case["limit"], case["sources"], case["leaf"], case["data"], True, sup))
    print("templates:", case["sources"], "leaf:", case["leaf"], "data:", case["data"], "limit:", case["limit"])
    print("sync :", s)
    print("async:", a)
    if data.get("kind") == "correspondence":
        print("model:", case.get("model"))
        bad = list(s) != list(case.get("impl"))
        bad = not bad  # the disagreement stands as long as the implementation still behaves as recorded
    else:
        ref = case.get("reference")
        print("documented:", ref)
        ref = tuple(ref) if ref else None
        depth = ("err", "EContextDepth")
        if s != a:
            bad = True
        elif ref is None:
            bad = False
        elif ref == ("diverge",):
            bad = s != depth
        else:
            bad = s != depth and s != ref           # a resource limit aborting the render is not a violation
    print(("VIOLATION reproduced" if bad else "not reproduced") + f" property={data['property']}")
    return 1 if bad else 0
