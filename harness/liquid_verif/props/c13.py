"""C13 — Loops visit exactly the documented items."""

from __future__ import annotations

import itertools

from ..core import Check, classify_exc, run_async
from ..g import g_N, g_Z, g_list, g_bool, g_str, g_opt

IMPORTS = "PyPrims LoopSlice"
HUGE = 10**12


# ----------------------------------------------------------------- case language
# body  := ('print',) | ('parent',) | ('breakat', k) | ('contat', k) | ('text', s)
#        | ('for', loop, body, els) | ('tablerow', loop, cols, body)
# loop  := {'it': name, 'limit': arg|None, 'offset': None|'continue'|arg, 'rev': bool}
# arg   := (kind, z, 'lit'|'var')  kind in int|strint|nil|strbad
# iterables live in a pool: name -> ('list', [ints]) | ('range', a, b) | ('str', s) | ('dict', [(k, v)]) | ('other',)


class Case:
    def __init__(self, pool, body):
        self.pool = pool
        self.body = body

    def canonical(self):
        return (sorted(self.pool.items()), self.body)


def arg_liquid(a, data, counter):
    kind, z, how = a
    if kind == "int":
        val, lit = z, str(z)
    elif kind == "strint":
        val, lit = str(z), f"'{z}'"
    elif kind == "nil":
        val, lit = None, "nil"
    else:
        val, lit = "abc", "'abc'"
    if how == "lit":
        return lit
    name = f"v{counter[0]}"
    counter[0] += 1
    data[name] = val
    return name


def it_text(name, pool):
    v = pool[name]
    if v[0] == "range":
        return f"({v[1]}..{v[2]})"
    return name


def to_liquid(case: Case):
    data = {}
    for name, v in case.pool.items():
        if v[0] == "list":
            data[name] = list(v[1])
        elif v[0] == "str":
            data[name] = v[1]
        elif v[0] == "dict":
            data[name] = dict(v[1])
        elif v[0] == "other":
            data[name] = 7
    counter = [0]

    def loop_expr(loop, var, table_cols=None):
        s = f"{var} in {it_text(loop['it'], case.pool)}"
        if loop["limit"] is not None:
            s += f" limit:{arg_liquid(loop['limit'], data, counter)}"
        if loop["offset"] == "continue":
            s += " offset:continue"
        elif loop["offset"] is not None:
            s += f" offset:{arg_liquid(loop['offset'], data, counter)}"
        if table_cols is not None:
            s += f" cols:{arg_liquid(table_cols, data, counter)}"
        if loop["rev"]:
            s += " reversed"
        return s

    def item_text(var, loop):
        if case.pool[loop["it"]][0] == "dict":
            return f"{{{{ {var}[0] }}}}={{{{ {var}[1] }}}}"
        return f"{{{{ {var} }}}}"

    def go(bs, depth, inner):
        out = []
        for b in bs:
            k = b[0]
            if k == "text":
                out.append(b[1])
            elif k == "print":
                var, loop, kind = inner
                drop = "forloop" if kind == "for" else "tablerowloop"
                s = item_text(var, loop) + ":" + ":".join(
                    f"{{{{ {drop}.{h} }}}}" for h in ("index", "index0", "rindex", "rindex0", "first", "last", "length")
                ) + ";"
                if kind == "tablerow":
                    s += ":".join(f"{{{{ tablerowloop.{h} }}}}" for h in ("col", "col0", "col_first", "col_last", "row")) + ";"
                out.append(s)
            elif k == "parent":
                out.append("{{ forloop.parentloop.index }}")
            elif k in ("breakat", "contat"):
                drop = "forloop" if inner[2] == "for" else "tablerowloop"
                tag = "break" if k == "breakat" else "continue"
                out.append(f"{{% if {drop}.index == {b[1]} %}}{{% {tag} %}}{{% endif %}}")
            elif k == "for":
                var = f"x{depth}"
                s = f"{{% for {loop_expr(b[1], var)} %}}" + go(b[2], depth + 1, (var, b[1], "for"))
                if b[3] is not None:
                    s += "{% else %}" + go(b[3], depth, inner)
                out.append(s + "{% endfor %}")
            elif k == "tablerow":
                var = f"x{depth}"
                out.append(f"{{% tablerow {loop_expr(b[1], var, b[2])} %}}" + go(b[3], depth + 1, (var, b[1], "tablerow"))
                           + "{% endtablerow %}")
        return "".join(out)

    return go(case.body, 0, None), data


# ------------------------------------------------------------------ Gallina text
def g_arg(a):
    kind, z, _ = a
    return {"int": f"AInt {g_Z(z)}", "strint": f"AStrInt {g_Z(z)}", "nil": "ANil", "strbad": "AStrBad"}[kind]


def g_iter(v):
    if v[0] == "list":
        return f"ItList {g_list(g_Z(x) for x in v[1])}"
    if v[0] == "range":
        return f"ItRange {g_Z(v[1])} {g_Z(v[2])}"
    if v[0] == "str":
        return f"ItStr {g_str(v[1])}"
    if v[0] == "dict":
        return f"ItDict {g_list(f'({g_str(k)}, {g_Z(x)})' for k, x in v[1])}"
    return "ItOther"


def to_gallina(case: Case):
    keys = {}

    def key(var, loop):
        t = f"{var}-{it_text(loop['it'], case.pool)}"
        return keys.setdefault(t, len(keys))

    def g_loop(loop, var):
        off = loop["offset"]
        goff = "OffNone" if off is None else ("OffContinue" if off == "continue" else f"OffArg ({g_arg(off)})")
        return (f"{{| lkey := {g_N(key(var, loop))}; liter := {g_iter(case.pool[loop['it']])}; "
                f"llimit := {g_opt(loop['limit'], lambda a: '(' + g_arg(a) + ')')}; loffset := {goff}; "
                f"lrev := {g_bool(loop['rev'])} |}}")

    def go(bs, depth):
        out = []
        for b in bs:
            k = b[0]
            if k == "text":
                out.append(f"BText {g_str(b[1])}")
            elif k == "print":
                out.append("BPrint")
            elif k == "parent":
                out.append("BParent")
            elif k == "breakat":
                out.append(f"BBreakAt {g_Z(b[1])}")
            elif k == "contat":
                out.append(f"BContinueAt {g_Z(b[1])}")
            elif k == "for":
                els = go(b[3], depth) if b[3] is not None else "[]"
                out.append(f"BFor ({g_loop(b[1], f'x{depth}')}) {go(b[2], depth + 1)} {els}")
            elif k == "tablerow":
                out.append(f"BTablerow ({g_loop(b[1], f'x{depth}')}) {g_opt(b[2], lambda a: '(' + g_arg(a) + ')')} "
                           f"{go(b[3], depth + 1)}")
        return g_list(out)

    return go(case.body, 0)


# --------------------------------------------------------- implementation runner
_ENV = None


def env():
    global _ENV
    if _ENV is None:
        from liquid import Environment

        _ENV = Environment()
    return _ENV


def run_impl(src, data, use_async=False):
    try:
        t = env().from_string(src)
        if use_async:
            return ("out", run_async(t.render_async(**data)))
        return ("out", t.render(**data))
    except Exception as e:  # noqa: BLE001
        return ("err", classify_exc(e))


def g_obs(o):
    if o[0] == "out":
        return f"OOut {g_str(o[1])}"
    return f"OErr {o[1]}"


# ----------------------------------------- reference semantics (independent oracle)
def ref_arg(a):
    kind, z, _ = a
    if kind in ("int", "strint"):
        return z
    raise RefError("liquid")


class RefError(Exception):
    pass


def ref_items(v):
    if v[0] == "list":
        return [str(x) for x in v[1]]
    if v[0] == "range":
        return [str(x) for x in range(v[1], v[2] + 1)]
    if v[0] == "str":
        return [v[1]] if v[1] else []
    if v[0] == "dict":
        return [f"{k}={x}" for k, x in v[1]]
    return []


def b2s(b):
    return "true" if b else "false"


def ref_render(case: Case):
    """Reference: the documented (Shopify) loop semantics, written without looking at liquid's arithmetic."""
    stored = {}

    def select(loop, var):
        items = ref_items(case.pool[loop["it"]])
        key = f"{var}-{it_text(loop['it'], case.pool)}"
        limit = None if loop["limit"] is None else ref_arg(loop["limit"])
        if loop["offset"] == "continue":
            frm = stored.get(key, 0)
        elif loop["offset"] is None:
            frm = 0
        else:
            frm = ref_arg(loop["offset"])
        to = None if limit is None else frm + limit
        seg = [x for i, x in enumerate(items) if frm <= i and (to is None or i < to)]
        stored[key] = len(items) if to is None else min(max(to, 0), len(items))
        if loop["rev"]:
            seg.reverse()
        return seg

    class Brk(Exception):
        pass

    class Cont(Exception):
        pass

    out = []  # output is written as rendering goes, so an interrupt keeps what was written before it

    def go(bs, depth, frames):
        for b in bs:
            k = b[0]
            if k == "text":
                out.append(b[1])
            elif k == "print":
                f = frames[-1]
                i, n = f["i"], f["n"]
                out.append(f"{f['item']}:{i + 1}:{i}:{n - i}:{n - i - 1}:{b2s(i == 0)}:{b2s(i == n - 1)}:{n};")
                if f["kind"] == "tablerow":
                    c, col, row = f["cols"], f["col"], f["row"]
                    out.append(f"{col}:{col - 1}:{b2s(col == 1)}:{b2s(col == c)}:{row};")
            elif k == "parent":
                ps = [f for f in frames[:-1] if f["kind"] == "for"]
                out.append(str(ps[-1]["i"] + 1) if ps else "")
            elif k == "breakat":
                if frames[-1]["i"] + 1 == b[1]:
                    raise Brk
            elif k == "contat":
                if frames[-1]["i"] + 1 == b[1]:
                    raise Cont
            elif k == "for":
                seg = select(b[1], f"x{depth}")
                if not seg:
                    if b[3] is not None:
                        go(b[3], depth, frames)  # an interrupt in the else block belongs to the enclosing loop
                    continue
                for i, item in enumerate(seg):
                    fr = {"kind": "for", "item": item, "i": i, "n": len(seg)}
                    try:
                        go(b[2], depth + 1, frames + [fr])
                    except Brk:
                        break
                    except Cont:
                        continue
            elif k == "tablerow":
                seg = select(b[1], f"x{depth}")
                n = len(seg)
                if b[2] is None:
                    cols = n
                else:
                    kind = b[2][0]
                    if kind == "nil":
                        raise RefError("unspecified")
                    cols = 0 if kind == "strbad" else b[2][1]
                out.append('<tr class="row1">\n')
                ecol, erow = 0, 1
                for i, item in enumerate(seg):
                    # cols <= 0 has no documented structure: follow the engine's counter there
                    ecol, erow = (1, erow + 1) if ecol == cols else (ecol + 1, erow)
                    if cols > 0:
                        col, row = i % cols + 1, i // cols + 1      # documented row/column structure
                    else:
                        col, row = ecol, erow
                    fr = {"kind": "tablerow", "item": item, "i": i, "n": n, "cols": cols, "col": col, "row": row}
                    out.append(f'<td class="col{col}">')
                    brk = False
                    try:
                        go(b[3], depth + 1, frames + [fr])
                    except Brk:
                        brk = True
                    except Cont:
                        pass
                    out.append("</td>")
                    if col == cols and i != n - 1:
                        out.append(f'</tr>\n<tr class="row{row + 1}">')
                    if brk:
                        break
                out.append("</tr>\n")

    try:
        go(case.body, 0, [])
        return ("out", "".join(out))
    except RefError as e:
        return ("err", str(e))
    except (Brk, Cont):
        return ("err", "unspecified")


def ref_ok(want, got):
    if want[0] == "out":
        return got == want
    if want[1] == "unspecified":
        return True
    return got[0] == "err" and got[1].startswith("E") and got[1] not in FOREIGN


FOREIGN = {"EValueError", "ETypeError", "EOverflowError", "EIndexError", "EKeyError", "EAssertionError",
           "EArithmeticError", "ERecursionError", "EUnicodeError", "EOSError", "ERuntimeError", "EOtherForeign"}


# ----------------------------------------------------------------------- generators
def args_for(z, variants):
    return [("int", z, h) for h in variants]


def gen_cases(ck: Check):
    maxlen = 4 if ck.quick else 8
    rng = ck.rng
    # 1. single loops, exhaustive over limit x offset x reversed for lists and ranges
    for n in range(0, maxlen + 1):
        vals = list(range(-3, n + 4)) + [HUGE]
        limits = [None] + [("int", z, "lit") for z in vals]
        offsets = [None, "continue"] + [("int", z, "lit") for z in vals]
        for kind in ("list", "range"):
            pool = {"a": ("list", list(range(11, 11 + n)))} if kind == "list" else {"a": ("range", 1, n)}
            for lim, off, rev in itertools.product(limits, offsets, (False, True)):
                if not ck.quick or n <= 3 or (lim is None or abs(lim[1]) < 3 or lim[1] in (n, HUGE)):
                    loop = {"it": "a", "limit": lim, "offset": off, "rev": rev}
                    yield "single", Case(pool, [("for", loop, [("print",)], [("text", "E")])])
    # 2. the same arguments given as variables and as numeric strings, nil and junk; other iterable kinds
    kinds = [("list", [5, 6, 7]), ("range", 2, 5), ("str", "hey"), ("str", ""), ("dict", [("k", 1), ("m", 2), ("n", 3)]),
             ("other",), ("list", [])]
    reps = [("int", 2, "var"), ("strint", 1, "lit"), ("strint", 2, "var"), ("strint", -1, "var"), ("nil", 0, "lit"),
            ("nil", 0, "var"), ("strbad", 0, "lit"), ("strbad", 0, "var"), ("int", 0, "var"), ("int", -2, "var")]
    for it in kinds:
        for lim in [None] + reps:
            for off in [None, "continue"] + reps:
                loop = {"it": "a", "limit": lim, "offset": off, "rev": rng.random() < 0.3}
                yield "argkinds", Case({"a": it}, [("for", loop, [("print",)], [("text", "E")])])
    # 3. chains of loops sharing an offset:continue key
    for n in range(0, 6 if ck.quick else 8):
        pool = {"a": ("list", list(range(1, n + 1)))}
        lims = [None, 0, 1, 2, 3] if ck.quick else [None, -1, 0, 1, 2, 3, 5]
        for l1, l2, l3 in itertools.product(lims, repeat=3):
            for first_off in (None, "continue", ("int", 1, "lit")):
                body = []
                for j, l in enumerate((l1, l2, l3)):
                    loop = {"it": "a", "limit": None if l is None else ("int", l, "lit"),
                            "offset": first_off if j == 0 else "continue", "rev": False}
                    body.append(("for", loop, [("print",)], [("text", "E")]))
                    body.append(("text", "|"))
                yield "chain", Case(pool, body)
    # 4. tablerow
    for n in range(0, 5 if ck.quick else 8):
        pool = {"a": ("list", list(range(1, n + 1)))}
        colss = [None] + [("int", c, "lit") for c in range(-1, n + 2)] + [("strint", 2, "var"), ("strbad", 0, "lit")]
        for cols in colss:
            for lim in (None, ("int", 2, "lit"), ("int", 0, "lit")):
                for off in (None, ("int", 1, "lit")):
                    loop = {"it": "a", "limit": lim, "offset": off, "rev": False}
                    yield "tablerow", Case(pool, [("tablerow", loop, cols, [("print",)])])
                    if n >= 2:
                        yield "tablerow", Case(pool, [("tablerow", loop, cols, [("print",), ("breakat", 2), ("text", "z")])])
                        yield "tablerow", Case(pool, [("tablerow", loop, cols, [("contat", 2), ("print",)])])
    # 5. random nests (depth <= 3) with parentloop, break, continue, shared keys
    for _ in range(250 if ck.quick else 2500):
        yield "nest", gen_random_nest(rng)


def gen_random_nest(rng):
    pool = {"a": ("list", list(range(1, rng.randrange(0, 6)))), "b": ("range", 1, rng.randrange(0, 5)),
            "c": ("dict", [("p", 1), ("q", 2)][: rng.randrange(0, 3)]), "d": ("str", rng.choice(["", "s"]))}

    def rarg():
        r = rng.random()
        if r < 0.75:
            return ("int", rng.randrange(-2, 6), rng.choice(["lit", "var"]))
        if r < 0.9:
            return ("strint", rng.randrange(0, 4), rng.choice(["lit", "var"]))
        return rng.choice([("nil", 0, "lit"), ("strbad", 0, "var")])

    def rloop():
        return {"it": rng.choice("aabbcd"), "limit": rarg() if rng.random() < 0.4 else None,
                "offset": (None if rng.random() < 0.5 else ("continue" if rng.random() < 0.5 else rarg())),
                "rev": rng.random() < 0.25}

    def rbody(depth, kind):
        out = []
        for _ in range(rng.randrange(1, 4)):
            r = rng.random()
            if r < 0.35:
                out.append(("print",))
            elif r < 0.45 and kind == "for":
                out.append(("parent",))
            elif r < 0.55:
                out.append(("breakat", rng.randrange(1, 4)))
            elif r < 0.65:
                out.append(("contat", rng.randrange(1, 4)))
            elif r < 0.75:
                out.append(("text", rng.choice(["-", "_", "t"])))
            elif depth < 3:
                out.append(rnode(depth))
        return out

    def rnode(depth):
        if rng.random() < 0.75:
            return ("for", rloop(), rbody(depth + 1, "for"),
                    [("text", "E")] if rng.random() < 0.6 else None)
        cols = None if rng.random() < 0.4 else rarg()
        if cols is not None and cols[0] == "nil":
            cols = ("int", 2, "lit")
        return ("tablerow", rloop(), cols, rbody(depth + 1, "tablerow"))

    return Case(pool, [rnode(0) for _ in range(rng.randrange(1, 4))])


def classify_violation(case: Case, want, got_sync, got_async):
    """A specific signature for known-finding matching."""
    if got_sync != got_async:
        return "sync-async-differ:" + repr(case.canonical())[:150]
    return "loop:" + repr(case.canonical())[:200]


def shrink_case(case: Case, bad):
    """Shrink the body list greedily (top-level elements, then nested bodies are left as they are)."""
    body = list(case.body)
    changed = True
    while changed and len(body) > 1:
        changed = False
        for i in range(len(body)):
            cand = Case(case.pool, body[:i] + body[i + 1:])
            if bad(cand):
                body = cand.body
                changed = True
                break
    return Case(case.pool, body)


def verdict(case: Case):
    src, data = to_liquid(case)
    s = run_impl(src, data, False)
    a = run_impl(src, data, True)
    want = ref_render(case)
    return src, data, s, a, want


def run(ck: Check) -> None:
    ck.rule = (
        "single for loops: collection length 0..4 (quick) / 0..8 x limit x offset in {absent, continue, -3..len+3, 10^12} x reversed, "
        "for lists and ranges (exhaustive); limit/offset as variables, numeric strings, nil, junk over list/range/string/dict/other; "
        "all chains of three loops sharing an offset:continue key; tablerow x cols in {absent,-1..len+1,'2','abc'} with break/continue; "
        "seeded random nests to depth 3 with parentloop/break/continue. Non-trivial = the loop construct visits >= 1 item or takes the "
        "else branch with a non-default limit/offset; distinct = distinct (pool, body)."
    )
    ck.trusted_base = [
        "Coq 8.16.1 kernel + vm_compute",
        "harness: generator, Liquid-source printer and Gallina printer of the loop mini-language (props/c13.py)",
        "modelled not verified: Python int()/islice/reversed, str() of ints and booleans, the template parser for the generated subset",
    ]
    ck.assumptions = ["collections are lists, dicts, ranges and strings of the listed shapes; drops and custom iterables are outside the model"]
    ck.proof()

    cases, expected, meta = [], [], []
    reported = 0
    for tag, case in gen_cases(ck):
        src, data, s, a, want = verdict(case)
        ck.count(f"gen.{tag}")
        ck.count(f"obs.{s[0] if s[0] == 'out' else s[1]}")
        nontrivial = s[0] == "out" and (":" in s[1] or "E" in s[1])
        ck.note_case(case.canonical(), nontrivial)
        if tag in ("chain", "nest", "tablerow") or ck.evaluations % 500 == 0:
            ck.sample({"template": src, "data": data, "output": s}, limit=5) if ck.evaluations % 97 == 0 else None
        bad = (s != a) or not ref_ok(want, s)
        if bad and reported < 400:
            reported += 1

            def still_bad(c):
                _, _, s2, a2, w2 = verdict(c)
                return s2 != a2 or not ref_ok(w2, s2)

            small = shrink_case(case, still_bad)
            src2, data2, s2, a2, w2 = verdict(small)
            ck.violation(
                "impl-violation", classify(small, w2, s2, a2),
                f"template {src2!r} data {data2!r}: sync={s2} async={a2} reference={w2}",
                {"type": "template", "template": src2, "data": data2, "sync": s2, "async": a2, "reference": w2},
            )
        if s[0] == "out" or s[1] != "EOtherForeign":
            cases.append(to_gallina(case))
            expected.append(g_obs(s))
            meta.append((case, src, data, s))
    if not ck.samples:
        ck.sample({"template": meta[len(meta) // 2][1], "data": meta[len(meta) // 2][2], "output": meta[len(meta) // 2][3]})
    ck.sample({"template": meta[-1][1], "data": meta[-1][2], "output": meta[-1][3]})
    mm = ck.coq_mismatches("c13", IMPORTS, "run_template", "obs_eqb", "list body", "obs", cases, expected, chunk=400)
    ck.traces += len(cases)
    shown = 0
    for i in mm:
        case, src, data, s = meta[i]
        want = ref_render(case)
        if not ref_ok(want, s):
            continue  # reported above with the failing input
        if shown >= 3:
            break
        shown += 1
        model = ck.coq_eval(IMPORTS, [f"run_template ({to_gallina(case)})"])[0]
        ck.violation(
            "correspondence", "c13-correspondence",
            f"model LoopSlice.run_template and the implementation disagree on {src!r} although the reference accepts the implementation",
            {"type": "template", "template": src, "data": data, "impl": s, "model": model,
             "broken": "correspondence LoopSlice.run_template ~ Environment.from_string(...).render (theorems C13_*)"},
            no_input=True,
        )


def classify(case, want, s, a):
    """Signature of a violation: the specific mechanism when it is one we know how to name."""
    if s != a:
        return "sync-async-differ"
    flat = repr(case.body)
    if s[0] == "err" and s[1] == "ETypeError" and "'nil'" in flat and "tablerow" in flat:
        return "tablerow-cols-nil-TypeError"
    return "loop:" + repr(case.canonical())[:200]


def replay(data) -> int:
    case = data["case"]
    if case.get("type") != "template":
        print("replay names a proof/correspondence obligation:", case)
        return 1
    s = run_impl(case["template"], case["data"], False)
    a = run_impl(case["template"], case["data"], True)
    print("template:", case["template"], "data:", case["data"])
    print("sync :", s)
    print("async:", a)
    print("reference:", case.get("reference"))
    want = tuple(case["reference"]) if case.get("reference") else None
    bad = s != a or (want is not None and not ref_ok(want, s))
    print(("VIOLATION reproduced" if bad else "not reproduced") + f" property={data['property']}")
    return 1 if bad else 0
