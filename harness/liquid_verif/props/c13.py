"""C13 — Loops visit exactly the documented items."""

from __future__ import annotations

import itertools

from ..core import Check, classify_exc, run_async
from ..g import g_N, g_Z, g_list, g_bool, g_str, g_opt

IMPORTS = "PyPrims LoopSlice"
HUGE = 10**12


# ----------------------------------------------------------------- case language
# body  := ('print',) | ('parent',) | ('breakat', k) | ('contat', k) | ('text', s)
#        | ('helper', up, name)     {{ forloop[.parentloop]*up.name }}
#        | ('include', body) | ('render', body)      the body becomes a partial template
#        | ('for', loop, body, els) | ('tablerow', loop, cols, body)
# loop  := {'it': name, 'limit': arg|None, 'offset': None|'continue'|arg, 'rev': bool}
# arg   := (kind, z, 'lit'|'var')  kind in int|strint|nil|strbad|strpad|strplus|strfrac|float|bool|inf|nan
#          (float: z = (m, e) meaning m / 10^e; strpad ' z ', strplus '+z' / '-z', strfrac 'z.5')
# iterables live in a pool: name -> ('list', [ints]) | ('range', a, b) | ('str', s) | ('dict', [(k, v)]) | ('other',)


class Case:
    def __init__(self, pool, body, strseq=False):
        self.pool = pool
        self.body = body
        self.strseq = strseq          # Environment.string_sequences

    def canonical(self):
        return (sorted(self.pool.items()), self.body, self.strseq)


def arg_liquid(a, data, counter):
    kind, z, how = a
    if kind == "int":
        val, lit = z, str(z)
    elif kind == "strint":
        val, lit = str(z), f"'{z}'"
    elif kind == "strpad":
        val, lit = f" {z}\t", f"' {z} '"
    elif kind == "strplus":
        val = lit = None
        val = f"{z:+d}"
        lit = f"'{z:+d}'"
    elif kind == "strfrac":
        val, lit = f"{z}.5", f"'{z}.5'"
    elif kind == "float":
        val = z[0] / 10 ** z[1]
        lit = repr(val)
    elif kind == "bool":
        val, lit = bool(z), ("true" if z else "false")
    elif kind == "inf":
        val, lit, how = float("inf") * (1 if z >= 0 else -1), None, "var"
    elif kind == "nan":
        val, lit, how = float("nan"), None, "var"
    elif kind == "nil":
        val, lit = None, "nil"
    else:
        val, lit = "abc", "'abc'"
    if how == "lit":
        return lit
    name = f"v{counter[0]}"
    counter[0] += 1
    data[name] = val
    return name


def it_text(name, pool):
    v = pool[name]
    if v[0] == "range":
        return f"({v[1]}..{v[2]})"
    return name


def to_liquid(case: Case):
    """(source, data, partials)"""
    data = {}
    partials = {}
    for name, v in case.pool.items():
        if v[0] == "list":
            data[name] = list(v[1])
        elif v[0] == "str":
            data[name] = v[1]
        elif v[0] == "dict":
            data[name] = dict(v[1])
        elif v[0] == "other":
            data[name] = 7
    counter = [0]

    def loop_expr(loop, var, table_cols=None):
        s = f"{var} in {it_text(loop['it'], case.pool)}"
        if loop["limit"] is not None:
            s += f" limit:{arg_liquid(loop['limit'], data, counter)}"
        if loop["offset"] == "continue":
            s += " offset:continue"
        elif loop["offset"] is not None:
            s += f" offset:{arg_liquid(loop['offset'], data, counter)}"
        if table_cols is not None:
            s += f" cols:{arg_liquid(table_cols, data, counter)}"
        if loop["rev"]:
            s += " reversed"
        return s

    def item_text(var, loop):
        if case.pool[loop["it"]][0] == "dict":
            return f"{{{{ {var}[0] }}}}={{{{ {var}[1] }}}}"
        return f"{{{{ {var} }}}}"

    def go(bs, depth, inner):
        out = []
        for b in bs:
            k = b[0]
            if k == "text":
                out.append(b[1])
            elif k == "print":
                var, loop, kind = inner
                drop = "forloop" if kind == "for" else "tablerowloop"
                s = item_text(var, loop) + ":" + ":".join(
                    f"{{{{ {drop}.{h} }}}}" for h in ("index", "index0", "rindex", "rindex0", "first", "last", "length")
                ) + ";"
                if kind == "tablerow":
                    s += ":".join(f"{{{{ tablerowloop.{h} }}}}" for h in ("col", "col0", "col_first", "col_last", "row")) + ";"
                out.append(s)
            elif k == "parent":
                out.append("{{ forloop.parentloop.index }}")
            elif k == "helper":
                out.append("{{ forloop." + "parentloop." * b[1] + b[2] + " }}")
            elif k == "include":
                name = f"p{len(partials)}"
                partials[name] = None
                partials[name] = go(b[1], depth, inner)
                out.append(f"{{% include '{name}' %}}")
            elif k == "render":
                name = f"p{len(partials)}"
                partials[name] = None
                v0 = counter[0]
                partials[name] = go(b[1], depth, None)
                names = sorted(case.pool) + [f"v{i}" for i in range(v0, counter[0])]
                names = [n for n in names if case.pool.get(n, ("list",))[0] != "range"]
                out.append(f"{{% render '{name}'" + "".join(f", {n}: {n}" for n in names) + " %}")
            elif k in ("breakat", "contat"):
                drop = "forloop" if inner[2] == "for" else "tablerowloop"
                tag = "break" if k == "breakat" else "continue"
                out.append(f"{{% if {drop}.index == {b[1]} %}}{{% {tag} %}}{{% endif %}}")
            elif k == "for":
                var = f"x{depth}"
                s = f"{{% for {loop_expr(b[1], var)} %}}" + go(b[2], depth + 1, (var, b[1], "for"))
                if b[3] is not None:
                    s += "{% else %}" + go(b[3], depth, inner)
                out.append(s + "{% endfor %}")
            elif k == "tablerow":
                var = f"x{depth}"
                out.append(f"{{% tablerow {loop_expr(b[1], var, b[2])} %}}" + go(b[3], depth + 1, (var, b[1], "tablerow"))
                           + "{% endtablerow %}")
        return "".join(out)

    return go(case.body, 0, None), data, partials


# ------------------------------------------------------------------ Gallina text
def g_arg(a):
    kind, z, _ = a
    if kind == "float":
        return f"AFloat {g_Z(z[0])} {z[1]}%nat"
    return {"int": f"AInt {g_Z(z)}", "strint": f"AStrInt {g_Z(z)}", "strpad": f"AStrInt {g_Z(z)}", "strplus": f"AStrInt {g_Z(z)}",
            "nil": "ANil", "strbad": "AStrBad", "strfrac": "AStrBad", "bool": f"ABool {g_bool(bool(z))}", "inf": "AInf", "nan": "AInf"}[kind]


def g_iter(v):
    if v[0] == "list":
        return f"ItList {g_list(g_Z(x) for x in v[1])}"
    if v[0] == "range":
        return f"ItRange {g_Z(v[1])} {g_Z(v[2])}"
    if v[0] == "str":
        return f"ItStr {g_str(v[1])}"
    if v[0] == "dict":
        return f"ItDict {g_list(f'({g_str(k)}, {g_Z(x)})' for k, x in v[1])}"
    return "ItOther"


def to_gallina(case: Case):
    keys = {}

    def key(var, loop):
        t = f"{var}-{it_text(loop['it'], case.pool)}"
        return keys.setdefault(t, len(keys))

    def g_loop(loop, var):
        off = loop["offset"]
        goff = "OffNone" if off is None else ("OffContinue" if off == "continue" else f"OffArg ({g_arg(off)})")
        return (f"{{| lkey := {g_N(key(var, loop))}; lname := {g_str(var + '-' + it_text(loop['it'], case.pool))}; liter := {g_iter(case.pool[loop['it']])}; "
                f"llimit := {g_opt(loop['limit'], lambda a: '(' + g_arg(a) + ')')}; loffset := {goff}; "
                f"lrev := {g_bool(loop['rev'])} |}}")

    def go(bs, depth):
        out = []
        for b in bs:
            k = b[0]
            if k == "text":
                out.append(f"BText {g_str(b[1])}")
            elif k == "print":
                out.append("BPrint")
            elif k == "parent":
                out.append("BParent")
            elif k == "helper":
                out.append(f"BHelper {b[1]}%nat {HSEL[b[2]]}")
            elif k == "include":
                out.append(f"BInclude {go(b[1], depth)}")
            elif k == "render":
                out.append(f"BRender {go(b[1], depth)}")
            elif k == "breakat":
                out.append(f"BBreakAt {g_Z(b[1])}")
            elif k == "contat":
                out.append(f"BContinueAt {g_Z(b[1])}")
            elif k == "for":
                els = go(b[3], depth) if b[3] is not None else "[]"
                out.append(f"BFor ({g_loop(b[1], f'x{depth}')}) {go(b[2], depth + 1)} {els}")
            elif k == "tablerow":
                out.append(f"BTablerow ({g_loop(b[1], f'x{depth}')}) {g_opt(b[2], lambda a: '(' + g_arg(a) + ')')} "
                           f"{go(b[3], depth + 1)}")
        return g_list(out)

    return f"{{| t_strseq := {g_bool(case.strseq)}; t_body := {go(case.body, 0)} |}}"


HSEL = {"index": "HIndex", "index0": "HIndex0", "rindex": "HRindex", "rindex0": "HRindex0", "first": "HFirst", "last": "HLast",
        "length": "HLength", "name": "HName"}

# --------------------------------------------------------- implementation runner
_ENVS = {}


def env(strseq=False, partials=None):
    """The default environment, or one with string_sequences on; a fresh one (own loader) when there are partials."""
    from liquid import DictLoader, Environment

    if strseq not in _ENVS:
        class SeqEnv(Environment):
            string_sequences = True

        _ENVS[strseq] = (SeqEnv if strseq else Environment, (SeqEnv if strseq else Environment)())
    cls, shared = _ENVS[strseq]
    return cls(loader=DictLoader(dict(partials))) if partials else shared


def run_impl(src, data, use_async=False, strseq=False, partials=None):
    try:
        t = env(strseq, partials).from_string(src)
        if use_async:
            return ("out", run_async(t.render_async(**data)))
        return ("out", t.render(**data))
    except Exception as e:  # noqa: BLE001
        return ("err", classify_exc(e))


def g_obs(o):
    if o[0] == "out":
        return f"OOut {g_str(o[1])}"
    return f"OErr {o[1]}"


# ----------------------------------------- reference semantics (independent oracle)
def ref_arg(a):
    """The integer a limit/offset argument denotes: integers, integer strings (blanks and a sign allowed), floats by
    their integer part, booleans as 0/1; anything else is a Liquid error."""
    kind, z, _ = a
    if kind in ("int", "strint", "strpad", "strplus"):
        return z
    if kind == "float":
        return int(z[0] / 10 ** z[1])
    if kind == "bool":
        return 1 if z else 0
    raise RefError("liquid")


def ref_cols(a):
    """cols like Ruby's to_i: what is not a number counts as 0."""
    try:
        return ref_arg(a)
    except RefError:
        return 0


class RefError(Exception):
    pass


def ref_items(v, strseq=False):
    if v[0] == "str" and strseq:
        return list(v[1])
    if v[0] == "list":
        return [str(x) for x in v[1]]
    if v[0] == "range":
        return [str(x) for x in range(v[1], v[2] + 1)]
    if v[0] == "str":
        return [v[1]] if v[1] else []
    if v[0] == "dict":
        return [f"{k}={x}" for k, x in v[1]]
    return []


def b2s(b):
    return "true" if b else "false"


def ref_render(case: Case):
    """Reference: the documented (Shopify) loop semantics, written without looking at liquid's arithmetic."""
    stored_stack = [{}]

    def select(loop, var):
        stored = stored_stack[-1]
        items = ref_items(case.pool[loop["it"]], case.strseq)
        key = f"{var}-{it_text(loop['it'], case.pool)}"
        limit = None if loop["limit"] is None else ref_arg(loop["limit"])
        if loop["offset"] == "continue":
            frm = stored.get(key, 0)
        elif loop["offset"] is None:
            frm = 0
        else:
            frm = ref_arg(loop["offset"])
        to = None if limit is None else frm + limit
        seg = [x for i, x in enumerate(items) if frm <= i and (to is None or i < to)]
        stored[key] = len(items) if to is None else min(max(to, 0), len(items))
        if loop["rev"]:
            seg.reverse()
        return seg

    class Brk(Exception):
        pass

    class Cont(Exception):
        pass

    out = []  # output is written as rendering goes, so an interrupt keeps what was written before it

    def go(bs, depth, frames):
        for b in bs:
            k = b[0]
            if k == "text":
                out.append(b[1])
            elif k == "print":
                f = frames[-1]
                i, n = f["i"], f["n"]
                out.append(f"{f['item']}:{i + 1}:{i}:{n - i}:{n - i - 1}:{b2s(i == 0)}:{b2s(i == n - 1)}:{n};")
                if f["kind"] == "tablerow":
                    c, col, row = f["cols"], f["col"], f["row"]
                    out.append(f"{col}:{col - 1}:{b2s(col == 1)}:{b2s(col == c)}:{row};")
            elif k == "parent":
                ps = [f for f in frames if f["kind"] == "for"][:-1]
                out.append(str(ps[-1]["i"] + 1) if ps else "")
            elif k == "helper":
                ps = [f for f in frames if f["kind"] == "for"]
                if b[1] < len(ps):
                    f = ps[-1 - b[1]]
                    i, n = f["i"], f["n"]
                    out.append({"index": str(i + 1), "index0": str(i), "rindex": str(n - i), "rindex0": str(n - i - 1),
                                "first": b2s(i == 0), "last": b2s(i == n - 1), "length": str(n), "name": f["name"]}[b[2]])
            elif k == "include":
                if len(stored_stack) > 1:
                    raise RefError("liquid")   # include is not allowed inside a rendered template
                go(b[1], depth, frames)        # same scope: loop stack, continue positions, interrupts
            elif k == "render":
                stored_stack.append({})         # isolated: no enclosing loops, fresh continue positions
                try:
                    go(b[1], depth, [])
                except (Brk, Cont):
                    raise RefError("liquid")
                finally:
                    stored_stack.pop()
            elif k == "breakat":
                if frames[-1]["i"] + 1 == b[1]:
                    raise Brk
            elif k == "contat":
                if frames[-1]["i"] + 1 == b[1]:
                    raise Cont
            elif k == "for":
                seg = select(b[1], f"x{depth}")
                if not seg:
                    if b[3] is not None:
                        go(b[3], depth, frames)  # an interrupt in the else block belongs to the enclosing loop
                    continue
                for i, item in enumerate(seg):
                    fr = {"kind": "for", "item": item, "i": i, "n": len(seg), "name": f"x{depth}-{it_text(b[1]['it'], case.pool)}"}
                    try:
                        go(b[2], depth + 1, frames + [fr])
                    except Brk:
                        break
                    except Cont:
                        continue
            elif k == "tablerow":
                seg = select(b[1], f"x{depth}")
                n = len(seg)
                if b[2] is None:
                    cols = n
                else:
                    cols = ref_cols(b[2])
                out.append('<tr class="row1">\n')
                for i, item in enumerate(seg):
                    if cols > 0:
                        col, row = i % cols + 1, i // cols + 1      # documented row/column structure
                    else:
                        col, row = i + 1, 1                         # no column ever is the last one: a single row
                    fr = {"kind": "tablerow", "item": item, "i": i, "n": n, "cols": cols, "col": col, "row": row}
                    out.append(f'<td class="col{col}">')
                    brk = False
                    try:
                        go(b[3], depth + 1, frames + [fr])
                    except Brk:
                        brk = True
                    except Cont:
                        pass
                    out.append("</td>")
                    if col == cols and i != n - 1:
                        out.append(f'</tr>\n<tr class="row{row + 1}">')
                    if brk:
                        break
                out.append("</tr>\n")

    try:
        go(case.body, 0, [])
        return ("out", "".join(out))
    except RefError as e:
        return ("err", str(e))
    except (Brk, Cont):
        return ("err", "unspecified")


def ref_ok(want, got):
    if want[0] == "out":
        return got == want
    if want[1] == "unspecified":
        return True
    return got[0] == "err" and got[1].startswith("E") and got[1] not in FOREIGN


FOREIGN = {"EValueError", "ETypeError", "EOverflowError", "EIndexError", "EKeyError", "EAssertionError",
           "EArithmeticError", "ERecursionError", "EUnicodeError", "EOSError", "ERuntimeError", "EOtherForeign"}


# ----------------------------------------------------------------------- generators
def args_for(z, variants):
    return [("int", z, h) for h in variants]


def gen_cases(ck: Check):
    maxlen = 4 if ck.quick else 8
    rng = ck.rng
    # 1. single loops, exhaustive over limit x offset x reversed for lists and ranges
    for n in range(0, maxlen + 1):
        vals = list(range(-3, n + 4)) + [HUGE]
        limits = [None] + [("int", z, "lit") for z in vals]
        offsets = [None, "continue"] + [("int", z, "lit") for z in vals]
        for kind in ("list", "range"):
            pool = {"a": ("list", list(range(11, 11 + n)))} if kind == "list" else {"a": ("range", 1, n)}
            for lim, off, rev in itertools.product(limits, offsets, (False, True)):
                if not ck.quick or n <= 3 or (lim is None or abs(lim[1]) < 3 or lim[1] in (n, HUGE)):
                    loop = {"it": "a", "limit": lim, "offset": off, "rev": rev}
                    yield "single", Case(pool, [("for", loop, [("print",)], [("text", "E")])])
    # 2. the same arguments given as variables and as numeric strings, nil and junk; other iterable kinds
    kinds = [("list", [5, 6, 7]), ("range", 2, 5), ("str", "hey"), ("str", ""), ("dict", [("k", 1), ("m", 2), ("n", 3)]),
             ("other",), ("list", [])]
    reps = [("int", 2, "var"), ("strint", 1, "lit"), ("strint", 2, "var"), ("strint", -1, "var"), ("nil", 0, "lit"),
            ("nil", 0, "var"), ("strbad", 0, "lit"), ("strbad", 0, "var"), ("int", 0, "var"), ("int", -2, "var")]
    for it in kinds:
        for lim in [None] + reps:
            for off in [None, "continue"] + reps:
                loop = {"it": "a", "limit": lim, "offset": off, "rev": rng.random() < 0.3}
                yield "argkinds", Case({"a": it}, [("for", loop, [("print",)], [("text", "E")])])
    # 3. chains of loops sharing an offset:continue key
    for n in range(0, 5 if ck.quick else 8):
        pool = {"a": ("list", list(range(1, n + 1)))}
        lims = [None, 0, 1, 2, 3] if ck.quick else [None, -1, 0, 1, 2, 3, 5]
        for l1, l2, l3 in itertools.product(lims, repeat=3):
            # the middle loop either continues or is a plain loop over the same key (a plain loop OVERWRITES the stored stop index,
            # also with 0 when it stops at the very beginning: limit 0, an empty collection)
            for first_off, second_off in ((None, "continue"), ("continue", "continue"), (("int", 1, "lit"), "continue"),
                                          (None, None), (("int", 1, "lit"), None), (None, ("int", 0, "lit"))):
                body = []
                for j, l in enumerate((l1, l2, l3)):
                    loop = {"it": "a", "limit": None if l is None else ("int", l, "lit"),
                            "offset": first_off if j == 0 else (second_off if j == 1 else "continue"), "rev": False}
                    body.append(("for", loop, [("print",)], [("text", "E")]))
                    body.append(("text", "|"))
                yield "chain", Case(pool, body)
    # 4. tablerow
    for n in range(0, 5 if ck.quick else 8):
        pool = {"a": ("list", list(range(1, n + 1)))}
        colss = [None] + [("int", c, "lit") for c in range(-1, n + 2)] + [("strint", 2, "var"), ("strbad", 0, "lit")]
        for cols in colss:
            for lim in (None, ("int", 2, "lit"), ("int", 0, "lit")):
                for off in (None, ("int", 1, "lit")):
                    loop = {"it": "a", "limit": lim, "offset": off, "rev": False}
                    yield "tablerow", Case(pool, [("tablerow", loop, cols, [("print",)])])
                    if n >= 2:
                        yield "tablerow", Case(pool, [("tablerow", loop, cols, [("print",), ("breakat", 2), ("text", "z")])])
                        yield "tablerow", Case(pool, [("tablerow", loop, cols, [("contat", 2), ("print",)])])
    # 5. random nests (depth <= 3) with parentloop, break, continue, shared keys, partials
    for _ in range(250 if ck.quick else 2500):
        yield "nest", gen_random_nest(rng)
    # 6. strings as loop sources, with and without string_sequences; hashes
    P = [("print",)]
    E = [("text", "E")]
    small = [None, ("int", 0, "lit"), ("int", 1, "lit"), ("int", 2, "var"), ("int", -1, "lit"), ("int", 5, "lit")]
    for strseq in (False, True):
        soffs = [None, "continue", ("int", 1, "lit"), ("int", -1, "var"), ("int", 5, "lit")] if ck.quick else [None, "continue"] + small[1:]
        for text in ("", "a", "hey", "h\u00e9 y") if ck.quick else ("", "a", "hey", "h\u00e9 y", "abcdefg", " ", "a\nb"):
            for lim, off, rev in itertools.product(small, soffs, (False, True)):
                loop = {"it": "s", "limit": lim, "offset": off, "rev": rev}
                yield "string", Case({"s": ("str", text)}, [("for", loop, P, E)], strseq)
            for cols in (None, ("int", 2, "lit"), ("int", 0, "lit")):
                loop = {"it": "s", "limit": None, "offset": None, "rev": False}
                yield "string", Case({"s": ("str", text)}, [("tablerow", loop, cols, P)], strseq)
            # a chain over the characters of one string
            chain = []
            for j in range(3):
                chain += [("for", {"it": "s", "limit": ("int", 1, "lit"), "offset": None if j == 0 else "continue", "rev": False}, P, E),
                          ("text", "|")]
            yield "string", Case({"s": ("str", text)}, chain, strseq)
    for n in range(0, 4 if ck.quick else 6):
        pairs = [(chr(107 + i), i + 1) for i in range(n)]
        for lim, off, rev in itertools.product(small, soffs, (False, True)):
            loop = {"it": "h", "limit": lim, "offset": off, "rev": rev}
            yield "hash", Case({"h": ("dict", pairs)}, [("for", loop, P, E)])
        for cols in (None, ("int", 2, "lit")):
            yield "hash", Case({"h": ("dict", pairs)}, [("tablerow", {"it": "h", "limit": None, "offset": None, "rev": False}, cols, P)])
    # 7. every kind of value for limit, offset and cols
    odd = [("float", (29, 1), "lit"), ("float", (20, 1), "var"), ("float", (5, 1), "lit"), ("float", (-5, 1), "var"), ("float", (-15, 1), "lit"),
           ("float", (199, 2), "var"), ("bool", 1, "lit"), ("bool", 0, "lit"), ("bool", 1, "var"), ("inf", 1, "var"), ("inf", -1, "var"),
           ("nan", 0, "var"), ("strpad", 2, "lit"), ("strpad", 1, "var"), ("strplus", 2, "lit"), ("strplus", -1, "var"),
           ("strfrac", 2, "lit"), ("strfrac", 1, "var"), ("strint", 2, "lit"), ("strbad", 0, "var"), ("nil", 0, "var"),
           ("int", HUGE, "var"), ("int", -HUGE, "lit"), ("strint", HUGE, "var")]
    for n in ((0, 3) if ck.quick else (0, 1, 3, 4, 6)):
        pool = {"a": ("list", list(range(1, n + 1)))}
        for v in odd:
            for other in (None, ("int", 1, "lit")):
                for rev in (False, True):
                    yield "argvalues", Case(pool, [("for", {"it": "a", "limit": v, "offset": other, "rev": rev}, P, E)])
                    yield "argvalues", Case(pool, [("for", {"it": "a", "limit": other, "offset": v, "rev": rev}, P, E)])
            yield "argvalues", Case(pool, [("tablerow", {"it": "a", "limit": v, "offset": None, "rev": False}, None, P)])
            yield "argvalues", Case(pool, [("tablerow", {"it": "a", "limit": None, "offset": v, "rev": False}, ("int", 2, "lit"), P)])
    # 8. tablerow cols: zero, negative, nil, strings of every kind, floats, booleans, infinity, huge
    for n in ((0, 1, 3, 4) if ck.quick else range(0, 8)):
        pool = {"a": ("list", list(range(1, n + 1)))}
        colss = odd + [("int", 0, "lit"), ("int", 0, "var"), ("int", -1, "lit"), ("int", -3, "var"), ("nil", 0, "lit"), ("strbad", 0, "lit"),
                       ("int", 1, "lit"), ("int", n, "var"), ("int", n + 1, "lit")]
        for cols in colss:
            base = {"it": "a", "limit": None, "offset": None, "rev": False}
            yield "cols", Case(pool, [("tablerow", base, cols, P)])
            yield "cols", Case(pool, [("tablerow", dict(base, limit=("int", 3, "lit"), offset=("int", 1, "lit")), cols, P)])
            if n >= 2:
                yield "cols", Case(pool, [("tablerow", base, cols, [("print",), ("breakat", 2), ("text", "z")])])
                yield "cols", Case(pool, [("tablerow", base, cols, [("contat", 2), ("print",)])])
                yield "cols", Case(pool, [("tablerow", base, cols, [("text", "["), ("breakat", n), ("contat", 1), ("print",)])])
    # 9. offset:continue chains across for and tablerow sharing one key
    for n in ((0, 2, 4) if ck.quick else range(0, 7)):
        pool = {"a": ("list", list(range(1, n + 1)))}
        lims = [None, 0, 1, 2] if ck.quick else [None, -1, 0, 1, 2, 3]
        for kinds3 in itertools.product(("for", "tablerow"), repeat=3):
            if kinds3 == ("for", "for", "for"):
                continue
            if ck.quick and kinds3 not in (("for", "tablerow", "for"), ("tablerow", "for", "tablerow"), ("tablerow", "tablerow", "for")):
                continue
            for l1, l2, l3 in itertools.product(lims, repeat=3):
                body = []
                for j, (kd, l) in enumerate(zip(kinds3, (l1, l2, l3))):
                    loop = {"it": "a", "limit": None if l is None else ("int", l, "lit"),
                            "offset": (None if j == 0 else "continue"), "rev": False}
                    body.append(("for", loop, P, E) if kd == "for" else ("tablerow", loop, ("int", 2, "lit"), P))
                    body.append(("text", "|"))
                yield "chain-mixed", Case(pool, body)
    # 10. parentloop and forloop.name through nested loops, tablerow, include (shared scope) and render (isolated)
    probes = [("helper", u, h) for u in range(0, 4) for h in ("index", "name")] + [("helper", 1, "length"), ("helper", 2, "rindex0"),
                                                                                 ("helper", 1, "first"), ("helper", 0, "last"), ("parent",)]
    la = {"it": "a", "limit": None, "offset": None, "rev": False}
    lb = {"it": "b", "limit": ("int", 2, "lit"), "offset": None, "rev": False}
    lc = {"it": "c", "limit": None, "offset": None, "rev": True}
    pool = {"a": ("list", [1, 2]), "b": ("range", 1, 3), "c": ("list", [7, 8])}

    def wrap(kind, body):
        return [(kind, body)] if kind in ("include", "render") else body

    for pr in probes:
        leaf = [pr, ("text", " ")]
        for w1, w2, w3 in itertools.product(("plain", "include", "render"), repeat=3):
            inner3 = wrap(w3, [("for", lc, leaf, None)])
            inner2 = wrap(w2, [("for", lb, inner3 + leaf, None)])
            yield "parentloop", Case(pool, wrap(w1, [("for", la, inner2 + leaf, None)]))
        for w in ("plain", "include", "render"):
            # a tablerow between two for loops is not on the loop stack
            yield "parentloop", Case(pool, [("for", la, [("tablerow", lb, ("int", 2, "lit"), wrap(w, [("for", lc, leaf, None)]) + leaf)], None)])
            yield "parentloop", Case(pool, [("tablerow", la, None, wrap(w, [("for", lb, [("tablerow", lc, None, leaf)], None)]))])
    # 12. the else block of a loop whose own body writes nothing, nested in blocks that write nothing else
    pool = {"a": ("list", [1, 2]), "e": ("list", [])}
    sel = [{"it": "e", "limit": None, "offset": None, "rev": False}, {"it": "a", "limit": ("int", 0, "lit"), "offset": None, "rev": False},
           {"it": "a", "limit": None, "offset": ("int", 5, "lit"), "rev": True}, {"it": "a", "limit": None, "offset": "continue", "rev": False},
           {"it": "a", "limit": None, "offset": None, "rev": False}]
    for silent in ([], [("breakat", 1)], [("contat", 2)], [("breakat", 2), ("contat", 1)]):
        for lp in sel:
            inner = ("for", lp, silent, E)
            yield "else-silent", Case(pool, [inner])
            yield "else-silent", Case(pool, [("for", la, [inner], None)])
            yield "else-silent", Case(pool, [("for", la, [inner], E)])
            yield "else-silent", Case(pool, [("for", la, [("for", la, [inner, inner], None)], None)])
            yield "else-silent", Case(pool, [("tablerow", la, None, [inner])])
            yield "else-silent", Case(pool, [("for", la, [("include", [inner])], None)])
            yield "else-silent", Case(pool, [("for", la, [("render", [inner])], None)])
    # 11. continue positions and interrupts through include and render
    for n in range(0, 5):
        pool = {"a": ("list", list(range(1, n + 1)))}
        for l1, l2 in itertools.product([None, 0, 1, 2], repeat=2):
            mk = lambda l, off: ("for", {"it": "a", "limit": None if l is None else ("int", l, "lit"), "offset": off, "rev": False}, P, E)
            for w in ("include", "render"):
                yield "partial-continue", Case(pool, [mk(l1, None), ("text", "|"), (w, [mk(l2, "continue"), ("text", "|"), mk(None, "continue")]),
                                                      ("text", "|"), mk(None, "continue")])
        for k in (1, 2, 3):
            yield "partial-interrupt", Case(pool, [("for", la | {"it": "a"}, [("text", "<"), ("include", [("print",), ("breakat", k), ("text", "i")]), ("text", ">")], E)])
            yield "partial-interrupt", Case(pool, [("for", la | {"it": "a"}, [("text", "<"), ("include", [("contat", k), ("print",)]), ("text", ">")], E)])
            yield "partial-interrupt", Case(pool, [("tablerow", la | {"it": "a"}, ("int", 2, "lit"),
                                                    [("include", [("print",), ("breakat", k), ("text", "i")])])])


def gen_random_nest(rng):
    pool = {"a": ("list", list(range(1, rng.randrange(0, 6)))), "b": ("range", 1, rng.randrange(0, 5)),
            "c": ("dict", [("p", 1), ("q", 2)][: rng.randrange(0, 3)]), "d": ("str", rng.choice(["", "s", "xyz"]))}

    def rarg():
        r = rng.random()
        if r < 0.65:
            return ("int", rng.randrange(-2, 6), rng.choice(["lit", "var"]))
        if r < 0.8:
            return (rng.choice(["strint", "strpad", "strplus"]), rng.randrange(0, 4), rng.choice(["lit", "var"]))
        if r < 0.9:
            return ("float", (rng.randrange(-15, 40), 1), rng.choice(["lit", "var"]))
        return rng.choice([("nil", 0, "lit"), ("strbad", 0, "var"), ("bool", 1, "lit"), ("inf", 1, "var"), ("strfrac", 1, "lit")])

    def rloop():
        return {"it": rng.choice("aabbcdd"), "limit": rarg() if rng.random() < 0.4 else None,
                "offset": (None if rng.random() < 0.5 else ("continue" if rng.random() < 0.5 else rarg())),
                "rev": rng.random() < 0.25}

    def rbody(depth, kind):
        out = []
        for _ in range(rng.randrange(1, 4)):
            r = rng.random()
            if r < 0.35:
                out.append(("print",))
            elif r < 0.45 and kind == "for":
                out.append(("parent",))
            elif r < 0.55:
                out.append(("breakat", rng.randrange(1, 4)))
            elif r < 0.65:
                out.append(("contat", rng.randrange(1, 4)))
            elif r < 0.72:
                out.append(("text", rng.choice(["-", "_", "t"])))
            elif r < 0.80:
                out.append(("helper", rng.randrange(0, 3), rng.choice(["index", "name", "length", "last"])))
            elif depth < 3:
                node = rnode(depth)
                r2 = rng.random()
                out.append(("include", [node]) if r2 < 0.15 else (("render", [node]) if r2 < 0.25 else node))
        return out

    def rnode(depth):
        if rng.random() < 0.75:
            return ("for", rloop(), rbody(depth + 1, "for"),
                    [("text", "E")] if rng.random() < 0.6 else None)
        cols = None if rng.random() < 0.4 else rarg()
        return ("tablerow", rloop(), cols, rbody(depth + 1, "tablerow"))

    return Case(pool, [rnode(0) for _ in range(rng.randrange(1, 4))], strseq=rng.random() < 0.3)


def classify_violation(case: Case, want, got_sync, got_async):
    """A specific signature for known-finding matching."""
    if got_sync != got_async:
        return "sync-async-differ:" + repr(case.canonical())[:150]
    return "loop:" + repr(case.canonical())[:200]


def shrink_case(case: Case, bad):
    """Shrink the body list greedily (top-level elements, then nested bodies are left as they are)."""
    body = list(case.body)
    changed = True
    while changed and len(body) > 1:
        changed = False
        for i in range(len(body)):
            cand = Case(case.pool, body[:i] + body[i + 1:], case.strseq)
            if bad(cand):
                body = cand.body
                changed = True
                break
    return Case(case.pool, body, case.strseq)


def verdict(case: Case):
    src, data, partials = to_liquid(case)
    s = run_impl(src, data, False, case.strseq, partials)
    a = run_impl(src, data, True, case.strseq, partials)
    want = ref_render(case)
    if partials or case.strseq:
        data = dict(data, __partials__=partials, __strseq__=case.strseq)
    return src, data, s, a, want


def run(ck: Check) -> None:
    ck.rule = (
        "single for loops: collection length 0..4 (quick) / 0..8 x limit x offset in {absent, continue, -3..len+3, 10^12} x reversed, "
        "for lists and ranges (exhaustive); limit/offset as variables, numeric strings, nil, junk over list/range/string/dict/other; "
        "all chains of three loops sharing an offset:continue key, for loops only and mixed with tablerow; tablerow x cols in "
        "{absent,-1..len+1,'2','abc'} with break/continue; strings (empty, one character, several, non-ASCII) with string_sequences "
        "off and on x limit x offset x reversed, as tablerow source and in a continue chain; hashes of 0..3 (quick) / 0..5 pairs likewise; "
        "24 further limit/offset/cols values (floats, booleans, infinities, NaN, padded/signed/fractional numeric strings, nil, +-10^12) in "
        "each position; tablerow cols over all of those plus 0, negatives and huge, with print/break/continue bodies; forloop.parentloop "
        "chains 0..3 deep and forloop.name/length/first/last probes through three nested loops where each level is plain, an include or "
        "a render partial, and through tablerow levels; continue positions and break/continue through include and render partials; "
        "seeded random nests to depth 3 mixing all of it. Non-trivial = the loop construct visits >= 1 item or takes the else branch; "
        "distinct = distinct (pool, body, string_sequences)."
    )
    ck.trusted_base = [
        "Coq 8.16.1 kernel + vm_compute",
        "harness: generator, Liquid-source printer (templates and partials for a DictLoader) and Gallina printer of the loop mini-language, "
        "classification of numeric strings (props/c13.py)",
        "modelled not verified: Python int()/islice/reversed on the generated values, str() of ints and booleans, the template parser for the "
        "generated subset, include/render scoping as far as the loop stack and the continue positions are concerned (C15/C16 cover scoping)",
    ]
    ck.assumptions = ["collections are lists, dicts, ranges and strings of the listed shapes; drops and custom iterables are outside the model"]
    ck.proof()

    cases, expected, meta = [], [], []
    reported = 0
    for tag, case in gen_cases(ck):
        src, data, s, a, want = verdict(case)
        ck.count(f"gen.{tag}")
        ck.count(f"obs.{s[0] if s[0] == 'out' else s[1]}")
        nontrivial = s[0] == "out" and (":" in s[1] or "E" in s[1])
        ck.note_case(case.canonical(), nontrivial)
        if tag in ("chain", "nest", "tablerow") or ck.evaluations % 500 == 0:
            ck.sample({"template": src, "data": data, "output": s}, limit=5) if ck.evaluations % 97 == 0 else None
        bad = (s != a) or not ref_ok(want, s)
        if bad and reported < 400:
            reported += 1

            def still_bad(c):
                _, _, s2, a2, w2 = verdict(c)
                return s2 != a2 or not ref_ok(w2, s2)

            small = shrink_case(case, still_bad)
            src2, data2, s2, a2, w2 = verdict(small)
            ck.violation(
                "impl-violation", classify(small, w2, s2, a2),
                f"template {src2!r} data {data2!r}: sync={s2} async={a2} reference={w2}",
                {"type": "template", "template": src2, "data": data2, "sync": s2, "async": a2, "reference": w2},
            )
        if s[0] == "out" or s[1] != "EOtherForeign":
            cases.append(to_gallina(case))
            expected.append(g_obs(s))
            meta.append((case, src, data, s))
    if not ck.samples:
        ck.sample({"template": meta[len(meta) // 2][1], "data": meta[len(meta) // 2][2], "output": meta[len(meta) // 2][3]})
    ck.sample({"template": meta[-1][1], "data": meta[-1][2], "output": meta[-1][3]})
    mm = ck.coq_mismatches("c13", IMPORTS, "run_template", "obs_eqb", "tcase", "obs", cases, expected, chunk=400)
    ck.traces += len(cases)
    shown = 0
    for i in mm:
        case, src, data, s = meta[i]
        want = ref_render(case)
        if not ref_ok(want, s):
            continue  # reported above with the failing input
        if shown >= 3:
            break
        shown += 1
        model = ck.coq_eval(IMPORTS, [f"run_template ({to_gallina(case)})"])[0]
        ck.violation(
            "correspondence", "c13-correspondence",
            f"model LoopSlice.run_template and the implementation disagree on {src!r} data {data!r} although the reference accepts the implementation",
            {"type": "template", "template": src, "data": data, "impl": s, "model": model,
             "broken": "correspondence LoopSlice.run_template ~ Environment.from_string(...).render (theorems C13_*)"},
            no_input=True,
        )


def classify(case, want, s, a):
    """Signature of a violation: the specific mechanism when it is one we know how to name."""
    if s != a:
        return "sync-async-differ"
    flat = repr(case.body)
    if s[0] == "err" and s[1] == "ETypeError" and "'nil'" in flat and "tablerow" in flat:
        return "tablerow-cols-nil-TypeError"

    def zero_cols(bs):
        for b in bs:
            if b[0] == "tablerow" and b[2] is not None and ref_cols(b[2]) == 0:
                return True
            if b[0] in ("for", "tablerow", "include", "render"):
                subs = [x for x in b[1:] if isinstance(x, list)]
                if any(zero_cols(x) for x in subs):
                    return True
        return False

    if s[0] == "out" and want[0] == "out" and zero_cols(case.body):
        return "tablerow-cols-zero-row-number"
    return "loop:" + repr(case.canonical())[:200]


def replay(data) -> int:
    case = data["case"]
    if case.get("type") != "template":
        print("replay names a proof/correspondence obligation:", case)
        return 1
    data_ = dict(case["data"])
    partials, strseq = data_.pop("__partials__", None), data_.pop("__strseq__", False)
    s = run_impl(case["template"], data_, False, strseq, partials)
    a = run_impl(case["template"], data_, True, strseq, partials)
    print("template:", case["template"], "data:", case["data"])
    print("sync :", s)
    print("async:", a)
    print("reference:", case.get("reference"))
    want = tuple(case["reference"]) if case.get("reference") else None
    bad = s != a or (want is not None and not ref_ok(want, s))
    print(("VIOLATION reproduced" if bad else "not reproduced") + f" property={data['property']}")
    return 1 if bad else 0
