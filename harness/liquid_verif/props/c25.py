"""C25 — Built-in filters honour their documented contracts."""

from __future__ import annotations

import decimal
import itertools
import json
import math
from fractions import Fraction

from ..core import Check, classify_exc
from ..g import g_Z, g_bool, g_list, g_nat, g_str

IMPORTS = "PyPrims Filters Filters2"
UNDEF = ("undef",)  # marker: the variable is not passed at all

_ENV = None
_TPL: dict = {}


def env():
    global _ENV
    if _ENV is None:
        from liquid import Environment
        import liquid.extra as ex

        _ENV = Environment()
        ex.add_filters(_ENV)
    return _ENV


# ---------------------------------------------------------------- running a filter
def run_filter(name, value, args, kwargs=""):
    data = {}
    if value is not UNDEF:
        data["v"] = value
    parts = []
    for i, a in enumerate(args):
        if a is not UNDEF:
            data[f"a{i}"] = a
        parts.append(f"allow_false: a{i}" if (name == "default" and i == 1) else f"a{i}")
    if kwargs:
        parts.append(kwargs)
    call = "v | " + name + (": " + ", ".join(parts) if parts else "")
    if name == "map":
        # a missing property gives the engine's private null object, which the json filter rejects: print item by item
        src = ("{% assign m = " + call + " %}{% if m == nil %}null{% else %}[{% for x in m %}{% if x == nil %}null{% else %}"
               "{{ x | json }}{% endif %}{% unless forloop.last %},{% endunless %}{% endfor %}]{% endif %}")
    else:
        src = "{{ " + call + " | json }}"
    try:
        tpl = _TPL.get(src)
        if tpl is None:
            tpl = _TPL[src] = env().from_string(src)
        out = tpl.render(**data)
    except Exception as e:  # noqa: BLE001
        return src, data, ("err", classify_exc(e))
    try:
        return src, data, ("ok", json.loads(out, parse_float=lambda s: ("float", s)))
    except Exception:  # noqa: BLE001
        return src, data, ("raw", out)


# ---------------------------------------------------------------------- Gallina text
class Inexpressible(Exception):
    pass


def g_float_text(s):
    d = decimal.Decimal(s)
    if not d.is_finite():
        raise Inexpressible(s)
    sign, digits, exp = d.as_tuple()
    if exp >= 0:
        raise Inexpressible(s)
    m = int("".join(map(str, digits))) * (-1 if sign else 1)
    e = -exp
    while e > 1 and m % 10 == 0:
        m //= 10
        e -= 1
    if e > 30:
        raise Inexpressible(s)
    return f"VDec {g_Z(m)} {g_nat(e)}"


def g_val(v):
    if v is UNDEF:
        return "VUndef"
    if v is None:
        return "VNil"
    if isinstance(v, bool):
        return f"VBool {g_bool(v)}"
    if isinstance(v, int):
        return f"VInt {g_Z(v)}"
    if isinstance(v, float):
        return g_float_text(repr(v))
    if isinstance(v, tuple) and v and v[0] == "float":
        return g_float_text(v[1])
    if isinstance(v, str):
        if any(ord(c) > 126 for c in v):
            raise Inexpressible(v)
        return f"VStr {g_str(v)}"
    if isinstance(v, list):
        return f"VList {g_list(g_val(x) for x in v)}"
    if isinstance(v, dict):
        return "VDict " + g_list(f"({g_str(k)}, {g_val(x)})" for k, x in v.items())
    raise Inexpressible(repr(v))


def g_obs(o):
    if o[0] == "ok":
        return f"FOk ({g_val(o[1])})"
    if o[0] == "err":
        return f"FErr {o[1]}"
    raise Inexpressible(o)


X_NAMES = {"strip_newlines", "round", "divided_by", "modulo", "map", "default"}


def g_case(fname, value, args):
    cn = ("X" + fname) if fname in X_NAMES else f"(Base F{fname})"
    return (f"{{| fc2_name := {cn}; fc2_val := {g_val(value)}; "
            f"fc2_args := {g_list(g_val(a) for a in args)} |}}")


# ------------------------------------------------------------------------- the pools
STRS = ["", "a", "B", " ", "ab", "a b", " a", "a ", "aB ", "abc", "abcdefgh", "a b  c d", "  x ", "a,b,c", "a,,b", ",a,",
        "Hello World foo", "one two\tthree\nfour", "aXbXc", "XaX", "aa"]
# case and whitespace filters: every ASCII whitespace character of str.isspace (TAB LF VT FF CR FS GS RS US space), CR/LF
# combinations, letters next to the ends of the two letter ranges (@ [ ` {), digits
WS_STRS = ["\x1c a\x1f", "\x1d\x1eb", "\x0b\x0cx\x0c\x0b", "\ta b\n", "\r\n", "a\nb\r\nc\rd\n", "\r\r\n", "\n\r", "a\r", "\rb",
           "@AZ[`az{", "hELLO wORLD", "zZ9 aA", "1st THING", "\x1b \x7f"]
INTS = [-3, -1, 0, 1, 2, 3, 7, 10**20]
NUMSTR = ["5", "-2", "1.5", "abc", "2.50"]
DECS = [1.5, 2.25, -0.5, 0.1, 3.0, 2.5, 0.75]
# decimals whose float neighbours betray binary arithmetic (0.3/0.1, 0.7*3), negative dividends and divisors, a third place
DECS2 = [0.3, -7.0, 7.5, -2.5, 0.7, 183.357, 1.25, 2.675, 0.125, -1.35]
LISTS = [[], [3, 1, 2], [1, 1, 2, 1], [2, None, 1], ["b", "A", "c", "a"], ["b", "a", "b"], [[1, 2], [3]], ["x"], [10, 9, 8, 7]]
# sort_natural: case-insensitive ties (stability), mixed types ordered by their lower-cased text, nil, booleans
NAT_LISTS = [["b", "B", "a", "A"], ["B", "b", "A", "a"], ["b", 1, "A", 10, 9], [True, None, "x", False], ["Zeta", "alpha", "Beta", None],
             ["a10", "A9", "a1"], [[2, "b"], ["B", 1]], ["none", None, "NONE"], ["", " ", "a"]]
DICTS = [[{"k": 1, "t": "x"}, {"k": 2}, {"k": None, "t": "y"}, {"k": 1, "t": False}], [{"k": "x"}, {"k": "y"}, {"t": 1}], [],
         [{"k": "", "t": False}, {"k": "x", "t": "T"}, {"k": "", "t": "f"}, {"t": False}]]
# map over things that are not all hashes: nil items, strings (substring rule), scalars, nested arrays, a bare hash
MAP_INPUTS = [[{"k": 1}, None, {"k": 3}], [{"k": 1}, 5, None], [None, 5], [{"k": 1}, "xk", "z"], ["k"], [{"k": 1}, True], [{"k": 1}, 1.5],
              [[{"k": 1}, {"z": 0}], [{"k": 2}]], {"k": 7}, {"z": 7}, "k", 5, None, UNDEF, [{"k": [1, 2]}, {"k": {"a": 1}}], [{"1": "one"}, {"None": 0}]]
SCALARS = [None, UNDEF, True, False, 0, 5, "s", ""]


def py_or_none(v):
    return None if v is UNDEF else v


# ------------------------------------------------ contract oracles (independent reading of the documentation)
def as_text(v):
    if v is UNDEF or v is None:
        return ""
    return v if isinstance(v, str) else str(v)


def o_truncate(value, args, out):
    s = as_text(value)
    n = int(args[0]) if len(args) > 0 else 50
    end = str(args[1]) if len(args) > 1 else "..."
    if len(s) <= n:
        return out == s or f"input is no longer than {n} but was changed to {out!r}"
    if not (isinstance(out, str) and out.endswith(end)):
        return f"truncated result {out!r} does not end in the ellipsis {end!r}"
    if len(out) > max(n, len(end)):
        return f"truncated result {out!r} is longer than max({n}, {len(end)})"
    body = out[: len(out) - len(end)]
    return s.startswith(body) or f"truncated result {out!r} is not a prefix of the input plus the ellipsis"


def o_truncatewords(value, args, out):
    s = as_text(value)
    n = int(args[0]) if len(args) > 0 else 15
    end = str(args[1]) if len(args) > 1 else "..."
    ws = s.split()
    k = max(n, 1)
    ok = [" ".join(ws[:j]) + e for j in range(0, min(k, len(ws)) + 1) for e in ("", end)] + [s]
    return out in ok or f"{out!r} keeps more than {k} words of {s!r}"


def o_size(value, args, out):
    want = len(value) if isinstance(value, (str, list, dict)) else 0
    return out == want or f"size is {out}, documented {want}"


def o_strop(method):
    def f(value, args, out):
        want = getattr(as_text(value), method)()
        return out == want or f"{method}: got {out!r}, str.{method} gives {want!r}"
    return f


def o_reverse(value, args, out):
    return out == list(reversed(value)) or f"reverse gave {out!r}"


def flat(l):
    return [y for x in l for y in (x if isinstance(x, list) else [x])]


def o_sort(value, args, out):
    return out == sorted(flat(value)) or f"sort gave {out!r}"


def o_sort_natural(value, args, out):
    return out == sorted(flat(value), key=lambda x: str(x).lower()) or f"sort_natural gave {out!r}"


def o_uniq(value, args, out):
    want = []
    for x in flat(value):
        if not any(type(x) is type(y) and x == y for y in want):
            want.append(x)
    return out == want or f"uniq gave {out!r}, first occurrences are {want!r}"


def o_compact(value, args, out):
    want = [x for x in flat(value) if x is not None]
    return out == want or f"compact gave {out!r}"


def o_concat(value, args, out):
    return out == flat(value) + args[0] or f"concat gave {out!r}"


def o_map(value, args, out):
    return out == [d.get(args[0]) for d in value] or f"map gave {out!r}"


def where_pred(d, args):
    x = d.get(args[0])
    if len(args) > 1 and args[1] is not None and args[1] is not UNDEF:
        return type(x) is type(args[1]) and x == args[1]
    return x is not None and x is not False


def o_where(value, args, out):
    return out == [d for d in value if where_pred(d, args)] or f"where gave {out!r}"


def o_reject(value, args, out):
    return out == [d for d in value if not where_pred(d, args)] or f"reject gave {out!r}"


def o_first(value, args, out):
    # array-like or a mapping, but not a string; empty or not a sequence gives nil
    if isinstance(value, dict) and value:
        k = next(iter(value))
        want = [k, value[k]]
    else:
        want = value[0] if isinstance(value, list) and value else None
    return out == want or f"first gave {out!r}, documented {want!r}"


def o_last(value, args, out):
    if isinstance(value, dict) and value:
        return True  # a mapping is not mentioned for `last`
    want = value[-1] if isinstance(value, list) and value else None
    return out == want or f"last gave {out!r}, documented {want!r}"


def o_strip_newlines(value, args, out):
    want = as_text(value).replace("\r\n", "").replace("\n", "")
    return out == want or f"strip_newlines gave {out!r}, removing LF and CRLF gives {want!r}"


def o_slice(value, args, out):
    start = args[0]
    length = args[1] if len(args) > 1 else 1
    seq = value
    n = len(seq)
    if start < 0:
        start = max(n + start, 0) if n + start >= 0 else None
        if start is None:
            # the documented behaviour for a start before the beginning is left unspecified
            return True
    if length < 0:
        return True  # a negative length is not documented
    want = seq[start:start + length]
    return out == want or f"slice({args}) gave {out!r}, documented {want!r}"


def readings(x):
    """The exact value(s) the documentation allows for an operand: numbers and numeric strings as they read, anything that
    cannot be converted as 0.  A boolean is a number to Python (1/0) and not a number to the reference (0): both accepted."""
    if isinstance(x, bool):
        return [Fraction(int(x)), Fraction(0)]
    if isinstance(x, int):
        return [Fraction(x)]
    if isinstance(x, float):
        return [Fraction(decimal.Decimal(repr(x)))]
    if isinstance(x, str):
        try:
            d = decimal.Decimal(x.strip())
            if d.is_finite():
                return [Fraction(d)]
        except Exception:  # noqa: BLE001
            pass
        return [Fraction(0)]
    return [Fraction(0)]


def exact(x):
    return readings(x)[0]


def out_exact(out):
    if isinstance(out, tuple) and out[0] == "float":
        d = decimal.Decimal(out[1])
        return Fraction(d) if d.is_finite() else None
    if isinstance(out, int) and not isinstance(out, bool):
        return Fraction(out)
    return None


def short_decimal(fr):
    """Is the exact value a terminating decimal of at most 15 significant digits (so a float holds it faithfully)?"""
    d = fr.denominator
    for p in (2, 5):
        while d % p == 0:
            d //= p
    if d != 1:
        return False
    dec = decimal.Decimal(fr.numerator) / decimal.Decimal(fr.denominator)
    return len(dec.normalize().as_tuple().digits) <= 15


def intlike(x):
    return isinstance(x, int) or (isinstance(x, str) and x.strip().lstrip("-").isdigit())


def both_int(a, b):
    return intlike(a) and intlike(b)


def o_arith(op):
    def f(value, args, out):
        got = out_exact(out)
        wants = []
        for a in readings(value):
            for b in readings(args[0]):
                if op in ("divided_by", "modulo"):
                    if b == 0:
                        return True  # a zero divisor is an error, judged by o_arith_err
                    fl = Fraction(math.floor(a / b))
                    if op == "divided_by":
                        # floor division of two integers; otherwise the quotient itself
                        want = fl if both_int(value, args[0]) else a / b
                    else:
                        want = a - b * fl  # remainder with the sign of the divisor, as for integers
                else:
                    want = {"plus": a + b, "minus": a - b, "times": a * b, "at_least": max(a, b), "at_most": min(a, b)}[op]
                wants.append(want)
        if not all(short_decimal(w) for w in wants):
            return True  # non-terminating, or more than 15 significant digits: float precision is outside the contract
        return got in wants or f"{op}: got {out!r}, exact arithmetic gives {wants[0]}"
    return f


def o_unary(op):
    def f(value, args, out):
        got = out_exact(out)
        wants = []
        for a in readings(value):
            if op == "round" and (a * 2).denominator == 1 and a.denominator != 1:
                return True  # exact halves: tie-breaking rule not part of the contract
            wants.append({"abs": abs(a), "ceil": Fraction(math.ceil(a)), "floor": Fraction(math.floor(a)),
                          "round": Fraction(math.floor(a + Fraction(1, 2)))}[op])
        return got in wants or f"{op}: got {out!r}, exact arithmetic gives {wants[0]}"
    return f


def o_round_n(value, args, out):
    """round: n -- the input rounded to n decimal places: a multiple of 10^-n at distance at most half of 10^-n."""
    n = args[0]
    if isinstance(n, bool) or not isinstance(n, int) or n < 0 or n > 30:
        return True  # only a plain non-negative number of places is documented
    if n == 0:
        return o_unary("round")(value, [], out)
    got = out_exact(out)
    if got is None:
        return f"round: {n} gave {out!r}, not a number"
    for a in readings(value):
        unit = Fraction(1, 10 ** n)
        if abs(got - a) <= unit / 2 and (got / unit).denominator == 1:
            return True
    return f"round: {n} gave {out!r}, which is not {exact(value)} rounded to {n} places"


def finite_operand(x):
    if isinstance(x, float):
        return math.isfinite(x)
    if isinstance(x, str):
        return x.strip().lower().lstrip("+-") not in ("nan", "inf", "infinity")
    return True


def o_arith_err(op, value, args):
    """Is a raised error allowed?  Only for a zero divisor: anything that cannot be converted is used as 0."""
    if op in ("divided_by", "modulo"):
        return any(b == 0 for b in readings(args[0]))
    return False


def o_default(value, args, out):
    v = py_or_none(value)
    allow_false = len(args) > 1 and args[1] is True
    if len(args) > 1 and args[1] not in (True, False, UNDEF, None):
        return True  # allow_false is documented for true and false only
    use_default = v is None or (v is False and not allow_false) or (isinstance(v, (str, list, dict)) and len(v) == 0)
    want = args[0] if use_default else v
    if isinstance(want, float):
        return True
    return (out == want and type(out) is type(want)) or f"default gave {out!r}, documented {want!r}"


# ---------------------------------------------------------------------------- cases
def gen_cases(ck: Check):
    q = ck.quick
    nums = [-2, -1, 0, 1, 2, 3, 4, 5, 6, 8, 10**20, "3", None, UNDEF, "x", 1.9]
    ends = [None, "", "~", "--", "abcdef"]
    for s in STRS + [12345, None]:
        for n in nums:
            for e in ends:
                args = [n] if e is None else [n, e]
                ok = isinstance(n, int) and not isinstance(n, bool)
                yield "truncate", s, args, "", (o_truncate if ok else None)
        yield "truncate", s, [], "", o_truncate
    for s in STRS:
        for n in [-1, 0, 1, 2, 3, 4, 2**31 - 1, "2"]:
            for e in (None, "!"):
                yield "truncatewords", s, ([n] if e is None else [n, e]), "", (o_truncatewords if isinstance(n, int) else None)
    for v in STRS + INTS + LISTS + DICTS + SCALARS + DECS[:2] + [{"a": 1, "b": 2}, {}, {"z": None}]:
        yield "size", v, [], "", o_size
        yield "first", v, [], "", o_first
        yield "last", v, [], "", o_last
        yield "default", v, ["D"], "", o_default
        for af in (True, False, UNDEF, None, 1, "true"):
            yield "default", v, ["D", af], "", o_default
    for d in (None, 0, [], False):
        for v in (None, UNDEF, False, "", [], {}, 0, "x"):
            yield "default", v, [d], "", o_default
    for s in STRS + WS_STRS + [5, -12, None, True, False, UNDEF]:
        for nm, m in (("upcase", "upper"), ("downcase", "lower"), ("capitalize", "capitalize"), ("strip", "strip"),
                      ("lstrip", "lstrip"), ("rstrip", "rstrip")):
            yield nm, s, [], "", (o_strop(m) if isinstance(s, str) or s is None or s is UNDEF else None)
        yield "strip_newlines", s, [], "", (o_strip_newlines if isinstance(s, str) or s is None or s is UNDEF else None)
    # exhaustive: every string over a small alphabet (a letter of each case, space, LF, CR; thorough: also FS) up to length 3 (4)
    alpha = "aB \n\r" if q else "aB \n\r\x1c"
    for n in range(1, 4 if q else 5):
        for tup in itertools.product(alpha, repeat=n):
            s = "".join(tup)
            for nm, m in (("upcase", "upper"), ("downcase", "lower"), ("capitalize", "capitalize"), ("strip", "strip"),
                          ("lstrip", "lstrip"), ("rstrip", "rstrip")):
                yield nm, s, [], "", o_strop(m)
            yield "strip_newlines", s, [], "", o_strip_newlines
    seps = [",", " ", "", "ab", "a", "X", ",,", None, UNDEF]
    for s in STRS + WS_STRS[:4]:
        for sep in seps + [s]:
            yield "split", s, [sep], "", None
    for l in LISTS + ["abc", 5]:
        yield "join", l, [], "", None
        for sep in [",", "", " ", "--"]:
            yield "join", l, [sep], "", None
    for seq in ["abcde", "", "a", [1, 2, 3, 4], []]:
        for st in [-6, -4, -2, -1, 0, 1, 2, 4, 5, 9, 10**20, "1", None, UNDEF, 1.5]:
            yield "slice", seq, [st], "", (o_slice if isinstance(st, int) else None)
            for ln in [-1, 0, 1, 2, 3, 9, "2", UNDEF]:
                yield "slice", seq, [st, ln], "", (o_slice if isinstance(st, int) and isinstance(ln, int) else None)
    for l in LISTS + NAT_LISTS:
        homog_int = all(isinstance(x, int) and not isinstance(x, bool) for x in flat(l))
        homog_str = all(isinstance(x, str) for x in flat(l))
        yield "reverse", l, [], "", (o_reverse if not any(isinstance(x, list) for x in l) else None)
        yield "sort", l, [], "", (o_sort if homog_int or homog_str else None)
        yield "sort_natural", l, [], "", (o_sort_natural if all(x is not None for x in flat(l)) else None)
        yield "uniq", l, [], "", o_uniq
        yield "compact", l, [], "", o_compact
    # exhaustive: every list over a small item pool up to length 3 (4)
    items = ["a", "A", "b", "B", None, 1, 10]
    for n in range(2, 4 if q else 5):
        for tup in itertools.product(items, repeat=n):
            l = list(tup)
            yield "sort_natural", l, [], "", (o_sort_natural if all(x is not None for x in l) else None)
    mitems = [{"k": 1}, {"z": 2}, {"k": None}, None, 5, "xk", "z"]
    for n in range(1, 3 if q else 4):
        for tup in itertools.product(mitems, repeat=n):
            l = list(tup)
            yield "map", l, ["k"], "", (o_map if all(isinstance(x, dict) for x in l) else None)
    for l in LISTS:
        for l2 in LISTS[:5] + [5, "s", None, UNDEF]:
            yield "concat", l, [l2], "", (o_concat if isinstance(l2, list) else None)
    for v in ["abc", 5, None, "B"]:
        for nm in ("reverse", "sort", "sort_natural", "uniq", "compact"):
            yield nm, v, [], "", None
        yield "concat", v, [[1]], "", None
    for d in DICTS:
        for key in ("k", "t", "z"):
            yield "map", d, [key], "", o_map
            yield "where", d, [key], "", o_where
            yield "reject", d, [key], "", o_reject
            for val in (1, "x", None, 2, UNDEF, False, ""):     # a defined value selects by equality also when it is falsy
                yield "where", d, [key, val], "", o_where
                yield "reject", d, [key, val], "", o_reject
    for v in MAP_INPUTS:
        for key in ("k", "z", "", UNDEF, None, 1):
            dicts = isinstance(v, list) and all(isinstance(x, dict) for x in v) and isinstance(key, str)
            yield "map", v, [key], "", (o_map if dicts else None)
    decs2 = DECS2[:6] if q else DECS2 + [0.05, 12.5, -0.25, 99.99, 1e-07]
    more = [] if q else [-10, 100, 12345678901, "0.30", "-7.0", "007", "-0.5"]
    operands = INTS + NUMSTR + DECS + decs2 + more + [None, UNDEF, True, False]
    for a, b in itertools.product(operands, repeat=2):
        for op in ("plus", "minus", "times", "divided_by", "modulo", "at_least", "at_most"):
            yield op, a, [b], "", o_arith(op)
    digits = [UNDEF, None, 0, 1, 2, 3, -1, 10**20, "1", "x", 1.9, -0.5, True, [1]]
    for a in operands + DECS2 + ["-1.35", "0.125"]:
        for op in ("abs", "ceil", "floor"):
            yield op, a, [], "", o_unary(op)
        yield "round", a, [], "", o_unary("round")
        for n in digits:
            yield "round", a, [n], "", o_round_n
    # split then join with the same separator restores a non-empty string
    for s in STRS:
        if s:
            for sep in [",", " ", "ab", "a", "X", ",,", s]:
                yield ("splitjoin", s, [sep], "", None)


ARITH = ("plus", "minus", "times", "divided_by", "modulo", "at_least", "at_most")
MATH = ARITH + ("abs", "ceil", "floor", "round")


def classify_sig(name, value, args, msg):
    if name == "splitjoin":
        sep = args[0]
        if sep == " ":
            return "split-join-space-separator-collapses-whitespace"
        if value == sep:
            return "split-join-string-equal-to-separator"
    if name in MATH and any(isinstance(x, bool) for x in [value] + list(args)):
        # raises next to a float; comes back as true/false from at_least/at_most
        return "math-filter-boolean-operand-raises" if msg == "raises" else "math-filter-boolean-operand-result"
    if name in MATH and msg == "raises":
        return f"math-filter-raises:{name}"
    if name == "divided_by" and not both_int(value, args[0]):
        return "divided_by-decimal-operands-binary-float-quotient"
    if name == "modulo" and not both_int(value, args[0]):
        return "modulo-decimal-operands-sign-of-dividend"
    return f"{name}:" + repr((value, args))[:160]


def round_digits(n):
    """The number of places the round filter reads from its argument (None: plain round)."""
    if n is UNDEF or n is None:
        return None
    if isinstance(n, (int, float)):
        return int(n)
    if isinstance(n, str):
        try:
            return int(float(n))
        except ValueError:
            return None
    return None


def power_of_two(d):
    return d & (d - 1) == 0


def outside_model(name, value, args):
    """Input classes the Coq model does not cover (reason), or None."""
    v = py_or_none(value)
    if name == "divided_by" and not both_int(0 if v is None else v, 0 if py_or_none(args[0]) is None else py_or_none(args[0])):
        a, b = exact(v), exact(py_or_none(args[0]))
        if b != 0:
            qt = a / b
            if not short_decimal(qt) or (qt * 10 ** 20).denominator != 1:
                return "quotient does not terminate within 15 significant digits"
    if name in ("plus", "minus", "times", "modulo"):
        a, b = exact(v), exact(py_or_none(args[0]))
        if not (name == "modulo" and b == 0):
            want = {"plus": a + b, "minus": a - b, "times": a * b}.get(name) if name != "modulo" else a - b * math.floor(a / b)
            if not short_decimal(want):
                return "result has more than 15 significant digits"
    if name == "round" and args:
        n = round_digits(args[0])
        a = exact(v)
        if n is not None and 0 < n < 40 and not power_of_two(a.denominator):
            t = a * 10 ** n
            if t.denominator != 1 and (2 * t).denominator == 1:
                return "decimal tie that the binary float does not hold exactly"
    return None


def run(ck: Check) -> None:
    ck.rule = (
        "every filter named by the property applied to typed pools (36 strings incl. every ASCII whitespace character and CR/LF "
        "combinations, ints incl. 10^20, numeric strings, short decimals incl. negative and non-dyadic ones, booleans, lists of "
        "ints/strings/nil/nested/mixed-case/mixed-type, lists of hashes and of non-hashes, hashes, nil, undefined) with every argument "
        "combination from small pools (exhaustive), through templates `{{ v | f: a0, a1 | json }}` (map: item by item, missing "
        "properties observed as nil). Non-trivial = the filter returned a value that is not its input; distinct = distinct (filter, "
        "value, arguments)."
    )
    ck.exhaustive = True
    ck.trusted_base = [
        "Coq 8.16.1 kernel + vm_compute",
        "harness: pools, template printer, JSON -> Gallina value printer, contract predicates (props/c25.py)",
        "modelled not verified: Python str/list methods (ASCII), sorted, int(), Decimal(str(float)) arithmetic, float(Decimal) and "
        "float repr on decimals of at most 15 significant digits, round(float, n) away from ties, the json filter used to observe results",
        "outside the model: quotients that do not terminate (rounded by the Decimal context), decimal ties of round that the binary "
        "float does not hold exactly, exponent notation and NaN/Infinity, repr of floats/lists inside strings, non-ASCII case mapping "
        "and whitespace",
    ]
    ck.assumptions = ["floats are restricted to values whose shortest repr is a short decimal; exact-half rounding is judged by the "
                      "model (half to even, dyadic values only), not by the contract predicates"]
    ck.proof()

    cases, expected, meta = [], [], []
    sigs = {}

    def report(name, value, args, verdict, src, data, obs):
        sig = classify_sig(name, py_or_none(value), [py_or_none(a) for a in args], verdict)
        sigs[sig] = sigs.get(sig, 0) + 1
        if sigs[sig] <= 2:
            ck.violation("impl-violation", sig, f"{src!r} data {data!r}: {verdict}" + (f" ({obs[1]})" if obs[0] == "err" else ""),
                         {"type": "filter", "filter": name, "value": None if value is UNDEF else value,
                          "undefined_value": value is UNDEF, "args": [None if a is UNDEF else a for a in args],
                          "undef_args": [a is UNDEF for a in args], "kwargs": "", "got": obs, "why": verdict})

    for name, value, args, kwargs, oracle in gen_cases(ck):
        if name == "splitjoin":
            src1, data1, o1 = run_filter("split", value, args)
            if o1[0] != "ok":
                continue
            src2, data2, o2 = run_filter("join", o1[1], args)
            ck.note_case(("splitjoin", value, args), nontrivial=True)
            ck.count("oracle.splitjoin")
            if o2 != ("ok", value):
                sig = classify_sig(name, value, args, "")
                sigs[sig] = sigs.get(sig, 0) + 1
                if sigs[sig] <= 2 or ck._known_for_sig(sig):
                    ck.violation("impl-violation", sig,
                                 f"{value!r} | split: {args[0]!r} | join: {args[0]!r} gives {o2} instead of the original string",
                                 {"type": "splitjoin", "value": value, "sep": args[0], "split": o1, "joined": o2})
            continue
        src, data, obs = run_filter(name, value, args, kwargs)
        ck.count(f"filter.{name}")
        ck.count(f"obs.{obs[0] if obs[0] != 'err' else obs[1]}")
        ck.note_case((name, repr(value), repr(args)), nontrivial=(obs[0] == "ok" and obs[1] != py_or_none(value)))
        if oracle is not None and obs[0] == "ok":
            try:
                verdict = oracle(py_or_none(value) if name != "default" else value, args, obs[1])
            except Exception:  # noqa: BLE001  the contract predicate does not apply to this shape
                verdict = True
                ck.count("oracle.not_applicable")
            if verdict is not True:
                report(name, value, args, verdict, src, data, obs)
        elif obs[0] == "err" and name in MATH and not (name == "round" and len(args) > 1):
            # anything that cannot be converted to a number is used as 0: only a zero divisor may raise
            if not o_arith_err(name, py_or_none(value), [py_or_none(a) for a in args]):
                report(name, value, args, "raises", src, data, obs)
        why = outside_model(name, value, args)
        if why is not None:
            ck.count(f"model.outside({why})")
            continue
        try:
            gc = g_case(name, value, args)
            go = g_obs(obs)
        except Inexpressible:
            ck.count("model.inexpressible")
            continue
        cases.append(gc)
        expected.append(go)
        meta.append((src, data, obs, name, value, args))
    ck.sample({"template": meta[7][0], "data": meta[7][1], "result": meta[7][2]})
    ck.sample({"template": meta[len(meta) // 2][0], "data": meta[len(meta) // 2][1], "result": meta[len(meta) // 2][2]})
    mm = ck.coq_mismatches("filters", IMPORTS, "run_fcase2", "fres_eqb", "fcase2", "fres", cases, expected, chunk=1200)
    ck.traces += len(cases)
    by_filter = {}
    for i in mm:
        by_filter.setdefault(meta[i][3], []).append(i)
    ck.extra["model_mismatches_by_filter"] = {k: len(v) for k, v in by_filter.items()}
    for fname, idxs in by_filter.items():
        for i in idxs[:2]:
            src, data, obs, name, value, args = meta[i]
            model = ck.coq_eval(IMPORTS, [f"run_fcase2 ({g_case(name, value, args)})"])[0]
            ck.violation("correspondence", f"c25-correspondence-{fname}",
                         f"model Filters2.run_fcase2 and the implementation disagree on {src!r} data {data!r}: impl {obs}, model {model}",
                         {"type": "filter-corr", "template": src, "data": {k: repr(v) for k, v in data.items()}, "impl": obs, "model": model,
                          "broken": f"correspondence Filters2.apply_filter2 {fname} ~ liquid filter {fname} (theorems C25_*)"},
                         no_input=True)


def replay(data) -> int:
    case = data["case"]
    if case.get("type") == "splitjoin":
        _, _, o1 = run_filter("split", case["value"], [case["sep"]])
        _, _, o2 = run_filter("join", o1[1], [case["sep"]])
        print(f"{case['value']!r} | split: {case['sep']!r} -> {o1} | join -> {o2}")
        bad = o2 != ("ok", case["value"])
    elif case.get("type") == "filter":
        value = UNDEF if case.get("undefined_value") else case["value"]
        args = [UNDEF if u else a for a, u in zip(case["args"], case["undef_args"])]
        src, dat, obs = run_filter(case["filter"], value, args, case.get("kwargs", ""))
        print(src, dat, "->", obs, "| contract:", case.get("why"))
        bad = json.loads(json.dumps(obs)) == json.loads(json.dumps(case["got"]))
    else:
        print("replay names a proof/correspondence obligation:", case)
        return 1
    print(("VIOLATION reproduced" if bad else "not reproduced") + f" property={data['property']}")
    return 1 if bad else 0
