"""C19 — Static analysis reports everything a render can touch."""
# (the identifier a render tag resolves for an inline snippet is recorded as a name lookup, not judged as a variable path)

from __future__ import annotations

import json

from ..core import Check, classify_exc, run_async
from ..g import g_Z, g_bool, g_list, g_opt
from ..g import g_str as _g_str

IMPORTS = "StaticAnalysis"

# string literals are slow to elaborate: each distinct string becomes one constant of the case files' preamble
_INTERN: dict = {}


def g_str(s: str) -> str:
    if s not in _INTERN:
        _INTERN[s] = f"q{len(_INTERN)}_"
    return _INTERN[s]


def preamble() -> str:
    return "".join(f"Definition {v} : str := {_g_str(k)}.\n" for k, v in _INTERN.items())

ROOT = "main"
FUEL = 400
RUN_FN = "run_case"
CHUNK = 60
RAW_SUFFIX = ":raw-source"

# ============================================================================ generator AST
# path  = (root, [seg...])            seg: str (key) | int (index) | ("sub", root, [str|int...]) (a nested path)
# iter  = ("path", path) | ("range", atom, atom)
# atom  = ("lit", value) | ("var", path)
# expr  = (atom, [(filter_name, [atom...])...])
# cond  = ("t", atom) | ("eq", atom, atom) | ("and", cond, cond) | ("or", cond, cond)     right-nested
# node  = ("text", s) | ("out", expr) | ("assign", x, expr) | ("capture", x, body) | ("for", x, path, body, els)
#       | ("if", neg, cond, thn, [(cond, body)...], els) | ("case", atom, [([atom...], body)...], els)
#       | ("tablerow", x, iter, body) | ("cycle", atom|None, [atom...]) | ("liquid", body) | ("echo", expr) | ("decr", x)
#       | ("elsif", cond, body) / ("when", subj, [atom...], body): only as children of if / case (see children_of) | ("with", [(k, atom)], body) | ("macro", m, [(p, atom|None)], body)
#       | ("call", m, [atom], [(k, atom)]) | ("include", p, (path, alias|None)|None, [(k, atom)])
#       | ("render", p, (isfor, path, alias|None)|None, [(k, atom)]) | ("incr", x)
# program = {name: [node...]}; the root template is "main"

TAG_OF = {"assign": "assign", "capture": "capture", "for": "for", "if": "if", "with": "with", "macro": "macro",
          "call": "call", "include": "include", "render": "render", "incr": "increment", "decr": "decrement",
          "case": "case", "tablerow": "tablerow", "cycle": "cycle", "liquid": "liquid", "echo": "echo"}


def IF(cond, thn, els):
    return ("if", False, cond, thn, [], els)


def FOR(x, path, body, els):
    return ("for", x, ("path", path), body, els)


def la_of(n):
    """Loop arguments of a for / tablerow node: {"limit": atom|None, "offset": atom|"continue"|None, "reversed": bool,
    "cols": atom|None, "order": [names in source order]} (the last element of the node, optional)."""
    la = n[5] if n[0] == "for" and len(n) > 5 else (n[4] if n[0] == "tablerow" and len(n) > 4 else None)
    return la or {"limit": None, "offset": None, "reversed": False, "cols": None, "order": []}


def tup(x):
    """JSON round trip turns tuples into lists; normalise to tuples/lists as the generator builds them."""
    if isinstance(x, list):
        return [tup(i) for i in x]
    if isinstance(x, tuple):
        return tuple(tup(i) for i in x)
    return x


# ------------------------------------------------------------------ source printer with positions
class Printed:
    def __init__(self):
        self.src = {}        # template -> source text
        self.tag_at = {}     # (template, offset of the tag name / of "{{") -> node id
        self.path_at = {}    # (template, offset of a path) -> node id
        self.nodes = {}      # node id -> node;   node id = (template, (i, j, ...)) index path, child lists concatenated


def children_of(n):
    k = n[0]
    if k in ("capture", "with", "elsif"):
        return n[2]
    if k in ("macro", "when", "tablerow"):
        return n[3]
    if k == "for":
        return n[3] + n[4]
    if k == "if":
        return n[3] + [("elsif", c, b) for c, b in n[4]] + n[5]
    if k == "case":
        return [("when", n[1], a, b) for a, b in n[2]] + n[3]
    if k == "liquid":
        return n[1]
    return []


def lit_src(v):
    if v is True:
        return "true"
    if v is False:
        return "false"
    if isinstance(v, int):
        return str(v)
    return "'" + v + "'"


def path_src(p):
    out = p[0]
    for s in p[1]:
        if isinstance(s, (tuple, list)):
            out += "[" + path_src((s[1], s[2])) + "]"
        else:
            out += f"[{s}]" if isinstance(s, int) else f".{s}"
    return out


def print_program(prog) -> Printed:
    pr = Printed()
    for name, body in prog.items():
        buf = []
        pos = [0]
        liq = [0]      # > 0: inside a liquid tag (line syntax)

        def w(s):
            buf.append(s)
            pos[0] += len(s)

        def w_path(p, nid):
            # register the path and, at their own offsets, the paths nested in it
            pr.path_at[(name, pos[0])] = (nid, p)
            w(p[0])
            for sg in p[1]:
                if isinstance(sg, (tuple, list)):
                    w("[")
                    w_path((sg[1], sg[2]), nid)
                    w("]")
                else:
                    w(f"[{sg}]" if isinstance(sg, int) else f".{sg}")

        def w_atom(a, nid):
            if a[0] == "lit":
                w(lit_src(a[1]))
            else:
                w_path(a[1], nid)

        def w_expr(e, nid):
            w_atom(e[0], nid)
            for fname, fargs in e[1]:
                w(" | " + fname)
                for i, a in enumerate(fargs):
                    w(": " if i == 0 else ", ")
                    w_atom(a, nid)

        def w_cond(c, nid):
            if c[0] == "t":
                w_atom(c[1], nid)
            elif c[0] == "eq":
                w_atom(c[1], nid)
                w(" == ")
                w_atom(c[2], nid)
            else:
                w_cond(c[1], nid)
                w(f" {c[0]} ")
                w_cond(c[2], nid)

        def w_kwargs(kws, nid, first=True):
            for k, a in kws:
                w("" if first else ", ")
                first = False
                w(f"{k}: ")
                w_atom(a, nid)

        def w_iter(it, nid):
            if it[0] == "path":
                w_path(it[1], nid)
            else:
                w("(")
                w_atom(it[1], nid)
                w("..")
                w_atom(it[2], nid)
                w(")")

        def w_loop_args(n, nid):
            la = la_of(n)
            for name_ in la["order"]:
                if name_ == "reversed":
                    w(" reversed")
                elif la[name_] == "continue":
                    w(" offset: continue")
                else:
                    w(f" {name_}: ")
                    w_atom(la[name_], nid)

        def w_open(tag, nid=None):
            if not liq[0]:
                w("{% ")
            if nid is not None:
                pr.tag_at[(name, pos[0])] = nid
            w(tag)

        def w_close():
            w("\n" if liq[0] else " %}")

        def w_word(tag):       # a tag without arguments: else, endif, ...
            w_open(tag)
            w_close()

        def w_nodes(ns, prefix, start=0):
            for i, n in enumerate(ns):
                w_node(n, prefix + (start + i,))

        def w_node(n, idx):
            nid = (name, idx)
            pr.nodes[nid] = n
            k = n[0]
            if k == "text":
                assert not liq[0]
                w(n[1])
            elif k == "out":
                assert not liq[0]
                pr.tag_at[(name, pos[0])] = nid
                w("{{ ")
                w_expr(n[1], nid)
                w(" }}")
            elif k == "echo":
                w_open("echo", nid)
                w(" ")
                w_expr(n[1], nid)
                w_close()
            elif k == "assign":
                w_open("assign", nid)
                w(f" {n[1]} = ")
                w_expr(n[2], nid)
                w_close()
            elif k == "capture":
                w_open("capture", nid)
                w(f" {n[1]}")
                w_close()
                w_nodes(n[2], idx)
                w_word("endcapture")
            elif k == "for":
                w_open("for", nid)
                w(f" {n[1]} in ")
                w_iter(n[2], nid)
                w_loop_args(n, nid)
                w_close()
                w_nodes(n[3], idx)
                if n[4]:
                    w_word("else")
                    w_nodes(n[4], idx, len(n[3]))
                w_word("endfor")
            elif k == "tablerow":
                w_open("tablerow", nid)
                w(f" {n[1]} in ")
                w_iter(n[2], nid)
                w_loop_args(n, nid)
                w_close()
                w_nodes(n[3], idx)
                w_word("endtablerow")
            elif k == "if":
                _, neg, cond, thn, alts, els = n
                w_open("unless" if neg else "if", nid)
                w(" ")
                w_cond(cond, nid)
                w_close()
                w_nodes(thn, idx)
                for j, (c, b) in enumerate(alts):
                    aidx = idx + (len(thn) + j,)
                    pr.nodes[(name, aidx)] = ("elsif", c, b)
                    w_open("elsif")
                    w(" ")
                    w_cond(c, (name, aidx))
                    w_close()
                    w_nodes(b, aidx)
                if els:
                    w_word("else")
                    w_nodes(els, idx, len(thn) + len(alts))
                w_word("endunless" if neg else "endif")
            elif k == "case":
                _, subj, whens, els = n
                w_open("case", nid)
                w(" ")
                w_atom(subj, nid)
                w_close()
                for j, (atoms, b) in enumerate(whens):
                    aidx = idx + (j,)
                    pr.nodes[(name, aidx)] = ("when", subj, atoms, b)
                    w_open("when")
                    for i, a in enumerate(atoms):
                        w(" " if i == 0 else ", ")
                        w_atom(a, (name, aidx))
                    w_close()
                    w_nodes(b, aidx)
                if els:
                    w_word("else")
                    w_nodes(els, idx, len(whens))
                w_word("endcase")
            elif k == "cycle":
                w_open("cycle", nid)
                w(" ")
                if n[1] is not None:
                    w_atom(n[1], nid)
                    w(": ")
                for i, a in enumerate(n[2]):
                    w("" if i == 0 else ", ")
                    w_atom(a, nid)
                w_close()
            elif k == "liquid":
                assert not liq[0]
                w("{% ")
                pr.tag_at[(name, pos[0])] = nid
                w("liquid\n")
                liq[0] += 1
                w_nodes(n[1], idx)
                liq[0] -= 1
                w("%}")
            elif k == "with":
                w_open("with", nid)
                w(" ")
                w_kwargs(n[1], nid)
                w_close()
                w_nodes(n[2], idx)
                w_word("endwith")
            elif k == "macro":
                w_open("macro", nid)
                w(f" {n[1]}")
                for i, (p, d) in enumerate(n[2]):
                    w(" " if i == 0 else ", ")
                    w(p)
                    if d is not None:
                        w(": ")
                        w_atom(d, nid)
                w_close()
                w_nodes(n[3], idx)
                w_word("endmacro")
            elif k == "call":
                w_open("call", nid)
                w(f" {n[1]}")
                first = True
                for a in n[2]:
                    w(" " if first else ", ")
                    first = False
                    w_atom(a, nid)
                for kk, a in n[3]:
                    w(" " if first else ", ")
                    first = False
                    w(f"{kk}: ")
                    w_atom(a, nid)
                w_close()
            elif k == "include":
                w_open("include", nid)
                w(f" '{n[1]}'")
                if n[2] is not None:
                    w(" with ")
                    w_path(n[2][0], nid)
                    if n[2][1] is not None:
                        w(f" as {n[2][1]}")
                w_kwargs(n[3], nid, first=False)
                w_close()
            elif k == "render":
                w_open("render", nid)
                w(f" '{n[1]}'")
                if n[2] is not None:
                    w(" for " if n[2][0] else " with ")
                    w_path(n[2][1], nid)
                    if n[2][2] is not None:
                        w(f" as {n[2][2]}")
                w_kwargs(n[3], nid, first=False)
                w_close()
            elif k in ("incr", "decr"):
                w_open(TAG_OF[k], nid)
                w(f" {n[1]}")
                w_close()
            else:
                raise ValueError(k)

        w_nodes(body, ())
        pr.src[name] = "".join(buf)
    return pr


# ------------------------------------------------------------------ Gallina printer
def g_value(v):
    if v is None:
        return "VNil"
    if v is True or v is False:
        return f"VBool {g_bool(v)}"
    if isinstance(v, int):
        return f"VInt {g_Z(v)}"
    if isinstance(v, str):
        return f"VStr {g_str(v)}"
    if isinstance(v, (list, tuple)):
        return "VList " + g_list(g_value(x) for x in v)
    if isinstance(v, dict):
        return "VMap " + g_list(f"({g_str(k)}, {g_value(x)})" for k, x in v.items())
    raise TypeError(v)


def g_seg(s):
    if isinstance(s, (tuple, list)):    # a nested path, to any depth
        return f"SSub (Path {g_str(s[1])} {g_segs(s[2])})"
    return f"SIdx {g_Z(s)}" if isinstance(s, int) else f"SKey {g_str(s)}"


def g_iter(it):
    if it[0] == "path":
        return f"(IPath {g_path(it[1])})"
    return f"(IRange ({g_atom(it[1])}) ({g_atom(it[2])}))"


def g_segs(segs):
    return g_list(g_seg(s) for s in segs)


def g_path(p):
    return f"(Path {g_str(p[0])} {g_segs(p[1])})"


def g_atom(a):
    return f"ALit ({g_value(a[1])})" if a[0] == "lit" else f"AVar {g_path(a[1])}"


def g_expr(e):
    fs = g_list(f"{{| f_name := {g_str(f)}; f_args := {g_list(g_atom(a) for a in args)} |}}" for f, args in e[1])
    return f"{{| e_left := {g_atom(e[0])}; e_filters := {fs} |}}"


def g_cond(c):
    if c[0] == "t":
        return f"CTruthy ({g_atom(c[1])})"
    if c[0] == "eq":
        return f"CEq ({g_atom(c[1])}) ({g_atom(c[2])})"
    return f"{'CAnd' if c[0] == 'and' else 'COr'} ({g_cond(c[1])}) ({g_cond(c[2])})"


def g_la(n):
    la = la_of(n)
    if not la["order"]:
        return "la_none"
    opt = lambda a: "None" if a is None else f"(Some ({g_atom(a)}))"  # noqa: E731
    off = la["offset"]
    goff = "None" if off is None else ("(Some OffContinue)" if off == "continue" else f"(Some (OffAtom ({g_atom(off)})))")
    return f"(Build_loop_args {opt(la['limit'])} {goff} {g_bool(la['reversed'])} {opt(la['cols'])})"


def g_kws(kws):
    return g_list(f"({g_str(k)}, {g_atom(a)})" for k, a in kws)


def g_nodes(ns):
    return g_list(g_node(n) for n in ns)


def g_node(n):
    k = n[0]
    if k == "text":
        return "NText"
    if k == "out":
        return f"NOutput {g_expr(n[1])}"
    if k == "assign":
        return f"NAssign {g_str(n[1])} {g_expr(n[2])}"
    if k == "capture":
        return f"NCapture {g_str(n[1])} {g_nodes(n[2])}"
    if k == "echo":
        return f"NEcho {g_expr(n[1])}"
    if k == "for":
        return f"NFor {g_str(n[1])} {g_iter(n[2])} {g_la(n)} {g_nodes(n[3])} {g_nodes(n[4])}"
    if k == "tablerow":
        return f"NTablerow {g_str(n[1])} {g_iter(n[2])} {g_la(n)} {g_nodes(n[3])}"
    if k == "if":
        alts = g_list(f"({g_cond(c)}, {g_nodes(b)})" for c, b in n[4])
        return f"NIf {g_bool(n[1])} ({g_cond(n[2])}) {g_nodes(n[3])} {alts} {g_nodes(n[5])}"
    if k == "case":
        whens = g_list(f"({g_list(g_atom(a) for a in atoms)}, {g_nodes(b)})" for atoms, b in n[2])
        return f"NCase ({g_atom(n[1])}) {whens} {g_nodes(n[3])}"
    if k == "cycle":
        return f"NCycle {g_opt(n[1], lambda a: '(' + g_atom(a) + ')')} {g_list(g_atom(a) for a in n[2])}"
    if k == "liquid":
        return f"NLiquid {g_nodes(n[1])}"
    if k == "decr":
        return f"NDecrement {g_str(n[1])}"
    if k == "with":
        return f"NWith {g_kws(n[1])} {g_nodes(n[2])}"
    if k == "macro":
        ps = g_list(f"({g_str(p)}, {g_opt(d, lambda a: '(' + g_atom(a) + ')')})" for p, d in n[2])
        return f"NMacro {g_str(n[1])} {ps} {g_nodes(n[3])}"
    if k == "call":
        return f"NCall {g_str(n[1])} {g_list(g_atom(a) for a in n[2])} {g_kws(n[3])}"
    if k == "include":
        b = "None" if n[2] is None else f"(Some ({g_path(n[2][0])}, {g_opt(n[2][1], g_str)}))"
        return f"NInclude {g_str(n[1])} {b} {g_kws(n[3])}"
    if k == "render":
        b = "None" if n[2] is None else f"(Some ({g_bool(n[2][0])}, {g_path(n[2][1])}, {g_opt(n[2][2], g_str)}))"
        return f"NRender {g_str(n[1])} {b} {g_kws(n[3])}"
    if k == "incr":
        return f"NIncrement {g_str(n[1])}"
    raise ValueError(k)


def g_prog(prog):
    tpls = g_list(f"({g_str(name)}, {g_nodes(body)})" for name, body in prog.items())
    return f"{{| pg_root := {g_str(ROOT)}; pg_tpls := {tpls} |}}"


def g_data(data):
    return g_list(f"({g_str(k)}, {g_value(v)})" for k, v in data.items())


def g_grouped(d):
    return g_list(f"({g_str(root)}, {g_list(g_segs(s) for s in seglists)})" for root, seglists in d)


def g_counts(d):
    return g_list(f"({g_str(k)}, {c}%N)" for k, c in d)


def g_aobs(o):
    if o[0] == "err":
        return f"Err {o[1]}"
    v, g, l, f, t = o[1]
    return (f"Ok {{| ob_vars := {g_grouped(v)}; ob_globals := {g_grouped(g)}; ob_locals := {g_counts(l)}; "
            f"ob_filters := {g_counts(f)}; ob_tags := {g_counts(t)} |}}")


def g_event(e):
    if e[0] == "read":
        return f"ERead {g_path((e[1], e[2]))} {g_bool(e[3])} {g_bool(e[4])}"
    if e[0] == "filter":
        return f"EFilter {g_str(e[1])}"
    return f"ETag {g_str(e[1])}"


# ============================================================================ the implementation side
_ENVCLS = None


class Tracer:
    """Trace wrappers installed in this process around the observation points C19 names."""

    def __init__(self):
        self.on = False
        self.reset(None)

    def reset(self, printed):
        self.events = []     # ("read", tpl, pos, root, segs, from_global, chain) | ("filter", name) | ("tag", name)
        self.frames = []     # ("partial", nid, isolated) | ("call", nid, def_chain)
        self.macros = {}     # (id(context), name) -> chain at definition
        self.hit = False
        self.printed = printed
        self.tpl_of_src = {} if printed is None else {s: n for n, s in printed.src.items()}

    # -- chains: the include/render sites (node ids) through which the current template was entered
    def chain(self, upto=None):
        frames = self.frames if upto is None else self.frames[:upto]
        out = []
        for fr in frames:
            if fr[0] == "call":
                out = list(fr[2])
            else:
                out.append((fr[1], fr[2]))
        return tuple(out)

    def nid_of(self, token, table):
        tpl = self.tpl_of_src.get(token.source)
        return table.get((tpl, token.start_index))

    def read(self, path, token, hit):
        root = path[0]
        segs = list(path[1:])
        hitp = self.nid_of(token, self.printed.path_at) if token is not None else None
        nid = None
        if hitp is not None:
            nid, sp = hitp          # the path as written (a nested path stays a nested path)
            root, segs = sp[0], list(sp[1])
        upto = None
        if self.frames and nid is not None and self.frames[-1][1] == nid:
            upto = len(self.frames) - 1     # a read made by the include/render/call tag itself
        self.events.append(("read", nid, root, segs, hit, self.chain(upto)))

    def enter(self, node, context):
        from liquid.ast import BlockNode, ConditionalBlockNode
        from liquid.builtin.tags.case_tag import MultiExpressionBlockNode
        from liquid.token import TOKEN_TAG

        tok = node.token
        if isinstance(node, (BlockNode, ConditionalBlockNode, MultiExpressionBlockNode)) or tok.kind != TOKEN_TAG:
            return False
        self.events.append(("tag", tok.value))
        if tok.value in ("include", "render"):
            nid = self.nid_of(tok, self.printed.tag_at)
            self.frames.append(("partial", nid, tok.value == "render"))
            return True
        if tok.value == "macro":
            nid = self.nid_of(tok, self.printed.tag_at)
            if nid is not None:
                self.macros[(id(context), self.printed.nodes[nid][1])] = self.chain()
        if tok.value == "call":
            nid = self.nid_of(tok, self.printed.tag_at)
            if nid is None:
                return False
            name = self.printed.nodes[nid][1]
            # a macro body may call the macros defined before the call in the calling context (its parents)
            chain, ctx = (), context
            while ctx is not None:
                if (id(ctx), name) in self.macros:
                    chain = self.macros[(id(ctx), name)]
                    break
                ctx = ctx.parent_context
            self.frames.append(("call", nid, chain))
            return True
        return False


TR = Tracer()


def env_class():
    global _ENVCLS
    if _ENVCLS is not None:
        return _ENVCLS
    from collections.abc import Mapping

    from liquid import BoundTemplate, Environment, RenderContext
    from liquid.undefined import UNDEFINED

    class Probe(Mapping):
        """The top-level render data: a lookup that reaches it and succeeds was resolved from args/globals."""

        def __init__(self, inner):
            self.inner = inner

        def __getitem__(self, k):
            v = self.inner[k]
            TR.hit = True
            return v

        def __iter__(self):
            return iter(self.inner)

        def __len__(self):
            return len(self.inner)

    class TracingContext(RenderContext):
        def __init__(self, template, *, globals=None, parent_context=None, **kw):  # noqa: A002
            if parent_context is None and TR.on:
                globals = Probe(globals if globals is not None else {})  # noqa: A001
            super().__init__(template, globals=globals, parent_context=parent_context, **kw)

        def get(self, path, *, token, default=UNDEFINED):
            TR.hit = False
            r = super().get(path, token=token, default=default)
            if TR.on:
                TR.read(path, token, TR.hit)
            return r

        async def get_async(self, path, *, token, default=UNDEFINED):
            TR.hit = False
            r = await super().get_async(path, token=token, default=default)
            if TR.on:
                TR.read(path, token, TR.hit)
            return r

        def resolve(self, name, *, token=None, default=UNDEFINED):
            TR.hit = False
            r = super().resolve(name, token=token, default=default)
            if TR.on:
                # a single-name lookup: the render tag resolving the identifier of an inline snippet. The name is bound
                # by the snippet tag (reported under locals); it is recorded, but not judged as a variable path
                TR.events.append(("name", name))
            return r

        def filter(self, name, token):  # noqa: A003
            f = super().filter(name, token)
            if not TR.on:
                return f

            def traced(*a, **k):
                TR.events.append(("filter", name))
                return f(*a, **k)

            if hasattr(f, "filter_async"):
                async def traced_async(*a, **k):
                    TR.events.append(("filter", name))
                    return await f.filter_async(*a, **k)

                traced.filter_async = traced_async
            return traced

    class TracingTemplate(BoundTemplate):
        context_class = TracingContext

    class TracingEnv(Environment):
        template_class = TracingTemplate

    _ENVCLS = TracingEnv
    return _ENVCLS


class patched_nodes:
    """Node.render / Node.render_async wrapped for the duration of one traced render."""

    def __enter__(self):
        from liquid.ast import Node

        self.Node = Node
        self.orig = (Node.render, Node.render_async)
        orig, orig_async = self.orig

        def render(node, context, buffer):
            pushed = TR.enter(node, context)
            try:
                return orig(node, context, buffer)
            finally:
                if pushed:
                    TR.frames.pop()

        async def render_async(node, context, buffer):
            pushed = TR.enter(node, context)
            try:
                return await orig_async(node, context, buffer)
            finally:
                if pushed:
                    TR.frames.pop()

        Node.render = render
        Node.render_async = render_async
        TR.on = True
        return self

    def __exit__(self, *exc):
        TR.on = False
        self.Node.render, self.Node.render_async = self.orig
        return False


_ENV = None


def make_env(printed):
    """One environment for the whole run; each program gets a fresh (non-caching) loader."""
    global _ENV
    import liquid.extra as ex
    from liquid import DictLoader

    if _ENV is None:
        _ENV = env_class()()
        _ENV.add_tag(ex.MacroTag)
        _ENV.add_tag(ex.CallTag)
        _ENV.add_tag(ex.WithTag)
        _ENV.add_tag(ex.SnippetTag)
    _ENV.loader = DictLoader(dict(printed.src))
    return _ENV


def observe_analysis(env, use_async):
    try:
        t = run_async(env.get_template_async(ROOT)) if use_async else env.get_template(ROOT)
        a = run_async(t.analyze_async()) if use_async else t.analyze()
    except Exception as e:  # noqa: BLE001
        return ("err", classify_exc(e))

    def seg(x):
        return ("sub", x[0], [seg(y) for y in x[1:]]) if isinstance(x, list) else x

    def grouped(d):
        return [(root, [[seg(x) for x in v.segments[1:]] for v in vs]) for root, vs in d.items()]

    def counts(d):
        return [(k, len(v)) for k, v in d.items()]

    return ("ok", (grouped(a.variables), grouped(a.globals), counts(a.locals), counts(a.filters), counts(a.tags)))


def traced_render(env, printed, data, use_async):
    """(events, error class or None) of one render under the trace wrappers."""
    TR.reset(printed)
    err = None
    with patched_nodes():
        try:
            if use_async:
                t = run_async(env.get_template_async(ROOT))
                run_async(t.render_async(**data))
            else:
                env.get_template(ROOT).render(**data)
        except Exception as e:  # noqa: BLE001
            err = classify_exc(e)
    return list(TR.events), err


# ============================================================================ reference: "bound at this reference"
class Unbounded(Exception):
    pass


def in_scope_of(n):
    if n[0] == "include":
        return [k for k, _ in n[3]] + ([] if n[2] is None else [n[2][1] or n[1]])
    return [k for k, _ in n[3]] + ([] if n[2] is None else [n[2][2] or n[1]])


def tscope_of(n):
    return [n[1]] if n[0] in ("assign", "capture", "incr", "decr") else []


def bscope_of(n):
    if n[0] == "for":
        return [n[1], "forloop"]
    if n[0] == "tablerow":
        return [n[1], "tablerowloop"]
    if n[0] == "with":
        return [k for k, _ in n[1]]
    if n[0] == "macro":
        return ["args", "kwargs"] + [p for p, _ in n[2]]
    return []


def assigned_names(prog, n, active=()):
    """Names given a value by assign/capture/increment tags in n, in partials it includes (shared scope) expanded."""
    out = list(tscope_of(n))
    if n[0] == "include":
        if n[1] in active:
            raise Unbounded
        for c in prog.get(n[1], []):
            out += assigned_names(prog, c, active + (n[1],))
    elif n[0] != "render":
        for c in children_of(n):
            out += assigned_names(prog, c, active)
    return out


def names_at(prog, tpl, idx, entry):
    """Names bound at node idx of tpl by enclosing blocks or by assignments earlier in source order,
    given the names bound on entry to the template."""
    sg = set(entry)
    ns = prog[tpl]
    for depth, i in enumerate(idx):
        for sib in ns[:i]:
            sg.update(assigned_names(prog, sib, (tpl,)))
        n = ns[i]
        if depth + 1 < len(idx):
            sg.update(tscope_of(n))
            sg.update(bscope_of(n))
            ns = children_of(n)
    return sg


def bound_names(prog, nid, chain):
    entry = set()
    for site, isolated in chain:
        stpl, sidx = site
        at_site = names_at(prog, stpl, sidx, entry)
        n = node_at(prog, site)
        entry = set(in_scope_of(n)) if isolated else at_site | set(in_scope_of(n))
    return names_at(prog, nid[0], nid[1], entry)


def node_at(prog, nid):
    ns = prog[nid[0]]
    n = None
    for i in nid[1]:
        n = ns[i]
        ns = children_of(n)
    return n


def model_events(prog, events):
    """Trace in the model's vocabulary: reads carry (from_global, excused)."""
    out = []
    for e in events:
        if e[0] == "read":
            _, nid, root, segs, hit, chain = e
            try:
                exc = None if nid is None else root in bound_names(prog, nid, chain)
            except Unbounded:
                exc = None
            out.append(("read", root, segs, hit, exc))
        else:
            out.append(e)
    return out


# ============================================================================ program generator
GEN = ["a", "b", "c", "x", "y"]
SINK = ["w", "v"]
KEYS = ["k", "l"]
FILTERS0 = ["upcase", "downcase"]
FILTERS1 = ["append", "prepend"]
PARTS = ["p1", "p2", "p3"]


class Gen:
    def __init__(self, rng, wild):
        self.rng = rng
        self.wild = wild
        self.macros = []

    def path(self, sink_ok):
        r = self.rng
        pool = GEN + (SINK + ["forloop", "tablerowloop"] if sink_ok else []) + ["xs", "obj"]
        root = r.choice(pool)
        segs = []
        if root == "forloop":
            segs = r.choice([["index"], ["length"], ["parentloop", "index"]])
        elif root == "tablerowloop":
            segs = [r.choice(["index", "col"])]
        else:
            while r.random() < 0.25 and len(segs) < 2:
                k = r.random()
                if k < 0.5:
                    segs.append(r.choice(KEYS))
                elif k < 0.8:
                    segs.append(r.choice([0, 1]))
                else:   # a nested path: its value is the key
                    segs.append(self.subpath(0))
        return (root, segs)

    def subpath(self, depth):
        """A path used as a segment; it may itself use a path as a segment (a[b[c.k]]), to depth 3."""
        r = self.rng
        sub = []
        while r.random() < 0.45 and len(sub) < 2:
            k = r.random()
            if k < 0.4:
                sub.append(r.choice(KEYS))
            elif k < 0.6 or depth >= 2:
                sub.append(0)
            else:
                sub.append(self.subpath(depth + 1))
        return ("sub", r.choice(GEN + ["obj"]), sub)

    def lit(self):
        r = self.rng
        return ("lit", r.choice([0, 1, 2, "s1", "s2", True, False]))

    def atom(self, sink_ok, plit=0.3):
        if self.rng.random() < plit:
            return self.lit()
        return ("var", self.path(sink_ok))

    def expr(self, filters):
        r = self.rng
        fs = []
        if filters:
            for _ in range(r.choice([0, 1, 1, 2])):
                if r.random() < 0.5:
                    fs.append((r.choice(FILTERS0), []))
                else:
                    fs.append((r.choice(FILTERS1), [self.atom(True)]))
        return (self.atom(bool(fs) or filters, 0.15), fs)

    def cond(self, depth=0):
        r = self.rng
        if depth < 2 and r.random() < 0.3:
            leaf = self.cond(2)
            return (r.choice(["and", "or"]), leaf, self.cond(depth + 1))
        if r.random() < 0.5:
            return ("t", ("var", self.path(False)))
        return ("eq", ("var", self.path(False)), ("lit", r.choice([0, 1, "s1"])))

    def iter_src(self):
        r = self.rng
        if r.random() < 0.25:
            lo = ("lit", r.choice([0, 1])) if r.random() < 0.6 else ("var", self.path(False))
            hi = ("lit", r.choice([0, 1, 2, 3])) if r.random() < 0.6 else ("var", self.path(False))
            return ("range", lo, hi)
        return ("path", r.choice([("xs", []), ("obj", []), ("obj", ["l"]), self.path(False)]))

    def loop_args(self, tablerow):
        """limit / offset / reversed / cols in a random source order; values are small integer literals or paths (a path that
        does not hold an integer fails the render with a type error, which the model follows)."""
        r = self.rng
        if r.random() < 0.55:
            return None
        val = lambda: ("lit", r.choice([0, 1, 2])) if r.random() < 0.55 else ("var", self.path(False))  # noqa: E731
        la = {"limit": None, "offset": None, "reversed": False, "cols": None, "order": []}
        names = ["limit", "offset", "reversed"] + (["cols"] if tablerow else [])
        r.shuffle(names)
        for nm in names:
            if r.random() < 0.5:
                continue
            la["order"].append(nm)
            if nm == "reversed":
                la["reversed"] = True
            elif nm == "offset" and r.random() < 0.3:
                la["offset"] = "continue"
            else:
                la[nm] = val()
        return la if la["order"] else None

    def kws(self, names, lo=0, hi=2):
        r = self.rng
        out = []
        used = set()
        for _ in range(r.randrange(lo, hi + 1)):
            k = r.choice(names)
            if k in used:
                continue
            used.add(k)
            out.append((k, self.atom(k in SINK)))
        return out

    def body(self, depth, refs, inc_ok, lo=1, hi=4, liq=False):
        return [self.node(depth, refs, inc_ok, liq) for _ in range(self.rng.randrange(lo, hi + 1))]

    def node(self, depth, refs, inc_ok, liq=False):
        """refs: [(partial name, render_safe)] this template may reference; inc_ok: include allowed here;
        liq: inside a liquid tag (no text, no output statement, no nested liquid)."""
        r = self.rng
        kinds = ["echo"] * 2 + ["assign"] * 3 + ["incr", "decr", "cycle", "call"]
        if not liq:
            kinds += ["out"] * 4 + ["text"]
        if depth < 3:
            kinds += ["for"] * 3 + ["if"] * 3 + ["case"] * 2 + ["with"] * 2 + ["capture", "macro", "tablerow"]
            if not liq:
                kinds += ["liquid"]
        if refs:
            kinds += ["include"] * 4 + ["render"] * 4
        k = r.choice(kinds)
        sub = lambda lo, hi, refs_=refs, inc=inc_ok: self.body(depth + 1, refs_, inc, lo, hi, liq)  # noqa: E731
        if k == "text":
            return ("text", r.choice(["t", "u "]))
        if k == "out":
            return ("out", self.expr(True))
        if k == "echo":
            return ("echo", self.expr(True))
        if k == "assign":
            e = self.expr(r.random() < 0.4)
            sinky = bool(e[1]) or (e[0][0] == "var" and e[0][1][0] in SINK + ["forloop", "tablerowloop"])
            return ("assign", r.choice(SINK if sinky else GEN), e)
        if k == "incr":
            return ("incr", r.choice(["n", "a"]))
        if k == "decr":
            return ("decr", r.choice(["n", "b"]))
        if k == "cycle":
            # the group name is a single token: a literal or a one-segment path
            group = (self.lit() if r.random() < 0.4 else ("var", (r.choice(GEN + SINK), []))) if r.random() < 0.3 else None
            return ("cycle", group, [self.atom(True) for _ in range(r.randrange(1, 4))])
        if k == "capture":
            return ("capture", r.choice(SINK), sub(1, 2))
        if k == "for":
            els = sub(1, 2) if r.random() < 0.25 else []
            return ("for", r.choice(GEN), self.iter_src(), sub(1, 3), els, self.loop_args(False))
        if k == "tablerow":
            return ("tablerow", r.choice(GEN), self.iter_src(), sub(1, 2), self.loop_args(True))
        if k == "if":
            alts = [(self.cond(), sub(1, 2)) for _ in range(r.choice([0, 0, 1, 2]))]
            els = sub(1, 2) if r.random() < 0.4 else []
            return ("if", r.random() < 0.25, self.cond(), sub(1, 3), alts, els)
        if k == "case":
            whens = []
            for _ in range(r.randrange(1, 4)):
                whens.append(([self.lit() for _ in range(r.choice([1, 1, 2]))], sub(1, 2)))
            els = sub(1, 2) if r.random() < 0.5 else []
            return ("case", self.atom(False, 0.1), whens, els)
        if k == "liquid":
            return ("liquid", self.body(depth + 1, refs, inc_ok, 1, 4, True))
        if k == "with":
            return ("with", self.kws(GEN + SINK, 1, 2) or [("a", self.lit())], sub(1, 3))
        if k == "macro":
            name = r.choice(["m1", "m2"])
            params = []
            for p in r.sample(GEN, r.randrange(0, 3)):
                params.append((p, self.atom(False) if r.random() < 0.4 else None))
            safe = [x for x in refs if x[1]] if not self.wild else refs
            return ("macro", name, params, self.body(depth + 1, safe, bool(self.wild) and inc_ok, 1, 3, liq))
        if k == "call":
            pos = [self.atom(False) for _ in range(r.randrange(0, 3))]
            return ("call", r.choice(["m1", "m2"]), pos, self.kws(GEN, 0, 2))
        if k == "include":
            if not inc_ok:
                return ("echo", self.expr(True))
            p = r.choice(refs)[0]
            bind = None
            if r.random() < 0.35:
                bind = (r.choice([("xs", []), self.path(False)]), r.choice(GEN) if r.random() < 0.7 else None)
            return ("include", p, bind, self.kws(GEN + SINK, 0, 2))
        if k == "render":
            cands = refs if self.wild else [x for x in refs if x[1]]
            if not cands:
                return ("echo", self.expr(True))
            p = r.choice(cands)[0]
            bind = None
            if r.random() < 0.4:
                bind = (r.random() < 0.5, r.choice([("xs", []), self.path(False)]), r.choice(GEN) if r.random() < 0.7 else None)
            return ("render", p, bind, self.kws(GEN + SINK, 0, 2))
        raise ValueError(k)


def has_include(ns):
    for n in ns:
        if n[0] == "include" or has_include(children_of(n)):
            return True
    return False


def renders(ns):
    out = set()
    for n in ns:
        if n[0] == "render":
            out.add(n[1])
        out |= renders(children_of(n))
    return out


def gen_program(rng, wild):
    g = Gen(rng, wild)
    nparts = rng.choice([1, 2, 2, 3])
    names = PARTS[:nparts]
    prog = {}
    safe = {}
    if wild == "recursive":
        allrefs = [(n, True) for n in names + [ROOT]]
        for n in reversed(names):
            prog[n] = [("text", f"[{n}]")] + g.body(1, allrefs, True, 1, 3)
        prog[ROOT] = [("text", f"[{ROOT}]")] + g.body(0, allrefs, True, 3, 7)
    elif wild:
        # acyclic, but include may sit under render or in a macro body (it is then disabled at run time)
        for i in range(nparts - 1, -1, -1):
            prog[names[i]] = [("text", f"[{names[i]}]")] + g.body(1, [(m, True) for m in names[i + 1:]], True, 1, 3)
        prog[ROOT] = [("text", f"[{ROOT}]")] + g.body(0, [(m, True) for m in names], True, 3, 7)
    else:
        for i in range(nparts - 1, -1, -1):
            n = names[i]
            refs = [(m, safe[m]) for m in names[i + 1:]]
            inc_ok = rng.random() < 0.6
            body = g.body(1, refs, inc_ok, 1, 3)
            prog[n] = [("text", f"[{n}]")] + body
            safe[n] = not has_include(body) and all(safe[m] for m in renders(body))
        prog[ROOT] = [("text", f"[{ROOT}]")] + g.body(0, [(m, safe[m]) for m in names], True, 3, 7)
    return {k: prog[k] for k in [ROOT] + names}


def gen_data(rng):
    def val(depth=0):
        k = rng.random()
        if k < 0.25:
            return rng.choice([0, 1, 2])
        if k < 0.45:
            return rng.choice(["s1", "s2", ""])
        if k < 0.55:
            return rng.choice([True, False])
        if k < 0.62:
            return None
        if k < 0.85 or depth:
            return [rng.choice([0, 1, "s1", "s2"]) for _ in range(rng.randrange(0, 4))]
        return {"k": val(1), "l": [rng.choice([0, 1, "s1"]) for _ in range(rng.randrange(0, 3))]}

    data = {}
    for n in GEN + SINK:
        if rng.random() < 0.6:
            data[n] = val()
    if rng.random() < 0.85:
        data["xs"] = [rng.choice([0, 1, 2, "s1"]) for _ in range(rng.randrange(0, 4))]
    if rng.random() < 0.8:
        data["obj"] = {"k": val(1), "l": [rng.choice([0, 1, "s1"]) for _ in range(rng.randrange(0, 3))]}
    return data


def is_recursive(prog):
    def refs(ns):
        out = set()
        for n in ns:
            if n[0] in ("include", "render"):
                out.add(n[1])
            out |= refs(children_of(n))
        return out

    graph = {k: refs(v) for k, v in prog.items()}
    state = {}

    def dfs(u):
        state[u] = 1
        for v in graph.get(u, ()):
            if state.get(v) == 1 or (state.get(v) is None and dfs(v)):
                return True
        state[u] = 2
        return False

    return any(state.get(k) is None and dfs(k) for k in graph)


# witnesses of the three defects found on the unfixed tree, and their neighbours (run first, every time)
def V(root, *segs):
    return ("var", (root, list(segs)))


def OUT(root, *fs):
    return ("out", (V(root), list(fs)))


SEEDS = [
    # a shared-scope partial reached inside a block binding x and again outside it
    ({ROOT: [FOR("x", ("xs", []), [("include", "p1", None, [])], []), ("include", "p1", None, [])],
      "p1": [("text", "[p1]"), OUT("x")]}, [{"xs": [1, 2], "x": "G"}, {"x": "G"}, {}]),
    ({ROOT: [("include", "p1", None, [("x", ("lit", 1))]), ("include", "p1", None, [])],
      "p1": [("text", "[p1]"), OUT("x")]}, [{"x": "G"}, {}]),
    ({ROOT: [("with", [("x", ("lit", 1))], [("include", "p1", None, [])]), ("include", "p1", None, [])],
      "p1": [("text", "[p1]"), OUT("x")]}, [{"x": "G"}]),
    ({ROOT: [("render", "p1", (False, ("y", []), "x"), []), ("render", "p1", (False, ("y", []), "z"), [])],
      "p1": [("text", "[p1]"), OUT("x")]}, [{"x": "G", "y": 1}]),
    ({ROOT: [("render", "p1", None, [("x", ("lit", 1))]), ("include", "p1", None, [])],
      "p1": [("text", "[p1]"), OUT("x")]}, [{"x": "G"}]),
    ({ROOT: [("include", "p1", None, []), ("assign", "x", (("lit", 1), [])), ("include", "p1", None, [])],
      "p1": [("text", "[p1]"), OUT("x")]}, [{"x": "G"}]),
    # a partial first met while its parent is revisited for globals only
    ({ROOT: [IF(("t", V("go")), [("render", ROOT, None, [("go", ("lit", False))])], []), ("render", "p1", None, [])],
      "p1": [("text", "[p1]"), OUT("y", ("upcase", [])), ("assign", "z", (("lit", 1), []))]},
     [{"go": True, "y": "hello"}, {"y": "h"}]),
    ({ROOT: [IF(("t", V("go")), [("render", ROOT, None, [("go", ("lit", False))])], []), ("include", "p1", None, [])],
      "p1": [("text", "[p1]"), OUT("y", ("upcase", []))]}, [{"go": True, "y": "hello"}]),
    # an include inside a rendered partial writes the root template's scope
    ({ROOT: [IF(("t", V("go")), [("render", "p1", None, [])], []), OUT("v")],
      "p1": [("text", "[p1]"), ("include", "p2", None, [])], "p2": [("text", "[p2]"), ("assign", "v", (("lit", 1), []))]},
     [{"v": "G"}, {"v": "G", "go": True}]),
    # macros, captures, counters
    ({ROOT: [FOR("x", ("xs", []), [("macro", "m1", [("a", V("x"))], [OUT("a"), OUT("x"), OUT("b")])], []),
             ("call", "m1", [], []), ("call", "m1", [V("b")], [("k", V("c"))]), ("incr", "n"), OUT("n"),
             ("capture", "w", [OUT("w"), OUT("forloop", )]), OUT("w")]},
     [{"xs": [1], "x": "G", "b": 2, "c": 3, "n": "N"}, {}]),
    # a variable NAMED LIKE THE PARTIAL, read inside it: render/include `with … as alias` bind the alias, not the partial's name
    ({ROOT: [("render", "p1", (False, ("y", []), "x"), [])], "p1": [("text", "[p1]"), OUT("p1"), OUT("x")]}, [{"p1": "G", "y": 1}, {"y": 2}]),
    ({ROOT: [("render", "p1", (True, ("ys", []), "x"), [])], "p1": [("text", "[p1]"), OUT("p1"), OUT("x")]}, [{"p1": "G", "ys": [1, 2]}]),
    ({ROOT: [("render", "p1", (False, ("y", []), None), [])], "p1": [("text", "[p1]"), OUT("p1")]}, [{"p1": "G", "y": 1}]),
    # the constructs added when the model was widened: unless/elsif, case/when (a value met twice renders twice), tablerow,
    # ranges, cycle, decrement, echo, liquid bodies, nested paths
    ({ROOT: [("if", True, ("t", V("u")), [OUT("a")], [(("eq", V("v"), ("lit", 1)), [("assign", "x", (("lit", 1), []))]),
                                                     (("t", V("z")), [OUT("x")])], [OUT("x"), OUT("b")]), OUT("x")]},
     [{"u": True, "v": 1, "x": "G"}, {"u": True, "z": 1, "x": "G"}, {"u": 1, "x": "G"}, {"x": "G"}]),
    ({ROOT: [("case", V("s"), [([("lit", 1), ("lit", 1)], [OUT("a"), ("assign", "y", (("lit", 2), []))]),
                               ([("lit", "s1")], [OUT("y")])], [OUT("y"), OUT("c")]), OUT("y")]},
     [{"s": 1, "y": "G"}, {"s": "s1", "y": "G"}, {"s": 5, "y": "G"}, {}]),
    ({ROOT: [("tablerow", "i", ("range", ("lit", 1), V("n")), [OUT("i"), ("out", (V("tablerowloop", "index"), [])), OUT("forloop")]),
             OUT("i"), ("for", "j", ("range", V("lo"), ("lit", 2)), [OUT("j")], [OUT("lo")])]},
     [{"n": 2, "i": "G", "lo": 1}, {"n": "s1", "lo": 5}, {"i": "G"}]),
    ({ROOT: [("cycle", V("g"), [V("a"), ("lit", 1)]), ("cycle", None, [V("b")]), ("decr", "d"), OUT("d"), ("incr", "d"), OUT("d"),
             ("echo", (V("e"), [("append", [V("f")])])),
             ("liquid", [("assign", "q", (("var", ("a", [("sub", "b", ["k"])])), [("upcase", [])])),
                         ("if", False, ("t", V("q")), [("echo", (V("x"), []))], [(("t", V("z")), [("echo", (V("y"), []))])], []),
                         ("for", "x", ("path", ("xs", [])), [("echo", (V("x"), [])), ("include", "p1", None, [])], [])]),
             ("include", "p1", None, [])],
      "p1": [("text", "[p1]"), OUT("x"), ("out", (("var", ("obj", [("sub", "x", []), 0])), []))]},
     [{"a": {"kk": 1}, "b": {"k": "kk"}, "x": "l", "xs": ["k", "l"], "obj": {"k": [7], "l": [8]}, "d": "D", "g": "G", "e": 1, "f": 2},
      {"x": "k"}]),
    # loop arguments: every argument is reported whichever of the others are present and in whatever order they are written;
    # offset: continue resumes where the last loop over the same variable and iterable stopped; an unconvertible limit fails the render
    ({ROOT: [("tablerow", "i", ("path", ("xs", [])), [OUT("i")],
              {"limit": V("lim"), "offset": V("off"), "reversed": True, "cols": V("c"), "order": ["cols", "reversed", "offset", "limit"]}),
             ("for", "i", ("path", ("xs", [])), [OUT("i")], [OUT("e")],
              {"limit": None, "offset": "continue", "reversed": False, "cols": None, "order": ["offset"]}),
             ("for", "i", ("path", ("xs", [])), [OUT("i")], [],
              {"limit": None, "offset": V("o", "skip"), "reversed": False, "cols": None, "order": ["offset"]}),
             ("for", "j", ("range", ("lit", 1), V("hi")), [OUT("j")], [],
              {"limit": V("lim"), "offset": None, "reversed": True, "cols": None, "order": ["reversed", "limit"]})]},
     [{"xs": [1, 2, 3], "lim": 1, "off": 1, "c": 2, "o": {"skip": 2}, "hi": 3}, {"xs": [1, 2, 3], "lim": "s1", "off": 1},
      {"xs": [1, 2], "off": [1]}, {"xs": [1, 2, 3], "lim": True, "hi": 2}, {}]),
    # paths nested to depth 3: a[b[c[d.k]]] -- each level is reported and read on its own, innermost first
    ({ROOT: [("out", (("var", ("a", [("sub", "b", [("sub", "c", [("sub", "d", ["k"]), 0])]), "k"])), [])),
             ("for", "x", ("path", ("xs", [("sub", "b", [("sub", "y", [])])])), [OUT("x")], [],
              {"limit": ("var", ("obj", [("sub", "d", ["k"])])), "offset": None, "reversed": False, "cols": None, "order": ["limit"]})]},
     [{"a": {"s1": {"k": 1}}, "b": {"q": "s1"}, "c": {"l": ["q"]}, "d": {"k": "l"}, "xs": {"s1": [1, 2]}, "y": "q", "obj": {"l": 1}},
      {"d": {"k": "l"}}, {}]),
]


# programs outside the modelled language, given as source text: judged by the oracle (trace within report) only
RAW = [
    # inline snippets rendered by identifier
    ({ROOT: "{% snippet a %}{{ x }}{% endsnippet %}{% snippet b %}{{ y | upcase }}{% assign q = 1 %}{% endsnippet %}"
            "{% render a %}{% render b %}"}, [{"x": "X", "y": "y"}]),
    ({ROOT: "{% snippet a %}{{ x }}{% endsnippet %}{% render a %}{% render a, x: 1 %}"}, [{"x": "X"}]),
    ({ROOT: "{% snippet a %}{{ x | downcase }}{% endsnippet %}{% for i in (1..2) %}{% render a, i: i %}{% endfor %}"}, [{"x": "X"}]),
    # loop arguments (limit / offset / cols / reversed are outside the mini language): every argument that a render reads must be
    # reported, whichever of the other arguments are present
    ({ROOT: "{% for i in xs offset: skip %}{{ i }}{% endfor %}"}, [{"xs": [1, 2, 3], "skip": 1}]),
    ({ROOT: "{% for i in xs limit: lim %}{{ i }}{% endfor %}"}, [{"xs": [1, 2, 3], "lim": 2}]),
    ({ROOT: "{% for i in xs limit: lim offset: skip reversed %}{{ i }}{% endfor %}"}, [{"xs": [1, 2, 3], "lim": 2, "skip": 1}]),
    ({ROOT: "{% for i in xs reversed offset: o.skip %}{{ i }}{{ forloop.index }}{% endfor %}"}, [{"xs": [1, 2, 3], "o": {"skip": 1}}]),
    ({ROOT: "{% tablerow i in xs cols: c %}{{ i }}{% endtablerow %}"}, [{"xs": [1, 2, 3], "c": 2}]),
    ({ROOT: "{% tablerow i in xs offset: skip cols: c %}{{ i }}{% endtablerow %}"}, [{"xs": [1, 2, 3], "c": 2, "skip": 1}]),
    ({ROOT: "{% tablerow i in xs limit: lim cols: c %}{{ i }}{{ tablerowloop.col }}{% endtablerow %}"}, [{"xs": [1, 2, 3], "c": 2, "lim": 2}]),
    ({ROOT: "{% for i in (lo..hi) offset: skip %}{{ i }}{% endfor %}{% for j in (1..hi) limit: lim %}{{ j }}{% endfor %}"},
     [{"lo": 1, "hi": 3, "skip": 1, "lim": 1}]),
    ({ROOT: "{% render 'p' for xs as it, extra: e %}", "p": "{% for k in it offset: off %}{{ k }}{{ extra }}{% endfor %}"},
     [{"xs": [[1, 2], [3]], "e": "E", "off": 1}]),
]


class RawPrinted:
    def __init__(self, src):
        self.src = dict(src)
        self.tag_at = {}
        self.path_at = {}
        self.nodes = {}


# ============================================================================ the check
def judge(prog, printed, ana, events, recursive):
    """Oracle: trace within report.  Returns [(signature, what)]."""
    bad = []
    if ana[0] != "ok":
        return bad
    v, g, _l, f, t = ana[1]
    def norm(segs):
        return tuple(("sub", x[1], norm(x[2])) if isinstance(x, (tuple, list)) else x for x in segs)

    vset = {(root, norm(s)) for root, sl in v for s in sl}
    gset = {root for root, _ in g}
    fset = {k for k, _ in f}
    tset = {k for k, _ in t}
    for e in events:
        if e[0] == "read":
            _, root, segs, hit, exc = e
            if (root, norm(segs)) not in vset:
                bad.append(("c19-variable-not-reported", f"variable path {path_src((root, segs))} is read but not reported"))
            if hit and exc is False and root not in gset:
                bad.append(("c19-global-not-reported", f"{root} is read from the render arguments at a reference where "
                            "no enclosing block binds it and no assignment precedes it, but is not reported as a global"))
        elif e[0] == "name":
            pass
        elif e[0] == "filter":
            if e[1] not in fset:
                bad.append(("c19-filter-not-reported", f"filter {e[1]} is applied but not reported"))
        elif e[1] not in tset:
            bad.append(("c19-tag-not-reported", f"tag {e[1]} is rendered but not reported"))
    return bad


def run_case(prog, datas):
    printed = print_program(prog)
    env = make_env(printed)
    a_sync = observe_analysis(env, False)
    a_async = observe_analysis(env, True)
    recursive = is_recursive(prog)
    runs = []
    for data in datas:
        ev_s, err_s = traced_render(env, printed, data, False)
        ev_a, err_a = traced_render(env, printed, data, True)
        runs.append((data, model_events(prog, ev_s), err_s, model_events(prog, ev_a), err_a))
    return printed, a_sync, a_async, recursive, runs


def run(ck: Check) -> None:
    ck.rule = (
        "programs = a root template and 1..3 partials over: output/echo with filters (path arguments), assign, capture, "
        "increment/decrement (read back through the counters), for/else and tablerow over paths and ranges (a..b) with limit / offset (also continue) / reversed / cols in any source order, if/unless with "
        "elsif/else (and/or/==), case/when/else (several values per when), cycle (with group), liquid tag bodies (line syntax, nested "
        "blocks), with, macro (defaults)/call (positional, keyword), include (with .. as, arguments), render (with/for .. as, "
        "arguments); paths with keys, indexes and paths nested to depth 3 (a[b[c.d]]), forloop/parentloop/tablerowloop reads; names "
        "drawn from a small pool so that render arguments, locals, loop variables, parameters, counters and partial arguments shadow "
        "each other; partials are included and rendered several times from different scopes. Seventeen seeds (witnesses of the repaired "
        "defects, their neighbours, one program per added construct) run first; then seeded random programs: 6/8 'tame' (acyclic, "
        "include only where it can run), 1/8 'norules' (acyclic, include also under render and in macro bodies), 1/8 'recursive'. "
        "Twelve raw-source programs (inline snippets; for / tablerow with limit, offset, cols, reversed in every combination -- outside the model) are judged by the oracle only. Each program is analysed "
        "(analyze and analyze_async) and rendered with 3-5 data sets (render and render_async) under the trace wrappers; quick 60 "
        "programs, thorough 1500. distinct = distinct program text; non-trivial = at least two include/render tags."
    )
    ck.exhaustive = False
    ck.trusted_base = [
        "Coq 8.16.1 kernel + vm_compute",
        "harness: program generator, source printer with token positions, Gallina printers (props/c19.py)",
        "harness trace wrappers: a RenderContext subclass (get/get_async/resolve/filter; the top-level render data wrapped in a probe "
        "mapping that notes a successful lookup) installed through Environment.template_class / BoundTemplate.context_class, and "
        "Node.render/render_async patched for the duration of a traced render; nothing in /repo is changed",
        "harness reference computation of the names bound at a reference (enclosing blocks + earlier assignments, shared-scope partials "
        "expanded along the dynamic chain of include/render sites; macro bodies at their definition site)",
        "modelled not verified: dict insertion order, frozenset equality, absence of collisions of hash((name, *argument names))",
    ]
    ck.assumptions = [
        "mini language of StaticAnalysis.v: no break/continue, ifchanged; loop argument values are small integers or paths (a value int() rejects fails the "
        "render with a type error, which the model follows); inline snippets are outside the model (oracle only); filter values, captures and the "
        "forloop/tablerowloop objects are opaque (the generator keeps them out of conditions, loops, ranges, case subjects and "
        "with/for bindings); when values are literals; path keys other than size/first/last; template names without dots; strict "
        "mode, default limits",
        "globals clause: increment counts as an assignment; names assigned inside a macro body or inside a partial included earlier "
        "count as assigned earlier in source order; a rendered partial starts from its arguments alone",
        "the model's trace is compared on renders that end normally or with the disabled include tag, of non-recursive programs; the "
        "oracle (trace within report) judges every render, also those cut short by an error",
    ]
    ck.proof()

    rng = ck.rng
    nrand = 60 if ck.quick else 1500
    programs = [(tup(p), [dict(d) for d in ds], "seed") for p, ds in SEEDS]
    for i in range(nrand):
        wild = "recursive" if i % 8 == 7 else ("norules" if i % 8 == 3 else "")
        prog = gen_program(rng, wild)
        datas = [gen_data(rng) for _ in range(rng.randrange(3, 6))]
        programs.append((prog, datas, wild or "tame"))

    cases, expected, meta = [], [], []
    reported = {}
    for prog, datas, kind in programs:
        printed, a_sync, a_async, recursive, runs = run_case(prog, datas)
        nrefs = sum(printed.src[t].count("{% include") + printed.src[t].count("{% render") for t in printed.src)
        ck.note_case(json.dumps(printed.src, sort_keys=True), nontrivial=nrefs >= 2)
        ck.count(f"program.{kind}")
        ck.count(f"program.partial_refs.{min(nrefs, 6)}")
        if recursive:
            ck.count("program.is_recursive")
        if a_sync != a_async:
            ck.violation("impl-violation", "c19-analyze-sync-async-differ",
                         f"analyze() and analyze_async() differ on {printed.src!r}",
                         {"type": "program", "ast": prog, "templates": printed.src, "data": datas[0], "sync": a_sync, "async": a_async})
        covered = []
        for data, ev_s, err_s, ev_a, err_a in runs:
            ck.traces += 2
            ck.count("render." + (err_s or "ok"))
            for e in ev_s:
                if e[0] == "read":
                    ck.count("event.read." + ("args" if e[3] else "local") + {True: ".bound", False: ".unbound", None: ".unattributed"}[e[4]])
                else:
                    ck.count("event." + e[0])
            for label, ev, ana in (("sync", ev_s, a_sync), ("async", ev_a, a_async)):
                for sig, what in judge(prog, printed, ana, ev, recursive):
                    n = reported.get(sig, 0)
                    reported[sig] = n + 1
                    if n < 3:
                        ck.violation("impl-violation", sig, f"{what} ({label} render of {printed.src!r} with {data!r})",
                                     {"type": "program", "ast": prog, "templates": printed.src, "data": data, "mode": label,
                                      "analysis": ana})
            # the model's trace is compared where the model covers the run: no error other than the disabled include tag,
            # every read attributed to a reference of the generated program, no recursion
            ok_err = err_s in (None, "EDisabledTag", "EType")
            attributed = all(e[0] != "read" or e[4] is not None for e in ev_s)
            if ev_s != ev_a or err_s != err_a:
                ck.count("render.sync-async-trace-differs")   # C01's subject; not judged here
            if ok_err and attributed and not recursive:
                covered.append((data, ev_s, err_s))
        ck.count("trace-cases-compared-with-model", len(covered))
        cases.append(f"Build_pcase ({g_prog(prog)}) {FUEL} {g_list(g_data(d) for d, _, _ in covered)}")
        traces = g_list(f"Some ({g_list(g_event(e) for e in ev)}, {g_bool(err is not None)})" for _, ev, err in covered)
        expected.append(f"Build_pobs ({g_aobs(a_sync)}) {traces}")
        meta.append((prog, printed, a_sync, covered))
    if meta:
        m = meta[len(meta) // 2]
        ck.sample({"templates": m[1].src, "analysis": m[2]})
        m = next((x for x in meta if x[3]), None)
        if m:
            ck.sample({"templates": m[1].src, "data": m[3][0][0], "trace": m[3][0][1][:12]})

    for srcs, datas in RAW:
        printed = RawPrinted(srcs)
        env = make_env(printed)
        a_sync = observe_analysis(env, False)
        a_async = observe_analysis(env, True)
        ck.note_case(json.dumps(srcs, sort_keys=True), nontrivial=True)
        ck.count("program.raw")
        if a_sync != a_async:
            ck.violation("impl-violation", "c19-analyze-sync-async-differ", f"analyze() and analyze_async() differ on {srcs!r}",
                         {"type": "raw", "templates": srcs, "data": datas[0], "sync": a_sync, "async": a_async})
        for data in datas:
            for label, use_async, ana in (("sync", False, a_sync), ("async", True, a_async)):
                ev, _err = traced_render(env, printed, data, use_async)
                ck.traces += 1
                for sig, what in judge({}, printed, ana, model_events({}, ev), True):
                    n = reported.get(sig + ":raw", 0)
                    reported[sig + ":raw"] = n + 1
                    if n < 3:
                        ck.violation("impl-violation", sig + RAW_SUFFIX, f"{what} ({label} render of {srcs!r} with {data!r})",
                                     {"type": "raw", "templates": srcs, "data": data, "mode": label, "analysis": ana})

    explained = bool(reported)
    mm = ck.coq_mismatches("cases", IMPORTS, RUN_FN, "pobs_eqb", "pcase", "pobs", cases, expected, chunk=CHUNK, preamble=preamble())
    shown = {"a": 0, "t": 0}
    for i in mm:
        if shown["a"] >= 3 and shown["t"] >= 3:
            break
        prog, printed, a_sync, covered = meta[i]
        diff, model = ck.coq_eval(IMPORTS, [f"pobs_diff ({RUN_FN} ({cases[i]})) ({expected[i]})", f"{RUN_FN} ({cases[i]})"],
                                  preamble=preamble())
        ana_differs = "(false" in diff.replace(" ", "")[:8]
        if ana_differs and shown["a"] >= 3 or not ana_differs and shown["t"] >= 3:
            continue
        if ana_differs:
            shown["a"] += 1
            ck.violation("correspondence", "c19-analysis-correspondence",
                         f"model StaticAnalysis.analyze and analyze() disagree on {printed.src!r}"
                         + (" (the oracle reported failing inputs in this run)" if explained else ""),
                         {"type": "program", "ast": prog, "templates": printed.src, "data": {}, "impl": a_sync, "model": model[:3000],
                          "broken": "correspondence StaticAnalysis.analyze ~ BoundTemplate.analyze (theorems C19_variables_sound, "
                                    "C19_filters_sound, C19_tags_sound, C19_globals_sound)"}, no_input=True)
        else:
            shown["t"] += 1
            flags = [x == "true" for x in diff.split("[", 1)[-1].replace("]", "").replace(")", "").split(";")] if "[" in diff else []
            k = next((j for j, okj in enumerate(flags) if not okj and j < len(covered)), 0)
            data, ev, err = covered[k] if covered else ({}, [], None)
            ck.violation("correspondence", "c19-trace-correspondence",
                         f"model StaticAnalysis.exec_prog and the traced render disagree on {printed.src!r} with {data!r}",
                         {"type": "program", "ast": prog, "templates": printed.src, "data": data, "impl": [ev, err],
                          "model": model[:3000], "diff": diff,
                          "broken": "correspondence StaticAnalysis.exec_prog ~ traced render (hypothesis of every C19 theorem)"},
                         no_input=True)


def replay(data) -> int:
    case = data["case"]
    if case.get("type") == "raw" and data.get("kind") == "impl-violation":
        printed = RawPrinted(case["templates"])
        env = make_env(printed)
        a_sync, a_async = observe_analysis(env, False), observe_analysis(env, True)
        print("templates:", printed.src)
        print("data:", case["data"])
        print("analyze():", a_sync)
        bad = [("c19-analyze-sync-async-differ", "analyze() and analyze_async() differ")] if a_sync != a_async else []
        for use_async, ana in ((False, a_sync), (True, a_async)):
            ev, _err = traced_render(env, printed, case["data"], use_async)
            bad += [(sig + RAW_SUFFIX, what) for sig, what in judge({}, printed, ana, model_events({}, ev), True)]
        hit = [b for b in bad if b[0] == data.get("signature")]
        for b in hit[:3]:
            print("  ", b[1])
        print(("VIOLATION reproduced" if hit else "not reproduced") + f" property={data['property']}")
        return 1 if hit else 0
    if case.get("type") != "program" or data.get("kind") != "impl-violation":
        print("replay names a proof/correspondence obligation:", json.dumps(case)[:600])
        return 1
    prog = {k: tup(v) for k, v in case["ast"].items()}
    prog = json.loads(json.dumps(prog))     # lists all the way down, as the helpers index them
    printed, a_sync, a_async, recursive, runs = run_case(prog, [case["data"]])
    print("templates:", printed.src)
    print("data:", case["data"])
    print("analyze():", a_sync)
    bad = []
    if a_sync != a_async:
        bad.append(("c19-analyze-sync-async-differ", "analyze() and analyze_async() differ"))
    for _data, ev_s, _e, ev_a, _e2 in runs:
        print("trace (sync):", ev_s)
        bad += judge(prog, printed, a_sync, ev_s, recursive) + judge(prog, printed, a_async, ev_a, recursive)
    hit = [b for b in bad if b[0] == data.get("signature")]
    for b in hit[:3]:
        print("  ", b[1])
    print(("VIOLATION reproduced" if hit else "not reproduced") + f" property={data['property']}")
    return 1 if hit else 0
