"""C27 — Macro calls and with blocks bind arguments as documented."""

from __future__ import annotations

import itertools

from ..core import Check, classify_exc, run_async
from ..g import g_Z, g_list, g_str, g_opt

IMPORTS = "PyPrims MacroArgs"

_ENV = None


def env():
    global _ENV
    if _ENV is None:
        from liquid import Environment
        import liquid.extra as ex

        _ENV = Environment()
        ex.add_tags(_ENV)
    return _ENV


def render(src, data, use_async):
    try:
        t = env().from_string(src)
        return ("out", run_async(t.render_async(**data)) if use_async else t.render(**data))
    except Exception as e:  # noqa: BLE001
        return ("err", classify_exc(e))


# ------------------------------------------------------------------ macro calls
# case: params [(name, default|None)], pos [int], kws [(name, int)], order (interleaving seed), var_args (bool)
def call_source(case):
    params, pos, kws, order, use_vars = case
    # render arguments named like the parameters and like the surplus keywords: a parameter that gets no argument and has no
    # default is UNDEFINED inside the macro -- it must not fall through to a global of the same name
    data = {"a": 901, "b": 902, "c": 903, "x": 904, "y": 905}
    ptxt = []
    for n, d in params:
        if d is None:
            ptxt.append(n)
        elif use_vars:
            data[f"d_{n}"] = d
            ptxt.append(f"{n}: d_{n}")
        else:
            ptxt.append(f"{n}: {d}")
    items = [("p", v) for v in pos] + [("k", kv) for kv in kws]
    # interleave: keep relative order inside each class, merge by `order`
    p_it = [i for i in items if i[0] == "p"]
    k_it = [i for i in items if i[0] == "k"]
    merged, pi, ki = [], 0, 0
    bits = order
    while pi < len(p_it) or ki < len(k_it):
        take_k = (bits & 1) and ki < len(k_it) or pi >= len(p_it)
        bits >>= 1
        if take_k:
            merged.append(k_it[ki]); ki += 1
        else:
            merged.append(p_it[pi]); pi += 1
    atxt = []
    for j, (kind, v) in enumerate(merged):
        if kind == "p":
            if use_vars and j % 2 == 0:
                data[f"v{j}"] = v
                atxt.append(f"v{j}")
            else:
                atxt.append(str(v))
        else:
            atxt.append(f"{v[0]}: {v[1]}")
    body = "".join(f"{n}={{{{ {n} }}}};" for n, _ in params)
    body += "args={% for x in args %}{{ x }},{% endfor %};kwargs={% for kv in kwargs %}{{ kv[0] }}={{ kv[1] }},{% endfor %};"
    src = ("{% macro m " + ", ".join(ptxt) + " %}" + body + "{% endmacro %}{% call m " + ", ".join(atxt) + " %}")
    return src, data


def ref_call(case):
    """Documented rule: positional in order, then keywords by name (override), defaults, else undefined;
    surplus positional in args, surplus keywords in kwargs (a repeated name keeps its last value)."""
    params, pos, kws, _, _ = case
    names = [n for n, _ in params]
    out = []
    for i, (n, d) in enumerate(params):
        val = d
        if i < len(pos):
            val = pos[i]
        for k, v in kws:
            if k == n:
                val = v
        out.append(f"{n}={'' if val is None else val};")
    out.append("args=" + "".join(f"{v}," for v in pos[len(params):]) + ";")
    extra = {}
    for k, v in kws:
        if k not in names:
            extra[k] = v
    out.append("kwargs=" + "".join(f"{k}={v}," for k, v in extra.items()) + ";")
    return "".join(out)


def g_callcase(case):
    params, pos, kws, _, _ = case
    gp = g_list(f"({g_str(n)}, {g_opt(d, g_Z)})" for n, d in params)
    gk = g_list(f"({g_str(k)}, {g_Z(v)})" for k, v in kws)
    return f"{{| cc_params := {gp}; cc_pos := {g_list(g_Z(v) for v in pos)}; cc_kws := {gk} |}}"


def gen_calls(ck: Check):
    names = ["a", "b", "c"]
    kwnames = ["a", "b", "x", "y"]
    for n in range(0, 4):
        for defaults in itertools.product([False, True], repeat=n):
            params = [(names[i], (70 + i) if defaults[i] else None) for i in range(n)]
            for npos in range(0, 5):
                pos = list(range(1, npos + 1))
                for nk in range(0, 4):
                    for ks in itertools.product(kwnames, repeat=nk):
                        kws = [(k, 20 + j) for j, k in enumerate(ks)]
                        order = ck.rng.randrange(0, 256)
                        yield (params, pos, kws, order, ck.rng.random() < 0.3)


# --------------------------------------------------------------------- with blocks
# node: ('print', x) | ('with', [(k, expr)], body) | ('assign', x, expr);  expr: ('lit', z) | ('var', x)
def with_source(body):
    out = []
    for n in body:
        if n[0] == "print":
            out.append(f"{{{{ {n[1]} }}}};")
        elif n[0] == "assign":
            out.append(f"{{% assign {n[1]} = {expr_src(n[2])} %}}")
        else:
            args = ", ".join(f"{k}: {expr_src(e)}" for k, e in n[1])
            out.append(f"{{% with {args} %}}" + with_source(n[2]) + "{% endwith %}")
    return "".join(out)


def expr_src(e):
    return str(e[1])


def ref_with(globs, body):
    """Reference: with makes its keyword arguments visible only inside its block, shadowing outer names; the
    argument expressions are evaluated outside the block; assign writes the template's top-level scope."""
    out = []
    locals_ = {}
    scopes = []

    def look(x):
        for s in reversed(scopes):
            if x in s:
                return s[x]
        if x in locals_:
            return locals_[x]
        return globs.get(x)

    def ev(e):
        return e[1] if e[0] == "lit" else look(e[1])

    def go(ns):
        for n in ns:
            if n[0] == "print":
                v = look(n[1])
                out.append(("" if v is None else str(v)) + ";")
            elif n[0] == "assign":
                locals_[n[1]] = ev(n[2])
            else:
                ns_ = {}
                for k, e in n[1]:
                    ns_[k] = ev(e)
                scopes.append(ns_)
                go(n[2])
                scopes.pop()

    go(body)
    return "".join(out)


def g_wexpr(e):
    return f"WLit {g_Z(e[1])}" if e[0] == "lit" else f"WVar {g_str(e[1])}"


def g_wbody(body):
    out = []
    for n in body:
        if n[0] == "print":
            out.append(f"WPrint {g_str(n[1])}")
        elif n[0] == "assign":
            out.append(f"WAssign {g_str(n[1])} ({g_wexpr(n[2])})")
        else:
            ga = g_list(f"({g_str(k)}, {g_wexpr(e)})" for k, e in n[1])
            out.append(f"WWith {ga} {g_wbody(n[2])}")
    return g_list(out)


def g_withcase(globs, body):
    gg = g_list(f"({g_str(k)}, {g_Z(v)})" for k, v in sorted(globs.items()))
    return f"{{| wc_globals := {gg}; wc_body := {g_wbody(body)} |}}"


def gen_withs(ck: Check):
    rng = ck.rng
    names = ["x", "y", "z"]

    def rexpr():
        return ("lit", rng.randrange(1, 9)) if rng.random() < 0.5 else ("var", rng.choice(names))

    def rbody(depth):
        out = []
        for _ in range(rng.randrange(1, 4)):
            r = rng.random()
            if r < 0.4:
                out.append(("print", rng.choice(names)))
            elif r < 0.55:
                out.append(("assign", rng.choice(names), rexpr()))
            elif depth < 3:
                args = [(rng.choice(names), rexpr()) for _ in range(rng.randrange(1, 4))]
                out.append(("with", args, rbody(depth + 1) + [("print", n) for n in names]))
        return out

    # systematic: every pair of (bound name, expression) with a probe inside and after, nested once
    for k1, k2 in itertools.product(names[:2], repeat=2):
        for e1 in (("lit", 1), ("var", "x"), ("var", "y"), ("var", "z")):
            for e2 in (("lit", 2), ("var", "x"), ("var", "y")):
                probes = [("print", n) for n in names]
                inner = [("with", [(k2, e2)], probes)]
                body = probes + [("with", [(k1, e1), (k2, e2)], probes + inner + probes)] + probes
                for globs in ({}, {"x": 100}, {"x": 100, "y": 200}):
                    yield globs, body
    for _ in range(600 if ck.quick else 6000):
        globs = {n: 100 * (i + 1) for i, n in enumerate(names) if rng.random() < 0.5}
        yield globs, rbody(0) + [("print", n) for n in names]


def run(ck: Check) -> None:
    ck.rule = (
        "macro calls: every signature with 0..3 parameters (each with or without a default) x 0..4 positional x every sequence of 0..3 "
        "keyword arguments over {a,b,x,y} (matching, non-matching, duplicate), positional/keyword interleaved in the source, values partly "
        "given through caller variables (exhaustive); with blocks: systematic shadowing/evaluation-order probes plus seeded random nests "
        "(depth<=3) with assign. Non-trivial = at least one argument is bound; distinct = distinct case."
    )
    ck.exhaustive = True
    ck.trusted_base = [
        "Coq 8.16.1 kernel + vm_compute",
        "harness: generators, source printers, Gallina printers, reference binder/resolver (props/c27.py)",
        "modelled not verified: Python dict insertion order, itertools.zip_longest, the argument parser for the generated subset",
    ]
    ck.assumptions = ["argument values are integers; parameters are not named args/kwargs; expression evaluation itself belongs to C14"]
    ck.proof()

    cases, expected, meta = [], [], []
    reported = 0
    for case in gen_calls(ck):
        src, data = call_source(case)
        s = render(src, data, False)
        a = render(src, data, True)
        want = ref_call(case)
        ck.note_case(("call", case[:3]), nontrivial=bool(case[1] or case[2]))
        ck.count(f"call.params{len(case[0])}.pos{len(case[1])}.kw{len(case[2])}")
        if (s != a or s != ("out", want)) and reported < 5:
            reported += 1
            ck.violation("impl-violation", "call:" + repr(case[:3])[:200],
                         f"{src!r} data {data!r}: sync={s} async={a} documented binding={want!r}",
                         {"type": "call", "template": src, "data": data, "sync": s, "async": a, "reference": want})
        if s[0] == "out":
            cases.append(g_callcase(case))
            expected.append(g_str(s[1]))
            meta.append((case, src, data, s))
    ck.sample({"template": meta[len(meta) // 2][1], "data": meta[len(meta) // 2][2], "output": meta[len(meta) // 2][3][1]})
    mm = ck.coq_mismatches("call", IMPORTS, "run_call", "str_eqb", "callcase", "str", cases, expected, chunk=600)
    ck.traces += len(cases)
    for i in mm[:3]:
        case, src, data, s = meta[i]
        if s != ("out", ref_call(case)):
            continue
        model = ck.coq_eval(IMPORTS, [f"run_call ({g_callcase(case)})"])[0]
        ck.violation("correspondence", "c27-call-correspondence",
                     f"model MacroArgs.run_call and the implementation disagree on {src!r}",
                     {"type": "call", "template": src, "data": data, "impl": s, "model": model,
                      "broken": "correspondence MacroArgs.run_call ~ macro/call rendering (theorem C27_bind_spec)"}, no_input=True)

    wcases, wexpected, wmeta = [], [], []
    reported = 0
    for globs, body in gen_withs(ck):
        src = with_source(body)
        s = render(src, globs, False)
        a = render(src, globs, True)
        want = ref_with(globs, body)
        ck.note_case(("with", sorted(globs.items()), body), nontrivial="with" in src)
        ck.count("with.cases")
        if (s != a or s != ("out", want)) and reported < 5:
            reported += 1
            ck.violation("impl-violation", "with:" + repr((sorted(globs.items()), body))[:200],
                         f"{src!r} data {globs!r}: sync={s} async={a} documented={want!r}",
                         {"type": "with", "template": src, "data": globs, "sync": s, "async": a, "reference": want})
        if s[0] == "out":
            wcases.append(g_withcase(globs, body))
            wexpected.append(f"Some {g_str(s[1])}")
            wmeta.append((globs, body, src, s))
    ck.sample({"template": wmeta[-1][2], "data": wmeta[-1][0], "output": wmeta[-1][3][1]})
    mm = ck.coq_mismatches("with", IMPORTS, "run_with", "option_eqb str_eqb", "withcase", "option str", wcases, wexpected, chunk=400)
    ck.traces += len(wcases)
    for i in mm[:3]:
        globs, body, src, s = wmeta[i]
        if s != ("out", ref_with(globs, body)):
            continue
        model = ck.coq_eval(IMPORTS, [f"run_with ({g_withcase(globs, body)})"])[0]
        ck.violation("correspondence", "c27-with-correspondence",
                     f"model MacroArgs.run_with and the implementation disagree on {src!r}",
                     {"type": "with", "template": src, "data": globs, "impl": s, "model": model,
                      "broken": "correspondence MacroArgs.run_with ~ with-tag rendering (theorem C27_with_scoped)"}, no_input=True)


def replay(data) -> int:
    case = data["case"]
    if case.get("type") not in ("call", "with"):
        print("replay names a proof/correspondence obligation:", case)
        return 1
    s = render(case["template"], case["data"], False)
    a = render(case["template"], case["data"], True)
    print("template:", case["template"], "data:", case["data"])
    print("sync :", s)
    print("async:", a)
    print("documented:", case.get("reference"))
    bad = s != a or s != ("out", case.get("reference"))
    print(("VIOLATION reproduced" if bad else "not reproduced") + f" property={data['property']}")
    return 1 if bad else 0
