"""C27 — Macro calls and with blocks bind arguments as documented."""

from __future__ import annotations

import itertools

from ..core import Check, classify_exc, run_async
from ..g import g_Z, g_list, g_str, g_opt
from .. import scope_lib as L
from ..scope_lib import P, lit, out, assign, text
from . import c14 as C14

IMPORTS = "PyPrims MacroArgs"
PIMPORTS = "PyPrims Scope MacroCall"

_ENV = None


def env():
    global _ENV
    if _ENV is None:
        from liquid import Environment
        import liquid.extra as ex

        _ENV = Environment()
        ex.add_tags(_ENV)
    return _ENV


def render(src, data, use_async):
    try:
        t = env().from_string(src)
        return ("out", run_async(t.render_async(**data)) if use_async else t.render(**data))
    except Exception as e:  # noqa: BLE001
        return ("err", classify_exc(e))


# ------------------------------------------------------------------ macro calls
# case: params [(name, default|None)], pos [int], kws [(name, int)], order (interleaving seed), var_args (bool)
def call_source(case):
    params, pos, kws, order, use_vars = case
    # render arguments named like the parameters and like the surplus keywords: a parameter that gets no argument and has no
    # default is UNDEFINED inside the macro -- it must not fall through to a global of the same name
    data = {"a": 901, "b": 902, "c": 903, "x": 904, "y": 905}
    ptxt = []
    for n, d in params:
        if d is None:
            ptxt.append(n)
        elif use_vars:
            data[f"d_{n}"] = d
            ptxt.append(f"{n}: d_{n}")
        else:
            ptxt.append(f"{n}: {d}")
    items = [("p", v) for v in pos] + [("k", kv) for kv in kws]
    # interleave: keep relative order inside each class, merge by `order`
    p_it = [i for i in items if i[0] == "p"]
    k_it = [i for i in items if i[0] == "k"]
    merged, pi, ki = [], 0, 0
    bits = order
    while pi < len(p_it) or ki < len(k_it):
        take_k = (bits & 1) and ki < len(k_it) or pi >= len(p_it)
        bits >>= 1
        if take_k:
            merged.append(k_it[ki]); ki += 1
        else:
            merged.append(p_it[pi]); pi += 1
    atxt = []
    for j, (kind, v) in enumerate(merged):
        if kind == "p":
            if use_vars and j % 2 == 0:
                data[f"v{j}"] = v
                atxt.append(f"v{j}")
            else:
                atxt.append(str(v))
        else:
            atxt.append(f"{v[0]}: {v[1]}")
    body = "".join(f"{n}={{{{ {n} }}}};" for n, _ in params)
    body += "args={% for x in args %}{{ x }},{% endfor %};kwargs={% for kv in kwargs %}{{ kv[0] }}={{ kv[1] }},{% endfor %};"
    src = ("{% macro m " + ", ".join(ptxt) + " %}" + body + "{% endmacro %}{% call m " + ", ".join(atxt) + " %}")
    return src, data


def ref_call(case):
    """Documented rule: positional in order, then keywords by name (override), defaults, else undefined;
    surplus positional in args, surplus keywords in kwargs (a repeated name keeps its last value)."""
    params, pos, kws, _, _ = case
    names = [n for n, _ in params]
    out = []
    for i, (n, d) in enumerate(params):
        val = d
        if i < len(pos):
            val = pos[i]
        for k, v in kws:
            if k == n:
                val = v
        out.append(f"{n}={'' if val is None else val};")
    out.append("args=" + "".join(f"{v}," for v in pos[len(params):]) + ";")
    extra = {}
    for k, v in kws:
        if k not in names:
            extra[k] = v
    out.append("kwargs=" + "".join(f"{k}={v}," for k, v in extra.items()) + ";")
    return "".join(out)


def g_callcase(case):
    params, pos, kws, _, _ = case
    gp = g_list(f"({g_str(n)}, {g_opt(d, g_Z)})" for n, d in params)
    gk = g_list(f"({g_str(k)}, {g_Z(v)})" for k, v in kws)
    return f"{{| cc_params := {gp}; cc_pos := {g_list(g_Z(v) for v in pos)}; cc_kws := {gk} |}}"


def gen_calls(ck: Check):
    names = ["a", "b", "c"]
    kwnames = ["a", "b", "x", "y"]
    for n in range(0, 4):
        for defaults in itertools.product([False, True], repeat=n):
            params = [(names[i], (70 + i) if defaults[i] else None) for i in range(n)]
            for npos in range(0, 5):
                pos = list(range(1, npos + 1))
                for nk in range(0, 4):
                    for ks in itertools.product(kwnames, repeat=nk):
                        kws = [(k, 20 + j) for j, k in enumerate(ks)]
                        order = ck.rng.randrange(0, 256)
                        yield (params, pos, kws, order, ck.rng.random() < 0.3)


# --------------------------------------------------------------------- with blocks
# node: ('print', x) | ('with', [(k, expr)], body) | ('assign', x, expr);  expr: ('lit', z) | ('var', x)
def with_source(body):
    out = []
    for n in body:
        if n[0] == "print":
            out.append(f"{{{{ {n[1]} }}}};")
        elif n[0] == "assign":
            out.append(f"{{% assign {n[1]} = {expr_src(n[2])} %}}")
        else:
            args = ", ".join(f"{k}: {expr_src(e)}" for k, e in n[1])
            out.append(f"{{% with {args} %}}" + with_source(n[2]) + "{% endwith %}")
    return "".join(out)


def expr_src(e):
    return str(e[1])


def ref_with(globs, body):
    """Reference: with makes its keyword arguments visible only inside its block, shadowing outer names; the
    argument expressions are evaluated outside the block; assign writes the template's top-level scope."""
    out = []
    locals_ = {}
    scopes = []

    def look(x):
        for s in reversed(scopes):
            if x in s:
                return s[x]
        if x in locals_:
            return locals_[x]
        return globs.get(x)

    def ev(e):
        return e[1] if e[0] == "lit" else look(e[1])

    def go(ns):
        for n in ns:
            if n[0] == "print":
                v = look(n[1])
                out.append(("" if v is None else str(v)) + ";")
            elif n[0] == "assign":
                locals_[n[1]] = ev(n[2])
            else:
                ns_ = {}
                for k, e in n[1]:
                    ns_[k] = ev(e)
                scopes.append(ns_)
                go(n[2])
                scopes.pop()

    go(body)
    return "".join(out)


def g_wexpr(e):
    return f"WLit {g_Z(e[1])}" if e[0] == "lit" else f"WVar {g_str(e[1])}"


def g_wbody(body):
    out = []
    for n in body:
        if n[0] == "print":
            out.append(f"WPrint {g_str(n[1])}")
        elif n[0] == "assign":
            out.append(f"WAssign {g_str(n[1])} ({g_wexpr(n[2])})")
        else:
            ga = g_list(f"({g_str(k)}, {g_wexpr(e)})" for k, e in n[1])
            out.append(f"WWith {ga} {g_wbody(n[2])}")
    return g_list(out)


def g_withcase(globs, body):
    gg = g_list(f"({g_str(k)}, {g_Z(v)})" for k, v in sorted(globs.items()))
    return f"{{| wc_globals := {gg}; wc_body := {g_wbody(body)} |}}"


def gen_withs(ck: Check):
    rng = ck.rng
    names = ["x", "y", "z"]

    def rexpr():
        return ("lit", rng.randrange(1, 9)) if rng.random() < 0.5 else ("var", rng.choice(names))

    def rbody(depth):
        out = []
        for _ in range(rng.randrange(1, 4)):
            r = rng.random()
            if r < 0.4:
                out.append(("print", rng.choice(names)))
            elif r < 0.55:
                out.append(("assign", rng.choice(names), rexpr()))
            elif depth < 3:
                args = [(rng.choice(names), rexpr()) for _ in range(rng.randrange(1, 4))]
                out.append(("with", args, rbody(depth + 1) + [("print", n) for n in names]))
        return out

    # systematic: every pair of (bound name, expression) with a probe inside and after, nested once
    for k1, k2 in itertools.product(names[:2], repeat=2):
        for e1 in (("lit", 1), ("var", "x"), ("var", "y"), ("var", "z")):
            for e2 in (("lit", 2), ("var", "x"), ("var", "y")):
                probes = [("print", n) for n in names]
                inner = [("with", [(k2, e2)], probes)]
                body = probes + [("with", [(k1, e1), (k2, e2)], probes + inner + probes)] + probes
                for globs in ({}, {"x": 100}, {"x": 100, "y": 200}):
                    yield globs, body
    for _ in range(600 if ck.quick else 6000):
        globs = {n: 100 * (i + 1) for i, n in enumerate(names) if rng.random() < 0.5}
        yield globs, rbody(0) + [("print", n) for n in names]


# --------------------------------------------------------------------- argument lists with a missing comma (strict mode)
def gen_seps():
    """call tags whose argument list lacks a comma somewhere, or uses `=` where keyword assignment is off: the documented
    syntax is a comma separated list of `expr` / `name: expr`; in strict mode such a tag is a syntax error -- it must not render
    with the arguments after the gap silently dropped."""
    items = ["1", "2", "a: 3", "b: 4", "x: 5", "'s'", "y"]
    for n in (2, 3):
        for args in itertools.permutations(items[:5], n):
            for seps in itertools.product([", ", " "], repeat=n - 1):
                yield list(args), list(seps)
    for args in (["a = 1"], ["1", "b = 2"], ["a: 1 | upcase"], ["1 | upcase"], ["'s' 't'"], ["y z"], ["(1..2) 3"], ["1", "2", "a: 3 4"]):
        yield args, [", "] * (len(args) - 1)


def sep_source(args, seps):
    body = "a={{ a }};b={{ b }};args={% for v in args %}{{ v }},{% endfor %};kwargs={% for kv in kwargs %}{{ kv[0] }}={{ kv[1] }},{% endfor %};"
    txt = args[0] + "".join(s_ + a for s_, a in zip(seps, args[1:]))
    return "{% macro m a, b %}" + body + "{% endmacro %}{% call m " + txt + " %}"


def sep_reference(args, seps):
    import re
    if any(s_ != ", " for s_ in seps) or not all(re.fullmatch(r"(\w+: )?(\d+|'\w*'|\w+)", a) for a in args):
        return ("err", "ESyntax")
    pos = [a for a in args if ": " not in a]
    kws = [tuple(a.split(": ")) for a in args if ": " in a]
    val = lambda t: {"y": "905"}.get(t, t.strip("'"))  # noqa: E731
    case = ([("a", None), ("b", None)], [val(p) for p in pos], [(k, val(v)) for k, v in kws], 0, False)
    return ("out", ref_call(case))


# ===================================================================== programs (MacroCall.v over the values of Scope.v)
# The AST is scope_lib's; a call node's argument list holds (name, expr) pairs in SOURCE order, a pair whose name is ''
# is a positional argument.  Values are nil / booleans / integers / strings / arrays / hashes.
DATA = {"a": 901, "b": "Bs", "x": "Gx", "y": [1, "two"], "h": {"k": "hv", "n": 5}, "t": True, "n": None}
PARAM_NAMES = ["a", "b", "c"]
LIQUID_ERRS = ("EUndefined", "ENotFound", "EDisabledTag", "ESyntax", "EType", "EContextDepth")


def p_body_src(body):
    return "".join(p_node_src(n) for n in body)


def p_node_src(n):
    t = n[0]
    if t == "call":
        args = ", ".join(L.expr_src(e) if k == "" else f"{k}: {L.expr_src(e)}" for k, e in n[2])
        return "{% call " + n[1] + (" " + args if args else "") + " %}"
    if t == "capture":
        return "{% capture " + n[1] + " %}" + p_body_src(n[2]) + "{% endcapture %}"
    if t == "if":
        els = "{% else %}" + p_body_src(n[3]) if n[3] else ""
        return "{% if " + L.cond_src(n[1]) + " %}" + p_body_src(n[2]) + els + "{% endif %}"
    if t == "for":
        it = L.path_src(n[2][1]) if n[2][0] == "ipath" else f"({n[2][1]}..{n[2][2]})"
        els = "{% else %}" + p_body_src(n[4]) if n[4] else ""
        return "{% for " + n[1] + " in " + it + " %}" + p_body_src(n[3]) + els + "{% endfor %}"
    if t == "with":
        return "{% with " + L.kwargs_src(n[1]) + " %}" + p_body_src(n[2]) + "{% endwith %}"
    if t == "macro":
        ps = ", ".join(p if d is None else f"{p}: {L.expr_src(d)}" for p, d in n[2])
        return "{% macro " + n[1] + (" " + ps if ps else "") + " %}" + p_body_src(n[3]) + "{% endmacro %}"
    return L.node_src(n)


def p_sources(case):
    return {"template": p_body_src(case["body"]), "partials": {k: p_body_src(b) for k, b in case["loader"].items()}}


def p_json(case):
    d = {k: case[k] for k in ("mode", "uk", "args", "matter", "tglobals", "eglobals")}
    d["flags"] = [False, False]
    d.update(p_sources(case))
    return d


def p_render(case, use_async):
    s = p_sources(case)
    return L.render_sources(s["template"], s["partials"], case["args"], case["matter"], case["tglobals"], case["eglobals"],
                            case["mode"], case["uk"], use_async)


class Ref27(C14.Ref):
    """The documented behaviour (docs/optional_tags.md: macro and call, with), written independently of macro_tag.py,
    _with.py and of MacroCall.v, on top of the scope rules of C14's reference:
      macro: (re)defines the name when the tag is rendered, nothing is evaluated then;
      call:  an undefined name renders as the undefined value; else parameter i gets the LAST keyword argument of its name,
             else the i-th positional argument, else its default, else undefined; args = the positional arguments beyond the
             parameters, kwargs = the keyword arguments that name no parameter (a repeated name: first position, last value);
             every expression, defaults included, is evaluated where the call stands, when it is rendered; the block then runs in
             a scope of its own (arguments + global data) and can call the macros defined so far;
      with:  its arguments are evaluated outside the block, visible inside only;
      lax mode: an error ends the top-level tag of the template (or partial) it occurs in; the rest is rendered normally."""

    def __init__(self, case):
        self.case = case
        self.uk = case["uk"]
        self.lax = case["mode"] != "strict"

    def template(self, ctx, body, buf, top):
        for n in body:
            try:
                try:
                    self.node(ctx, n, buf)
                except C14.RefInterrupt:
                    if not top:
                        raise
                    raise C14.RefError("ESyntax") from None
            except C14.RefError as e:
                if self.lax and e.cls in LIQUID_ERRS:
                    continue
                raise

    def node(self, ctx, n, buf):
        if n[0] == "render" and n[2] is None:
            if n[1] not in self.case["loader"]:
                raise C14.RefError("ENotFound")
            sub = C14.RCtx([self.kwargs(ctx, n[3])] + ctx.base, ctx.base, True)
            self.template(sub, self.case["loader"][n[1]], buf, top=True)
            return
        if n[0] != "call":
            super().node(ctx, n, buf)
            return
        if n[1] not in ctx.macros:
            buf.append(C14.ref_str(C14.UNDEF, self.uk))
            return
        params, body = ctx.macros[n[1]]
        defaults = {}
        for p, d in params:
            defaults[p] = d                     # a repeated parameter: first position, last default
        names = list(defaults)
        pos = [e for k, e in n[2] if k == ""]
        kws = [(k, e) for k, e in n[2] if k != ""]
        scope = {"args": [self.expr(ctx, e) for e in pos[len(names):]], "kwargs": {}}
        surplus = {}
        for k, e in kws:
            if k not in names:
                surplus[k] = e
        scope["kwargs"] = {k: self.expr(ctx, e) for k, e in surplus.items()}
        for i, p in enumerate(names):
            chosen = defaults[p]
            if i < len(pos):
                chosen = pos[i]
            for k, e in kws:
                if k == p:
                    chosen = e
            scope[p] = C14.UNDEF if chosen is None else self.expr(ctx, chosen)
        sub = C14.RCtx([scope] + ctx.base, ctx.base, True)
        sub.macros = dict(ctx.macros)
        self.block(sub, body, buf)


def reference27(case):
    try:
        return Ref27(case).run()
    except C14.Unsure:
        return None


def probe_macro(name, params, extra=()):
    """A macro printing its parameters, args and kwargs, and the names x / a as its block sees them."""
    body = [text("<")]
    for p, _ in params:
        body += [text(p + "="), out(p), text(";")]
    body += [text("args="), ("for", "v", ("ipath", P("args")), [out("v"), text(",")], []), text(";kwargs="),
             ("for", "kv", ("ipath", P("kwargs")), [out(P("kv", 0)), text("="), out(P("kv", 1)), text(",")], []),
             text(";x="), out("x")] + list(extra) + [text(">")]
    return ("macro", name, params, body)


EXPRS = [lit(7), lit("s"), lit(True), lit(None), P("x"), P("a"), P("b"), P("y", 0), P("y"), P("h", "k"), P("h"), P("t"), P("n"),
         P("nosuch"), P("y", "size"), P("w")]


def gen_progs(ck: Check):
    """(family, body, loader) triples; every one is run in strict and lax mode with the default and the strict undefined type."""
    rng = ck.rng
    m2 = [("a", None), ("b", P("x"))]

    # ---- defaults: evaluated where the call stands, when it is rendered -- not where / when the macro was defined, and not
    #      in the macro's own scope (an earlier parameter of the same macro is NOT visible to a default)
    for d in (P("x"), P("a"), P("w"), P("nosuch"), lit("D"), P("y", 1), P("h", "n")):
        mac = probe_macro("m", [("a", None), ("b", d)])
        for given in ([], [("", lit(1))], [("", lit(1)), ("", lit(2))], [("b", lit(3))], [("a", P("b"))]):
            call = ("call", "m", given)
            yield "default", [mac, call], {}
            yield "default", [mac, assign("x", lit("Lx")), call, assign("x", lit("Lx2")), assign("w", lit("Lw")), call], {}
            yield "default", [mac, ("with", [("x", lit("Wx")), ("w", P("x"))], [call]), call], {}
            yield "default", [mac, ("for", "x", ("irange", 1, 2), [call], []), call], {}
            yield "default", [("for", "x", ("irange", 1, 2), [mac], []), ("capture", "w", [text("cap")]), call], {}
            yield "default", [("with", [("x", lit("Wdef"))], [mac]), call], {}

    # ---- keyword / positional / duplicate names / args, kwargs: mixed value types, arguments interleaved
    kwn = ["a", "b", "q", "r"]
    n_rand = 250 if ck.quick else 3000
    for _ in range(n_rand):
        np_ = rng.randrange(0, 4)
        params = [(PARAM_NAMES[i], rng.choice(EXPRS) if rng.random() < 0.4 else None) for i in range(np_)]
        if rng.random() < 0.08 and params:
            params.append((rng.choice(["args", "kwargs", params[0][0]]), rng.choice([None, lit("dd")])))
        args = [("", rng.choice(EXPRS)) for _ in range(rng.randrange(0, 5))] + \
               [(rng.choice(kwn), rng.choice(EXPRS)) for _ in range(rng.randrange(0, 4))]
        rng.shuffle(args)
        yield "bind", [probe_macro("m", params), ("call", "m", args)], {}

    # ---- the macro table: redefinition, call before definition, definition in a branch that is not rendered
    one, two = ("macro", "m", [("a", lit(1))], [text("one:"), out("a")]), ("macro", "m", [("a", lit(2)), ("b", None)], [text("two:"), out("a"), out("b")])
    call = ("call", "m", [("", lit("p")), ("", lit("q"))])
    yield "table", [one, call, two, call], {}
    yield "table", [call, text("|"), one, call], {}
    yield "table", [one, two, call, one, call], {}
    yield "table", [("if", ("atom", ("truthy", P("n"))), [one], [two]), call], {}
    yield "table", [("if", ("atom", ("truthy", P("t"))), [one], [two]), call], {}
    yield "table", [one, ("for", "i", ("irange", 1, 2), [call, two], []), call], {}
    yield "table", [("call", "nomac", []), text("|after")], {}
    yield "table", [text("a"), ("with", [("x", lit(1))], [out("x"), ("call", "nomac", [("", P("x"))]), out("x")]), out("x")], {}
    yield "table", [("capture", "m", [text("captured")]), ("call", "m", []), out("m")], {}       # variables and macros are separate tables

    # ---- partials: include shares the macro table, render does not; include is disabled in a macro's block
    ld = {"defs": [("macro", "m", [("a", None)], [text("P:"), out("a"), out("x")]), text("(defs)")],
          "calls": [text("(calls:"), ("call", "m", [("", lit("c"))]), text(")")],
          "inc": [text("I")]}
    cm = ("call", "m", [("", lit("v"))])
    yield "partial", [("include", "defs", None, []), cm], ld
    yield "partial", [("render", "defs", None, []), cm], ld
    yield "partial", [cm, ("include", "defs", None, [("x", lit("ix"))]), cm, ("render", "calls", None, []), ("include", "calls", None, [])], ld
    yield "partial", [("macro", "m", [("a", None)], [text("T:"), out("a")]), ("include", "calls", None, []), ("render", "calls", None, []), ("include", "defs", None, []), cm], ld
    yield "partial", [("macro", "m", [], [text("["), ("include", "inc", None, []), text("]")]), text("a"), ("call", "m", []), text("b")], ld
    yield "partial", [("macro", "m", [], [text("["), ("render", "inc", None, []), text("]")]), ("call", "m", [])], ld
    yield "partial", [("for", "i", ("irange", 1, 2), [("include", "defs", None, []), cm], [])], ld

    # ---- a call inside a macro's block: the macros defined so far are visible, definitions made inside stay inside
    inner = ("macro", "i", [("v", None)], [text("i:"), out("v")])
    yield "nested", [inner, ("macro", "o", [("w", None)], [text("o("), ("call", "i", [("", P("w"))]), text(")")]), ("call", "o", [("", lit(5))])], {}
    yield "nested", [("macro", "o", [("w", None)], [text("o("), ("call", "i", [("", P("w"))]), text(")")]), ("call", "o", [("", lit(5))]), inner, ("call", "o", [("", lit(6))])], {}
    yield "nested", [("macro", "o", [], [inner, ("call", "i", [("", lit(1))])]), ("call", "o", []), text("|"), ("call", "i", [("", lit(2))])], {}
    yield "nested", [("macro", "r", [("k", None)], [out("k"), ("if", ("atom", ("lt", P("k"), 3)), [("call", "r", [("", lit(3))])], [])]), ("call", "r", [("", lit(1))])], {}
    yield "nested", [inner, ("macro", "o", [], [("macro", "i", [], [text("local")]), ("call", "i", [])]), ("call", "o", []), ("call", "i", [("", lit(9))])], {}

    # ---- with: arguments evaluated outside, left to right, none sees another; restored after an error inside (lax mode)
    probes = [text("["), out("x"), text(","), out("w"), text("]")]
    for bad in ([out("nosuch")], [("include", "nosuch", None, [])], [("break",)], [("call", "nomac", [])], [("macro", "mm", [], [("include", "inc", None, [])]), ("call", "mm", [])]):
        yield "with", probes + [("with", [("x", lit(1)), ("w", P("x"))], probes + [("with", [("x", lit(2)), ("w", P("x"))], probes + bad + probes)] + probes)] + probes, {"inc": [text("I")]}
    yield "with", [("with", [("x", lit(1)), ("x", P("x")), ("w", P("x"))], probes)] + probes, {}
    yield "with", [("with", [("w", P("nosuch", "q", "r")), ("x", lit(1))], probes)] + probes, {}
    yield "with", [("with", [("x", P("y", 0)), ("w", P("h"))], probes + [assign("x", lit("A"))] + probes)] + probes, {}

    # ---- ONE call node executed repeatedly while the macro is redefined in between: the binding follows the definition that
    #      is current at each execution (same parameter names, other defaults; other names; defaults added / removed)
    sigs = [[("a", None), ("b", lit("one"))], [("a", None), ("b", lit("two"))], [("a", None), ("b", lit("two")), ("c", lit("zed"))],
            [("a", None), ("b", None)], [("a", lit("A")), ("b", P("x"))], [("b", None), ("a", lit("swapped"))], [("a", None), ("b", P("i"))]]
    shapes = [[("", P("i"))], [], [("b", lit("kb"))], [("", P("i")), ("", lit(2)), ("", lit(3))], [("c", lit("kc")), ("", P("i"))]]
    for calls in (shapes[:2] if ck.quick else shapes):
        call = ("call", "m", calls)
        for s1, s2 in itertools.permutations(sigs, 2):
            d1, d2 = probe_macro("m", s1), probe_macro("m", s2)
            first = ("atom", ("eq", P("i"), 1))
            yield "reuse", [("for", "i", ("irange", 1, 3), [("if", first, [d1], [d2]), call], [])], {}
        for s1, s2 in itertools.combinations(sigs, 2):
            d1, d2 = probe_macro("m", s1), probe_macro("m", s2)
            yield "reuse", [d1, ("for", "i", ("irange", 1, 2), [call, d2], []), call], {}
            yield "reuse", [d1, ("for", "i", ("irange", 1, 2), [("include", "callm", None, []), d2], [])], {"callm": [call]}
            yield "reuse-inner", [d1, ("macro", "o", [], [call]), ("call", "o", []), d2, ("call", "o", [])], {}

    # ---- seeded random programs mixing all of it
    def rbody(depth, names):
        """names: the macros this body may define or call; a macro's block gets a strictly shorter list, so no call chain is endless"""
        nodes = []
        for _ in range(rng.randrange(1, 5)):
            r = rng.random()
            if r < 0.2 and names:
                i = rng.randrange(len(names))
                params = [(PARAM_NAMES[j], rng.choice(EXPRS) if rng.random() < 0.5 else None) for j in range(rng.randrange(0, 3))]
                extra = rbody(depth + 1, names[:i]) if depth < 2 and rng.random() < 0.5 else []
                nodes.append(probe_macro(names[i], params, extra))
            elif r < 0.5:
                args = [("", rng.choice(EXPRS)) for _ in range(rng.randrange(0, 3))] + [(rng.choice(kwn), rng.choice(EXPRS)) for _ in range(rng.randrange(0, 3))]
                rng.shuffle(args)
                nodes.append(("call", rng.choice(names + ["nomac"]) if rng.random() < 0.15 or not names else rng.choice(names), args))
            elif r < 0.6:
                nodes.append(assign(rng.choice(["x", "w", "a"]), rng.choice(EXPRS)))
            elif r < 0.75 and depth < 3:
                nodes.append(("with", [(rng.choice(["x", "w", "a"]), rng.choice(EXPRS)) for _ in range(rng.randrange(1, 3))], rbody(depth + 1, names)))
            elif r < 0.82 and depth < 3:
                nodes.append(("for", rng.choice(["x", "i"]), ("irange", 1, 2), rbody(depth + 1, names), []))
            elif r < 0.88:
                nodes.append(rng.choice([("include", "rdefs", None, []), ("render", "rdefs", None, []), ("include", "inc", None, []), ("include", "nosuch", None, [])]))
            elif r < 0.93:
                nodes.append(out(rng.choice(["x", "w", "nosuch"])))
            else:
                nodes.append(text("."))
        return nodes

    rld = {"rdefs": [("macro", "k", [("a", None)], [text("P:"), out("a"), out("x")]), text("(defs)")], "inc": [text("I")]}
    for _ in range(150 if ck.quick else 2500):
        yield "random", rbody(0, ["k", "m", "o"]), rld


def gen_twice(ck: Check):
    """(body, loader, [render arguments ...]): ONE parsed template rendered with each argument set in turn; `sel` chooses the
    definition of m that the render meets before the call."""
    sigs = [[("a", None), ("b", lit("one"))], [("a", None), ("b", lit("two"))], [("a", None), ("b", lit("two")), ("c", lit("zed"))],
            [("a", None), ("b", None)], [("b", None), ("a", lit("swapped"))]]
    runs = [dict(DATA, sel=True), dict(DATA, sel=False, x="Gx2"), dict(DATA, sel=True, x="Gx3")]
    shapes = [[("", P("x"))], [], [("b", P("x"))], [("", lit(1)), ("", lit(2)), ("", lit(3))]]
    for calls in (shapes[:2] if ck.quick else shapes):
        for s1, s2 in itertools.permutations(sigs, 2):
            body = [("if", ("atom", ("truthy", P("sel"))), [probe_macro("m", s1)], [probe_macro("m", s2)]), ("call", "m", calls)]
            yield body, {}, runs
            yield [("include", "defs", None, []), ("call", "m", calls)], \
                  {"defs": [("if", ("atom", ("truthy", P("sel"))), [probe_macro("m", s1)], [probe_macro("m", s2)])]}, runs


def render_many(case, arg_sets, use_async):
    """Parse case's template ONCE and render that one object with every argument set in turn (public API only)."""
    from liquid import DictLoader, Environment, Mode
    import liquid.extra as ex

    srcs = p_sources(case)
    env = Environment(loader=DictLoader(dict(srcs["partials"])), undefined=L._undefined_class(case["uk"]),
                      tolerance=Mode.STRICT if case["mode"] == "strict" else Mode.LAX)
    ex.add_tags(env)
    try:
        t = env.from_string(srcs["template"])
    except Exception as e:  # noqa: BLE001
        return [("err", classify_exc(e))] * len(arg_sets)
    res = []
    for a in arg_sets:
        try:
            res.append(("out", run_async(t.render_async(**a)) if use_async else t.render(**a)))
        except Exception as e:  # noqa: BLE001
            res.append(("err", classify_exc(e)))
    return res


def run_progs(ck: Check):
    L.STRINGS.reset()
    cases, expected, meta = [], [], []
    reported = {}
    all4 = [(m, u) for m in ("strict", "lax") for u in ("default", "strict")]
    nth = 0
    for fam, body, loader in gen_progs(ck):
        nth += 1
        combos = all4
        if ck.quick and fam in ("reuse", "reuse-inner", "bind", "default"):
            combos = [all4[0], all4[3]] if nth % 2 else [all4[1], all4[2]]
        for mode, uk in combos:
            if True:
                case = L.mk_case(body, loader=loader, args=DATA, mode=mode, uk=uk)
                s = p_render(case, False)
                a = p_render(case, True)
                want = reference27(case)
                ck.note_case(("prog", fam, mode, uk, repr(body)), nontrivial=True)
                ck.count(f"prog.{fam}.{mode}.{uk}")
                bad = s != a or (want is not None and s != want)
                if bad and reported.get(fam, 0) < 3:
                    reported[fam] = reported.get(fam, 0) + 1
                    src = p_sources(case)
                    ck.violation("impl-violation", f"prog:{fam}:" + src["template"][:160],
                                 f"{src} mode={mode} undefined={uk}: sync={s} async={a} documented={want}",
                                 {"type": "prog", "case": p_json(case), "sync": s, "async": a, "reference": want})
                cases.append(L.g_case(case))
                expected.append(L.g_obs(s))
                meta.append((fam, case, s, bad))
    for body, loader, arg_sets in gen_twice(ck):
        for mode, uk in (("strict", "default"), ("lax", "strict")):
            case0 = L.mk_case(body, loader=loader, args=arg_sets[0], mode=mode, uk=uk)
            ss = render_many(case0, arg_sets, False)
            aa = render_many(case0, arg_sets, True)
            for j, a in enumerate(arg_sets):
                case = L.mk_case(body, loader=loader, args=a, mode=mode, uk=uk)
                want = reference27(case)
                fresh = p_render(case, False)
                ck.note_case(("twice", mode, uk, j, repr(body)), nontrivial=True)
                ck.count(f"prog.twice.{mode}.{uk}")
                bad = ss[j] != aa[j] or ss[j] != fresh or (want is not None and ss[j] != want)
                if bad and reported.get("twice", 0) < 3:
                    reported["twice"] = reported.get("twice", 0) + 1
                    src = p_sources(case)
                    ck.violation("impl-violation", "prog:twice:" + src["template"][:160],
                                 f"{src} mode={mode} undefined={uk}: render number {j + 1} of ONE template object (sel={a['sel']}): sync={ss[j]} "
                                 f"async={aa[j]}; a freshly parsed template gives {fresh}; documented={want}",
                                 {"type": "twice", "case": p_json(case0), "arg_sets": arg_sets, "index": j, "sync": ss[j], "async": aa[j],
                                  "fresh": fresh, "reference": want})
                cases.append(L.g_case(case))
                expected.append(L.g_obs(ss[j]))
                meta.append(("twice", case, ss[j], bad))
    ck.sample({"template": p_sources(meta[len(meta) // 3][1]), "output": meta[len(meta) // 3][2]})
    chunk = max(60, -(-len(cases) // 4))
    mm = ck.coq_mismatches("prog", PIMPORTS, "mrun_case", "res_str_eqb", "case", "res str", cases, expected, chunk=chunk,
                           preamble=L.STRINGS.preamble())
    ck.traces += len(cases)
    shown = 0
    for i in mm:
        fam, case, s, bad = meta[i]
        if bad or shown >= 3:
            continue
        shown += 1
        model = ck.coq_eval(PIMPORTS, [f"mrun_case {L.g_case(case)}"], preamble=L.STRINGS.preamble())[0]
        ck.violation("correspondence", "c27-prog-correspondence",
                     f"model MacroCall.mrun_case and the implementation disagree on {p_sources(case)} mode={case['mode']} undefined={case['uk']} ({fam})",
                     {"type": "prog", "case": p_json(case), "impl": s, "model": model,
                      "broken": "correspondence MacroCall.mrun_case ~ macro/call/with rendering (theorems C27_call_*, C27_macro_*, C27_with_*)"},
                     no_input=True)


def run(ck: Check) -> None:
    ck.rule = (
        "macro calls: every signature with 0..3 parameters (each with or without a default) x 0..4 positional x every sequence of 0..3 "
        "keyword arguments over {a,b,x,y} (matching, non-matching, duplicate), positional/keyword interleaved in the source, values partly "
        "given through caller variables (exhaustive, integer values); with blocks: systematic shadowing/evaluation-order probes plus seeded "
        "random nests (depth<=3) with assign; call tags whose argument list lacks a comma or uses = (strict mode: every ordered choice of "
        "2..3 of five arguments x every comma/blank separator pattern); PROGRAMS over nil/boolean/integer/string/array/hash values, each in "
        "strict and lax mode with the default and the strict undefined type: defaults read in every kind of caller scope (assign before and "
        "after the definition, with, for, capture) and naming an earlier parameter; seeded signatures with mixed-type arguments, parameters "
        "named args/kwargs or repeated; macro defined twice / after the call / in an untaken branch; undefined macro; macro defined in an "
        "included or rendered partial and called outside, and the reverse; include inside a macro; calls inside a macro's block (outer, "
        "later, local and recursive macros); ONE call node run repeatedly (for loop, included partial, macro block) while the macro is "
        "redefined with the same or other parameter names and defaults (every ordered pair of 7 signatures), and ONE parsed template "
        "rendered three times with data selecting the definition; with: arguments reading each other, errors inside nested blocks (undefined "
        "value, missing partial, break, undefined macro, disabled include); seeded random programs mixing all of it. Non-trivial = at "
        "least one argument is bound / the program holds a call or a with; distinct = distinct case."
    )
    ck.exhaustive = True
    ck.trusted_base = [
        "Coq 8.16.1 kernel + vm_compute",
        "harness: generators, source printers, Gallina printers (scope_lib), reference binder/resolver and the reference interpreter Ref27 "
        "on top of C14's (props/c27.py, props/c14.py)",
        "modelled not verified: Python dict insertion order, itertools.zip_longest, the argument parser for the generated subset (a missing "
        "comma is judged by the reference only: parsing is not in the model); expression evaluation and the render context are the model "
        "of Scope.v (C14-C16), reused",
    ]
    ck.assumptions = ["filters are not used in arguments (the argument grammar has none); resource limits at their defaults; macro recursion "
                      "bounded by the generators (an endless chain ends in ContextDepthError, outside the model)"]
    ck.proof()

    cases, expected, meta = [], [], []
    reported = 0
    for case in gen_calls(ck):
        src, data = call_source(case)
        s = render(src, data, False)
        a = render(src, data, True)
        want = ref_call(case)
        ck.note_case(("call", case[:3]), nontrivial=bool(case[1] or case[2]))
        ck.count(f"call.params{len(case[0])}.pos{len(case[1])}.kw{len(case[2])}")
        if (s != a or s != ("out", want)) and reported < 5:
            reported += 1
            ck.violation("impl-violation", "call:" + repr(case[:3])[:200],
                         f"{src!r} data {data!r}: sync={s} async={a} documented binding={want!r}",
                         {"type": "call", "template": src, "data": data, "sync": s, "async": a, "reference": want})
        if s[0] == "out":
            cases.append(g_callcase(case))
            expected.append(g_str(s[1]))
            meta.append((case, src, data, s))
    ck.sample({"template": meta[len(meta) // 2][1], "data": meta[len(meta) // 2][2], "output": meta[len(meta) // 2][3][1]})
    mm = ck.coq_mismatches("call", IMPORTS, "run_call", "str_eqb", "callcase", "str", cases, expected, chunk=600)
    ck.traces += len(cases)
    for i in mm[:3]:
        case, src, data, s = meta[i]
        if s != ("out", ref_call(case)):
            continue
        model = ck.coq_eval(IMPORTS, [f"run_call ({g_callcase(case)})"])[0]
        ck.violation("correspondence", "c27-call-correspondence",
                     f"model MacroArgs.run_call and the implementation disagree on {src!r}",
                     {"type": "call", "template": src, "data": data, "impl": s, "model": model,
                      "broken": "correspondence MacroArgs.run_call ~ macro/call rendering (theorem C27_bind_spec)"}, no_input=True)

    wcases, wexpected, wmeta = [], [], []
    reported = 0
    for globs, body in gen_withs(ck):
        src = with_source(body)
        s = render(src, globs, False)
        a = render(src, globs, True)
        want = ref_with(globs, body)
        ck.note_case(("with", sorted(globs.items()), body), nontrivial="with" in src)
        ck.count("with.cases")
        if (s != a or s != ("out", want)) and reported < 5:
            reported += 1
            ck.violation("impl-violation", "with:" + repr((sorted(globs.items()), body))[:200],
                         f"{src!r} data {globs!r}: sync={s} async={a} documented={want!r}",
                         {"type": "with", "template": src, "data": globs, "sync": s, "async": a, "reference": want})
        if s[0] == "out":
            wcases.append(g_withcase(globs, body))
            wexpected.append(f"Some {g_str(s[1])}")
            wmeta.append((globs, body, src, s))
    ck.sample({"template": wmeta[-1][2], "data": wmeta[-1][0], "output": wmeta[-1][3][1]})
    mm = ck.coq_mismatches("with", IMPORTS, "run_with", "option_eqb str_eqb", "withcase", "option str", wcases, wexpected, chunk=400)
    ck.traces += len(wcases)
    for i in mm[:3]:
        globs, body, src, s = wmeta[i]
        if s != ("out", ref_with(globs, body)):
            continue
        model = ck.coq_eval(IMPORTS, [f"run_with ({g_withcase(globs, body)})"])[0]
        ck.violation("correspondence", "c27-with-correspondence",
                     f"model MacroArgs.run_with and the implementation disagree on {src!r}",
                     {"type": "with", "template": src, "data": globs, "impl": s, "model": model,
                      "broken": "correspondence MacroArgs.run_with ~ with-tag rendering (theorem C27_with_scoped)"}, no_input=True)

    reported = 0
    for args, seps in gen_seps():
        src = sep_source(args, seps)
        data = {"y": 905}
        sres = render(src, data, False)
        ares = render(src, data, True)
        want = sep_reference(args, seps)
        ck.note_case(("sep", tuple(args), tuple(seps)), nontrivial=True)
        ck.count("sep." + ("commas" if want[0] == "out" else "gap"))
        ck.traces += 1
        if (sres != ares or sres != want) and reported < 3:
            reported += 1
            ck.violation("impl-violation", "call-arguments:" + repr((args, seps))[:160],
                         f"{src!r} (strict mode): sync={sres} async={ares} documented={want}: a call tag's argument list is comma separated; "
                         "arguments after a missing comma must not be dropped silently",
                         {"type": "call", "template": src, "data": data, "sync": sres, "async": ares, "reference": want[1] if want[0] == "out" else None,
                          "expect_error": want[0] == "err"})

    run_progs(ck)


def replay(data) -> int:
    case = data["case"]
    if case.get("type") == "twice":
        d = case["case"]
        from liquid import DictLoader, Environment, Mode
        import liquid.extra as ex
        env = Environment(loader=DictLoader(dict(d["partials"])), undefined=L._undefined_class(d["uk"]),
                          tolerance=Mode.STRICT if d["mode"] == "strict" else Mode.LAX)
        ex.add_tags(env)
        t = env.from_string(d["template"])
        outs = []
        for a in case["arg_sets"]:
            try:
                outs.append(["out", t.render(**a)])
            except Exception as e:  # noqa: BLE001
                outs.append(["err", classify_exc(e)])
        fresh = L.render_sources(d["template"], d["partials"], case["arg_sets"][case["index"]], {}, {}, {}, d["mode"], d["uk"], False)
        print("template:", d["template"], "partials:", d["partials"])
        print("renders of one template object:", outs)
        print("fresh parse, render", case["index"] + 1, ":", fresh)
        bad = tuple(outs[case["index"]]) != tuple(fresh)
        print(("VIOLATION reproduced" if bad else "not reproduced") + f" property={data['property']}")
        return 1 if bad else 0
    if case.get("type") == "prog":
        d = case["case"]
        s = L.render_json(d, False)
        a = L.render_json(d, True)
        print("template:", d["template"], "partials:", d["partials"], "mode:", d["mode"], "undefined:", d["uk"])
        print("sync :", s)
        print("async:", a)
        print("documented:", case.get("reference"))
        ref = case.get("reference")
        bad = s != a or (ref is not None and s != tuple(ref))
        print(("VIOLATION reproduced" if bad else "not reproduced") + f" property={data['property']}")
        return 1 if bad else 0
    if case.get("type") not in ("call", "with"):
        print("replay names a proof/correspondence obligation:", case)
        return 1
    s = render(case["template"], case["data"], False)
    a = render(case["template"], case["data"], True)
    print("template:", case["template"], "data:", case["data"])
    print("sync :", s)
    print("async:", a)
    print("documented:", case.get("reference"))
    if case.get("expect_error"):
        bad = s != a or s != ("err", "ESyntax")
    else:
        bad = s != a or s != ("out", case.get("reference"))
    print(("VIOLATION reproduced" if bad else "not reproduced") + f" property={data['property']}")
    return 1 if bad else 0
