"""C21 — Tag analysis is total and raises no false alarms."""

from __future__ import annotations

import itertools

from ..core import Check, classify_exc
from ..g import g_list, g_nat, g_str

IMPORTS = "TagAudit"

# concrete, syntactically valid markup for each tag name (the analysis only looks at names)
MARKUP = {
    "if": "{% if a %}", "elsif": "{% elsif b %}", "else": "{% else %}", "endif": "{% endif %}",
    "unless": "{% unless a %}", "endunless": "{% endunless %}",
    "for": "{% for x in y %}", "endfor": "{% endfor %}", "break": "{% break %}", "continue": "{% continue %}",
    "case": "{% case a %}", "when": "{% when 1 %}", "endcase": "{% endcase %}",
    "capture": "{% capture c %}", "endcapture": "{% endcapture %}",
    "assign": "{% assign v = 1 %}", "echo": "{% echo a %}", "endassign": "{% endassign %}",
    "foo": "{% foo %}", "endfoo": "{% endfoo %}", "bar": "{% bar 1 %}",
    "macro": "{% macro m %}", "endmacro": "{% endmacro %}", "block": "{% block b %}", "endblock": "{% endblock %}",
    "with": "{% with p: 1 %}", "endwith": "{% endwith %}", "translate": "{% translate %}",
    "plural": "{% plural %}", "endtranslate": "{% endtranslate %}", "call": "{% call m %}",
    "tablerow": "{% tablerow x in y %}", "endtablerow": "{% endtablerow %}",
}

_ENVS = {}


def get_env(kind):
    if kind not in _ENVS:
        from liquid import Environment

        e = Environment()
        if kind == "extra":
            import liquid.extra as ex

            ex.add_tags(e)
        _ENVS[kind] = e
    return _ENVS[kind]


def env_tables(kind):
    """The three tables the audit reads, taken from the real environment and module."""
    import liquid.analyze_tags as at

    e = get_env(kind)
    blocks = sorted((t.name, t.end or "") for n, t in e.tags.items() if t.block)
    inlines = sorted(t.name for n, t in e.tags.items() if not t.block)
    inner = sorted((k, list(v)) for k, v in at.DEFAULT_INNER_TAG_MAP.items())
    return blocks, inlines, inner


def g_env(kind):
    blocks, inlines, inner = env_tables(kind)
    gb = g_list(f"({g_str(n)}, {g_str(en)})" for n, en in blocks)
    gi = g_list(g_str(n) for n in inlines)
    gn = g_list(f"({g_str(k)}, {g_list(g_str(x) for x in v)})" for k, v in inner)
    return f"{{| blocks := {gb}; inlines := {gi}; inner := {gn} |}}"


def source_of(toks):
    return "x".join(MARKUP[t] for t in toks)


def analyse(kind, toks):
    e = get_env(kind)
    try:
        a = e.analyze_tags_from_string(source_of(toks))
    except Exception as ex:  # noqa: BLE001
        return ("err", classify_exc(ex))
    cnt = lambda m: sorted((k, len(v)) for k, v in m.items() if v)  # noqa: E731
    return ("rep", cnt(a.unclosed_tags), cnt(a.unexpected_tags), cnt(a.unknown_tags))


def parses_strict(kind, toks):
    try:
        get_env(kind).from_string(source_of(toks))
        return True
    except Exception:  # noqa: BLE001
        return False


def g_counts(c):
    return g_list(f"({g_str(k)}, {g_nat(n)})" for k, n in c)


def g_obs(o):
    if o[0] == "err":
        return f"OErr {o[1]}"
    return f"ORep {g_counts(o[1])} {g_counts(o[2])} {g_counts(o[3])}"


def interrupt_outside_loop(toks):
    depth = 0
    for t in toks:
        if t == "for":
            depth += 1
        elif t == "endfor":
            depth = max(0, depth - 1)
        elif t in ("break", "continue") and depth == 0:
            return True
    return False


BLOCKS = {"if", "unless", "for", "case", "capture", "tablerow", "macro", "block", "with", "translate"}


def without_skipped_regions(toks):
    """if/unless ignore 'extraneous' else/elsif sections: after an else, a further else/elsif makes the parser skip
    raw tokens up to the next end tag of that block. Return the token list without those regions, or None if the
    rule never fires."""
    stack, out, i, skipped = [], [], 0, False
    while i < len(toks):
        t = toks[i]
        if stack and stack[-1][0] in ("if", "unless") and t in ("else", "elsif"):
            if stack[-1][1]:
                endname = "end" + stack[-1][0]
                while i < len(toks) and toks[i] != endname:
                    i += 1
                skipped = True
                continue
            if t == "else":
                stack[-1][1] = True
            out.append(t)
        elif t in BLOCKS:
            stack.append([t, False])
            out.append(t)
        elif t.startswith("end") and stack and "end" + stack[-1][0] == t:
            stack.pop()
            out.append(t)
        else:
            out.append(t)
        i += 1
    return out if skipped else None


def oracle(kind, toks, rep, parses):
    """Direct reading of the property on the implementation. Returns list of (signature, what)."""
    out = []
    if rep[0] == "err":
        return [(f"analysis-raises:{rep[1]}:" + ("stray-end-tag" if rep[1] == "EIndexError" else " ".join(toks)),
                 f"analyze_tags_from_string raised {rep[1]}")]
    blocks, inlines, inner = env_tables(kind)
    reg = {n for n, _ in blocks} | set(inlines)
    inner_names = {x for _, v in inner for x in v}
    if parses and (rep[1] or rep[2] or rep[3]):
        reduced = without_skipped_regions(toks)
        if interrupt_outside_loop(toks) and not rep[1] and not rep[3] and {k for k, _ in rep[2]} <= {"break", "continue"}:
            out.append(("break-continue-outside-for-reported-unexpected",
                        "break/continue outside a for block parses in strict mode but is reported as unexpected"))
        elif reduced is not None and not [x for x in oracle(kind, reduced, analyse(kind, reduced), parses_strict(kind, reduced))
                                          if x[0] != "break-continue-outside-for-reported-unexpected"]:
            out.append(("tags-skipped-by-extraneous-else-rule-are-audited",
                        "tags inside an extraneous else/elsif section (which the if/unless parser skips) are audited and reported"))
        else:
            names = sorted({k for part in rep[1:] for k, _ in part})
            out.append(("false-alarm:" + ",".join(names) + ":" + kind,
                        f"source parses in strict mode but the analysis reports unclosed={rep[1]} unexpected={rep[2]} unknown={rep[3]}"))
    for t in set(toks):
        if t not in reg and t not in inner_names and not t.startswith("end"):
            if dict(rep[3]).get(t, 0) != toks.count(t):
                out.append((f"unknown-not-reported:{t}", f"unknown tag {t} occurs {toks.count(t)} times, reported {dict(rep[3]).get(t, 0)}"))
    for n, _ in blocks:
        if n in toks and ("end" + n) not in toks and dict(rep[1]).get(n, 0) != toks.count(n):
            out.append((f"unclosed-not-reported:{n}", f"block tag {n} without any end{n}: reported {dict(rep[1]).get(n, 0)} of {toks.count(n)}"))
    return out


ALPHA_DEFAULT = ["if", "else", "elsif", "endif", "for", "endfor", "break", "case", "when", "endcase",
                 "assign", "foo", "endfoo", "endassign"]
ALPHA_EXTRA = ["macro", "endmacro", "block", "endblock", "with", "endwith", "translate", "plural", "endtranslate",
               "call", "if", "else", "endif"]


def gen(ck: Check):
    n1 = 4 if ck.quick else 5
    for n in range(1, n1 + 1):
        for toks in itertools.product(ALPHA_DEFAULT, repeat=n):
            yield "default", list(toks)
    n2 = 3 if ck.quick else 4
    for n in range(1, n2 + 1):
        for toks in itertools.product(ALPHA_EXTRA, repeat=n):
            yield "extra", list(toks)
    # longer random sequences biased towards well-nested ones
    names = list(MARKUP)
    for _ in range(1500 if ck.quick else 15000):
        kind = ck.rng.choice(["default", "extra"])
        toks, stack = [], []
        for _ in range(ck.rng.randrange(3, 14)):
            r = ck.rng.random()
            if r < 0.3:
                b = ck.rng.choice(["if", "for", "case", "unless", "capture", "tablerow"] + (["macro", "block", "with", "translate"] if kind == "extra" else []))
                toks.append(b)
                stack.append(b)
            elif r < 0.55 and stack:
                toks.append("end" + stack.pop())
            elif r < 0.75 and stack:
                inner = {"if": ["else", "elsif"], "unless": ["else", "elsif"], "for": ["else", "break", "continue"],
                         "case": ["when", "else"], "translate": ["plural"]}.get(stack[-1], ["assign"])
                toks.append(ck.rng.choice(inner))
            elif r < 0.9:
                toks.append(ck.rng.choice(["assign", "echo", "break", "continue"]))
            else:
                toks.append(ck.rng.choice(names))
        if ck.rng.random() < 0.6:
            while stack:
                toks.append("end" + stack.pop())
        yield kind, toks


def run(ck: Check) -> None:
    ck.rule = (
        "all tag-name sequences of length <=4 (quick) / <=5 over 14 names (block, inner, end, inline, unknown, stray and bad end tags) in "
        "the default environment and <=3 / <=4 over 13 names in the extra environment (exhaustive), plus seeded random sequences of length "
        "3-13 biased towards well-nested templates; each name is written with valid markup. Non-trivial = contains a block or end tag; "
        "distinct = distinct (environment, sequence)."
    )
    ck.exhaustive = True
    ck.trusted_base = [
        "Coq 8.16.1 kernel + vm_compute",
        "harness: generator, markup table, Gallina printer, extraction of the tag register tables from the live Environment (props/c21.py)",
        "modelled not verified: the template lexer (tag names are taken as given), Python dict/set iteration",
        "assumed: no tag is named 'endend...' (the bad-end-tag pass reads a dict it is still filling)",
    ]
    ck.assumptions = ["the strict parser's accepted language is included in TagAudit.wellnested plus break/continue outside for (validated on every generated sequence that parses)"]
    ck.proof()
    genv = {k: g_env(k) for k in ("default", "extra")}
    cases, expected, meta = [], [], []
    wcases, wexpected, wmeta = [], [], []
    seen_sig = {}
    nparse = 0
    for kind, toks in gen(ck):
        rep = analyse(kind, toks)
        parses = parses_strict(kind, toks)
        nparse += parses
        ck.note_case((kind, toks), nontrivial=any(t in ("if", "for", "case", "macro", "block", "with", "translate") or t.startswith("end") for t in toks))
        ck.count(f"env.{kind}")
        ck.count("parses_strict" if parses else "rejected_strict")
        for sig, what in oracle(kind, toks, rep, parses):
            if seen_sig.get(sig, 0) < 2:
                seen_sig[sig] = seen_sig.get(sig, 0) + 1
                ck.violation("impl-violation", sig, f"[{kind}] {source_of(toks)!r}: {what}",
                             {"type": "tags", "env": kind, "toks": toks, "source": source_of(toks), "analysis": rep,
                              "parses_strict": parses})
        gcase = f"{{| c_env := env_{kind}; c_toks := {g_list(g_str(t) for t in toks)} |}}"
        cases.append(gcase)
        expected.append(g_obs(rep))
        meta.append((kind, toks, rep))
        if parses and not interrupt_outside_loop(toks) and without_skipped_regions(toks) is None:
            wcases.append(gcase)
            wexpected.append("true")
            wmeta.append((kind, toks))
    ck.extra["sequences_that_parse_in_strict_mode"] = nparse
    ck.sample({"env": meta[len(meta) // 2][0], "source": source_of(meta[len(meta) // 2][1]), "analysis": meta[len(meta) // 2][2]})
    ck.sample({"env": meta[-1][0], "source": source_of(meta[-1][1]), "analysis": meta[-1][2]})
    defs = f"Definition env_default := {genv['default']}.\nDefinition env_extra := {genv['extra']}."
    wf = ck.coq_eval(IMPORTS, ["wf_envb env_default", "wf_envb env_extra"], preamble=defs)
    ck.extra["wf_envb_on_live_tables"] = wf
    if [w.split(":")[0].strip() for w in wf] != ["true", "true"]:
        ck.violation("correspondence", "c21-wf-env",
                     "the live tag register no longer satisfies TagAudit.wf_envb, the hypothesis of C21_no_false_alarm",
                     {"type": "wf", "tables": {k: env_tables(k) for k in ("default", "extra")}, "wf_envb": wf,
                      "broken": "hypothesis wf_envb of theorem C21_no_false_alarm"}, no_input=True)
    mm = ck.coq_mismatches("audit", IMPORTS, "run_case", "obs_match", "case", "obs", cases, expected, chunk=2500, preamble=defs)
    ck.traces += len(cases)
    for i in mm[:3]:
        kind, toks, rep = meta[i]
        model = ck.coq_eval(IMPORTS, preamble=defs, terms=[f"run_case {{| c_env := env_{kind}; c_toks := {g_list(g_str(t) for t in toks)} |}}"])[0]
        ck.violation("correspondence", "c21-audit-correspondence",
                     f"model TagAudit.audit and analyze_tags_from_string disagree on [{kind}] {source_of(toks)!r}",
                     {"type": "tags", "env": kind, "toks": toks, "source": source_of(toks), "impl": rep, "model": model,
                      "broken": "correspondence TagAudit.run_case ~ Environment.analyze_tags_from_string (theorems C21_*)"},
                     no_input=True)
    mm = ck.coq_mismatches("wn", IMPORTS, "run_wellnested", "Bool.eqb", "case", "bool", wcases, wexpected, chunk=2500, preamble=defs)
    ck.traces += len(wcases)
    for i in mm[:3]:
        kind, toks = wmeta[i]
        ck.violation("correspondence", "c21-grammar-correspondence",
                     f"[{kind}] {source_of(toks)!r} parses in strict mode but TagAudit.wellnested rejects it: the hypothesis of "
                     "C21_no_false_alarm no longer covers what the parser accepts",
                     {"type": "tags", "env": kind, "toks": toks, "source": source_of(toks),
                      "broken": "correspondence TagAudit.wellnested >= strict parser (theorem C21_no_false_alarm)"},
                     no_input=True)


def replay(data) -> int:
    case = data["case"]
    if case.get("type") != "tags":
        print("replay names a proof/correspondence obligation:", case)
        return 1
    rep = analyse(case["env"], case["toks"])
    parses = parses_strict(case["env"], case["toks"])
    print("source:", case["source"])
    print("analysis:", rep, "parses in strict mode:", parses)
    bad = oracle(case["env"], case["toks"], rep, parses)
    for sig, what in bad:
        print(" -", sig, what)
    print(("VIOLATION reproduced" if bad else "not reproduced") + f" property={data['property']}")
    return 1 if bad else 0
