"""C21 — Tag analysis is total and raises no false alarms."""

from __future__ import annotations

import itertools

from ..core import Check, classify_exc
from ..g import g_list, g_nat, g_str

IMPORTS = "TagAudit"
WIMPORTS = "TagAudit TagWalk"

# concrete, syntactically valid markup for each tag name (the analysis only looks at names)
MARKUP = {
    "if": "{% if a %}", "elsif": "{% elsif b %}", "else": "{% else %}", "endif": "{% endif %}",
    "unless": "{% unless a %}", "endunless": "{% endunless %}",
    "for": "{% for x in y %}", "endfor": "{% endfor %}", "break": "{% break %}", "continue": "{% continue %}",
    "case": "{% case a %}", "when": "{% when 1 %}", "endcase": "{% endcase %}",
    "capture": "{% capture c %}", "endcapture": "{% endcapture %}",
    "assign": "{% assign v = 1 %}", "echo": "{% echo a %}", "endassign": "{% endassign %}",
    "foo": "{% foo %}", "endfoo": "{% endfoo %}", "bar": "{% bar 1 %}",
    "macro": "{% macro m %}", "endmacro": "{% endmacro %}", "block": "{% block b %}", "endblock": "{% endblock %}",
    "with": "{% with p: 1 %}", "endwith": "{% endwith %}", "translate": "{% translate %}",
    "plural": "{% plural %}", "endtranslate": "{% endtranslate %}", "call": "{% call m %}",
    "tablerow": "{% tablerow x in y %}", "endtablerow": "{% endtablerow %}",
    "extends": "{% extends 'base' %}", "snippet": "{% snippet s %}", "endsnippet": "{% endsnippet %}",
    "ifchanged": "{% ifchanged %}", "endifchanged": "{% endifchanged %}", "cycle": "{% cycle 1, 2 %}",
    "increment": "{% increment n %}", "include": "{% include 'p' %}", "render": "{% render 'p' %}",
    "endraw": "{% endraw %}", "enddoc": "{% enddoc %}", "endcomment": "{% endcomment %}", "raw": "{% raw %}", "doc": "{% doc %}",
    "endliquid": "{% endliquid %}",
}

# the names the name-sequence families draw from: each is ONE template-level tag for the lexer (raw / doc / comment blocks, whose
# content the lexer swallows, belong to the source-construct families below)
SEQ_NAMES = ["if", "elsif", "else", "endif", "unless", "endunless", "for", "endfor", "break", "continue", "case", "when", "endcase",
             "capture", "endcapture", "assign", "echo", "endassign", "foo", "endfoo", "bar", "macro", "endmacro", "block", "endblock",
             "with", "endwith", "translate", "plural", "endtranslate", "call", "tablerow", "endtablerow"]

_ENVS = {}


def get_env(kind):
    if kind not in _ENVS:
        from liquid import Environment

        if kind == "delims":
            e = Environment(tag_start_string="<%", tag_end_string="%>", statement_start_string="<<", statement_end_string=">>")
        else:
            e = Environment()
        if kind == "extra":
            import liquid.extra as ex

            ex.add_tags(e)
            e.add_tag(ex.SnippetTag)
        _ENVS[kind] = e
    return _ENVS[kind]


def env_tables(kind):
    """The three tables the audit reads, taken from the real environment and module."""
    import liquid.analyze_tags as at

    e = get_env(kind)
    blocks = sorted((t.name, t.end or "") for n, t in e.tags.items() if t.block)
    inlines = sorted(t.name for n, t in e.tags.items() if not t.block)
    inner = sorted((k, list(v)) for k, v in at.DEFAULT_INNER_TAG_MAP.items())
    return blocks, inlines, inner


def g_env(kind):
    blocks, inlines, inner = env_tables(kind)
    gb = g_list(f"({g_str(n)}, {g_str(en)})" for n, en in blocks)
    gi = g_list(g_str(n) for n in inlines)
    gn = g_list(f"({g_str(k)}, {g_list(g_str(x) for x in v)})" for k, v in inner)
    return f"{{| blocks := {gb}; inlines := {gi}; inner := {gn} |}}"


def source_of(toks):
    return "x".join(MARKUP[t] for t in toks)


def analyse(kind, toks):
    e = get_env(kind)
    try:
        a = e.analyze_tags_from_string(source_of(toks))
    except Exception as ex:  # noqa: BLE001
        return ("err", classify_exc(ex))
    cnt = lambda m: sorted((k, len(v)) for k, v in m.items() if v)  # noqa: E731
    return ("rep", cnt(a.unclosed_tags), cnt(a.unexpected_tags), cnt(a.unknown_tags))


def parses_strict(kind, toks):
    try:
        get_env(kind).from_string(source_of(toks))
        return True
    except Exception:  # noqa: BLE001
        return False


def g_counts(c):
    return g_list(f"({g_str(k)}, {g_nat(n)})" for k, n in c)


def g_obs(o):
    if o[0] == "err":
        return f"OErr {o[1]}"
    return f"ORep {g_counts(o[1])} {g_counts(o[2])} {g_counts(o[3])}"


def interrupt_outside_loop(toks):
    depth = 0
    for t in toks:
        if t == "for":
            depth += 1
        elif t == "endfor":
            depth = max(0, depth - 1)
        elif t in ("break", "continue") and depth == 0:
            return True
    return False


BLOCKS = {"if", "unless", "for", "case", "capture", "tablerow", "macro", "block", "with", "translate"}


def without_skipped_regions(toks):
    """if/unless ignore 'extraneous' else/elsif sections: after an else, a further else/elsif makes the parser skip
    raw tokens up to the next end tag of that block. Return the token list without those regions, or None if the
    rule never fires."""
    stack, out, i, skipped = [], [], 0, False
    while i < len(toks):
        t = toks[i]
        if stack and stack[-1][0] in ("if", "unless") and t in ("else", "elsif"):
            if stack[-1][1]:
                endname = "end" + stack[-1][0]
                while i < len(toks) and toks[i] != endname:
                    i += 1
                skipped = True
                continue
            if t == "else":
                stack[-1][1] = True
            out.append(t)
        elif t in BLOCKS:
            stack.append([t, False])
            out.append(t)
        elif t.startswith("end") and stack and "end" + stack[-1][0] == t:
            stack.pop()
            out.append(t)
        else:
            out.append(t)
        i += 1
    return out if skipped else None


def oracle(kind, toks, rep, parses):
    """Direct reading of the property on the implementation. Returns list of (signature, what)."""
    out = []
    if rep[0] == "err":
        return [(f"analysis-raises:{rep[1]}:" + ("stray-end-tag" if rep[1] == "EIndexError" else " ".join(toks)),
                 f"analyze_tags_from_string raised {rep[1]}")]
    blocks, inlines, inner = env_tables(kind)
    reg = {n for n, _ in blocks} | set(inlines)
    inner_names = {x for _, v in inner for x in v}
    if parses and (rep[1] or rep[2] or rep[3]):
        reduced = without_skipped_regions(toks)
        if interrupt_outside_loop(toks) and not rep[1] and not rep[3] and {k for k, _ in rep[2]} <= {"break", "continue"}:
            out.append(("break-continue-outside-for-reported-unexpected",
                        "break/continue outside a for block parses in strict mode but is reported as unexpected"))
        elif reduced is not None and not [x for x in oracle(kind, reduced, analyse(kind, reduced), parses_strict(kind, reduced))
                                          if x[0] != "break-continue-outside-for-reported-unexpected"]:
            out.append(("tags-skipped-by-extraneous-else-rule-are-audited",
                        "tags inside an extraneous else/elsif section (which the if/unless parser skips) are audited and reported"))
        else:
            names = sorted({k for part in rep[1:] for k, _ in part})
            out.append(("false-alarm:" + ",".join(names) + ":" + kind,
                        f"source parses in strict mode but the analysis reports unclosed={rep[1]} unexpected={rep[2]} unknown={rep[3]}"))
    for t in set(toks):
        if t not in reg and t not in inner_names and not t.startswith("end"):
            if dict(rep[3]).get(t, 0) != toks.count(t):
                out.append((f"unknown-not-reported:{t}", f"unknown tag {t} occurs {toks.count(t)} times, reported {dict(rep[3]).get(t, 0)}"))
    for n, _ in blocks:
        if n in toks and ("end" + n) not in toks and dict(rep[1]).get(n, 0) != toks.count(n):
            out.append((f"unclosed-not-reported:{n}", f"block tag {n} without any end{n}: reported {dict(rep[1]).get(n, 0)} of {toks.count(n)}"))
    return out


ALPHA_DEFAULT = ["if", "else", "elsif", "endif", "for", "endfor", "break", "case", "when", "endcase",
                 "assign", "foo", "endfoo", "endassign"]
ALPHA_EXTRA = ["macro", "endmacro", "block", "endblock", "with", "endwith", "translate", "plural", "endtranslate",
               "call", "if", "else", "endif"]


def gen(ck: Check):
    n1 = 4 if ck.quick else 5
    for n in range(1, n1 + 1):
        for toks in itertools.product(ALPHA_DEFAULT, repeat=n):
            yield "default", list(toks)
    n2 = 3 if ck.quick else 4
    for n in range(1, n2 + 1):
        for toks in itertools.product(ALPHA_EXTRA, repeat=n):
            yield "extra", list(toks)
    # longer random sequences biased towards well-nested ones
    names = SEQ_NAMES
    for _ in range(1500 if ck.quick else 15000):
        kind = ck.rng.choice(["default", "extra"])
        toks, stack = [], []
        for _ in range(ck.rng.randrange(3, 14)):
            r = ck.rng.random()
            if r < 0.3:
                b = ck.rng.choice(["if", "for", "case", "unless", "capture", "tablerow"] + (["macro", "block", "with", "translate"] if kind == "extra" else []))
                toks.append(b)
                stack.append(b)
            elif r < 0.55 and stack:
                toks.append("end" + stack.pop())
            elif r < 0.75 and stack:
                inner = {"if": ["else", "elsif"], "unless": ["else", "elsif"], "for": ["else", "break", "continue"],
                         "case": ["when", "else"], "translate": ["plural"]}.get(stack[-1], ["assign"])
                toks.append(ck.rng.choice(inner))
            elif r < 0.9:
                toks.append(ck.rng.choice(["assign", "echo", "break", "continue"]))
            else:
                toks.append(ck.rng.choice(names))
        if ck.rng.random() < 0.6:
            while stack:
                toks.append("end" + stack.pop())
        yield kind, toks


# ===================================================================== source constructs (TagWalk.v)
# item: ('text',) | ('out',) | ('tag', name) | ('raw', [item]) | ('doc', [item]) | ('comment', [item]) | ('commentopen',)
#       | ('hash',) | ('liquid', [(name, has_expr)])
# Printed with the environment's delimiters and a seeded choice of whitespace control on every tag / output.
def has_expr(name):
    m = MARKUP[name]
    return m[2:-2].strip() != name


def item_source(items, kind, ws):
    """ws: an iterator of booleans deciding the whitespace-control marks."""
    ts, te, ss, se = ("<%", "%>", "<<", ">>") if kind == "delims" else ("{%", "%}", "{{", "}}")

    def tag(inner):
        return ts + ("-" if next(ws) else "") + " " + inner + " " + ("-" if next(ws) else "") + te

    out = []
    for it in items:
        k = it[0]
        if k == "text":
            out.append("x")
        elif k == "out":
            out.append(ss + ("-" if next(ws) else "") + " v " + ("-" if next(ws) else "") + se)
        elif k == "tag":
            out.append(tag(MARKUP[it[1]][2:-2].strip()))
        elif k in ("raw", "doc", "comment"):
            out.append(tag(k) + item_source(it[1], kind, ws) + tag("end" + k))
        elif k == "commentopen":
            out.append(tag("comment"))
        elif k == "hash":
            out.append(tag("# note"))
        else:
            lines = "".join("\n  " + n + (" q" if he else "") for n, he in it[1])
            out.append(ts + " liquid" + lines + ("\n" if it[1] else " ") + te)
    return "".join(out)


def visible_names(items):
    """The tag names of the template proper: nothing inside raw / doc / comment is a tag (documented); a comment block shows its two tags."""
    out = []
    for it in items:
        if it[0] == "tag":
            out.append(it[1])
        elif it[0] == "comment":
            out += ["comment", "endcomment"]
        elif it[0] == "commentopen":
            out.append("comment")
            break
        elif it[0] == "hash":
            out.append("#")
        elif it[0] == "liquid":
            out.append("liquid")
    return out


def real_tokens(kind, src):
    from liquid.token import TOKEN_COMMENT, TOKEN_CONTENT, TOKEN_DOC, TOKEN_EXPRESSION, TOKEN_OUTPUT, TOKEN_TAG

    names = {TOKEN_EXPRESSION: "TExpr", TOKEN_CONTENT: "TContent", TOKEN_OUTPUT: "TOutput", TOKEN_COMMENT: "TComment", TOKEN_DOC: "TDoc"}
    try:
        return [("TTag", t.value) if t.kind == TOKEN_TAG else (names[t.kind],) for t in get_env(kind).tokenizer()(src)]
    except Exception as ex:  # noqa: BLE001
        return ("err", classify_exc(ex))


def analyse_src(kind, src):
    try:
        a = get_env(kind).analyze_tags_from_string(src)
    except Exception as ex:  # noqa: BLE001
        return ("err", classify_exc(ex))
    cnt = lambda m: sorted((k, len(v)) for k, v in m.items() if v)  # noqa: E731
    return ("rep", cnt(a.unclosed_tags), cnt(a.unexpected_tags), cnt(a.unknown_tags))


def parses_src(kind, src):
    try:
        get_env(kind).from_string(src)
        return True
    except Exception:  # noqa: BLE001
        return False


def g_item(it):
    k = it[0]
    if k == "text":
        return "IText"
    if k == "out":
        return "IOut"
    if k == "tag":
        return f"ITag {g_str(it[1])} {'true' if has_expr(it[1]) else 'false'}"
    if k in ("raw", "doc", "comment"):
        return {"raw": "IRaw", "doc": "IDoc", "comment": "IComment"}[k] + " " + g_list(g_item(x) for x in it[1])
    if k == "commentopen":
        return "ICommentOpen"
    if k == "hash":
        return "IHash"
    return "ILiquid " + g_list(f"({g_str(n)}, {'true' if he else 'false'})" for n, he in it[1])


def g_tok(t):
    return f"TTag {g_str(t[1])}" if t[0] == "TTag" else t[0]


TOP_DEFAULT = ["if", "else", "elsif", "endif", "for", "endfor", "break", "case", "when", "endcase", "assign", "echo", "foo", "endfoo",
               "capture", "endcapture", "unless", "endunless", "tablerow", "endtablerow", "ifchanged", "endifchanged", "cycle",
               "increment", "include", "render", "continue", "endraw", "enddoc", "endcomment", "endliquid", "bar"]
TOP_EXTRA = ["macro", "endmacro", "block", "endblock", "with", "endwith", "translate", "plural", "endtranslate", "call", "extends",
             "snippet", "endsnippet"]


def gen_items(ck: Check):
    rng = ck.rng

    def body(depth):
        """what may stand inside raw / doc / comment: anything but their own end tags (and no unclosed comment)"""
        out = []
        for _ in range(rng.randrange(0, 4)):
            r = rng.random()
            if r < 0.5:
                out.append(("tag", rng.choice(["if", "endif", "foo", "for", "else", "assign", "endfoo", "break"])))
            elif r < 0.7:
                out.append(("text",))
            elif r < 0.8:
                out.append(("out",))
            elif depth < 2:
                out.append(("comment", body(depth + 1)))
        return out

    def lines():
        out, stack = [], []
        for _ in range(rng.randrange(0, 5)):
            r = rng.random()
            if r < 0.3:
                b = rng.choice(["if", "for", "case", "unless"])
                out.append((b, True))
                stack.append(b)
            elif r < 0.5 and stack:
                out.append(("end" + stack.pop(), False))
            elif r < 0.8:
                out.append((rng.choice(["assign", "echo"]), True))
            else:
                out.append((rng.choice(["foo", "endif", "else", "break", "bar"]), rng.random() < 0.5))
        if rng.random() < 0.7:
            while stack:
                out.append(("end" + stack.pop(), False))
        return out

    # systematic: every special construct alone, after an open block, inside a closed block, before a stray end tag
    specials = [("raw", [("tag", "if")]), ("doc", [("tag", "if"), ("tag", "foo")]), ("comment", [("tag", "if"), ("tag", "foo")]),
                ("comment", [("comment", [("tag", "endif")]), ("tag", "for")]), ("commentopen",), ("hash",), ("liquid", []),
                ("liquid", [("if", True), ("echo", True), ("endif", False)]), ("liquid", [("if", True)]), ("liquid", [("foo", False)]),
                ("liquid", [("endif", False)]), ("liquid", [("else", False)]), ("liquid", [("break", False)]),
                ("liquid", [("assign", True), ("bar", True), ("for", True)]), ("out",), ("text",), ("raw", []), ("comment", [])]
    for kind in ("default", "extra", "delims"):
        for sp in specials:
            for ctx in ([sp], [("tag", "if"), sp], [("tag", "if"), sp, ("tag", "endif")], [sp, ("tag", "endif")],
                        [("tag", "for"), sp, ("tag", "else"), sp, ("tag", "endfor")], [sp, ("tag", "foo"), sp]):
                yield kind, merge_text(ctx)

    # seeded random item lists, biased towards templates that parse
    for _ in range(600 if ck.quick else 10000):
        kind = rng.choice(["default", "default", "extra", "delims"])
        top = TOP_DEFAULT + (TOP_EXTRA if kind == "extra" else [])
        items, stack = [], []
        for _ in range(rng.randrange(2, 12)):
            r = rng.random()
            if r < 0.22:
                b = rng.choice(["if", "for", "case", "unless", "capture", "tablerow", "ifchanged"] +
                               (["macro", "block", "with", "translate", "snippet"] if kind == "extra" else []))
                items.append(("tag", b))
                stack.append(b)
            elif r < 0.42 and stack:
                items.append(("tag", "end" + stack.pop()))
            elif r < 0.55 and stack:
                inner = {"if": ["else", "elsif"], "unless": ["else", "elsif"], "for": ["else", "break", "continue"],
                         "case": ["when", "else"], "translate": ["plural"]}.get(stack[-1], ["assign"])
                items.append(("tag", rng.choice(inner)))
            elif r < 0.65:
                items.append(("tag", rng.choice(["assign", "echo", "cycle", "increment", "include", "render"] + (["call"] if kind == "extra" else []))))
            elif r < 0.72:
                items.append(("tag", rng.choice(top)))
            elif r < 0.78:
                items.append(rng.choice([("text",), ("out",)]))
            elif r < 0.83:
                items.append(("raw", body(0)))
            elif r < 0.87:
                items.append(("doc", body(0)))
            elif r < 0.92:
                items.append(("comment", body(0)))
            elif r < 0.95:
                items.append(("hash",))
            elif r < 0.99:
                items.append(("liquid", lines()))
            else:
                items.append(("commentopen",))
        if rng.random() < 0.6:
            while stack:
                items.append(("tag", "end" + stack.pop()))
        if ("commentopen",) in items:
            # an unclosed comment tag owns the rest of the source: no endcomment may follow it
            k = items.index(("commentopen",))
            items = items[:k + 1] + [it for it in items[k + 1:] if it not in (("tag", "endcomment"), ("commentopen",))]
        yield kind, merge_text(items)


def merge_text(items):
    """adjacent pieces of text are one piece of text"""
    out = []
    for it in items:
        if it[0] == "text" and out and out[-1][0] == "text":
            continue
        out.append(it)
    return out


def liquid_line_names(items):
    return [n for it in items if it[0] == "liquid" for n, _ in it[1]]


def run_items(ck: Check, genv, defs):
    import random

    cases, expected, lexcases, lexexpected, meta = [], [], [], [], []
    pcases, pexpected, pmeta = [], [], []
    seen_sig = {}
    for kind, items in gen_items(ck):
        wsr = random.Random(ck.rng.randrange(1 << 30))
        src = item_source(items, kind, iter(lambda: wsr.random() < 0.3, None))
        toks = real_tokens(kind, src)
        rep = analyse_src(kind, src)
        parses = parses_src(kind, src)
        names = visible_names(items)
        tabkind = "default" if kind == "delims" else kind
        ck.note_case(("items", kind, repr(items)), nontrivial=any(it[0] in ("raw", "doc", "comment", "commentopen", "hash", "liquid") for it in items))
        ck.count(f"items.{kind}")
        ck.count("items.parses_strict" if parses else "items.rejected_strict")
        found = []
        if isinstance(toks, tuple):
            found.append((f"lexer-raises:{toks[1]}", f"the template lexer raised {toks[1]} on a source built from complete constructs"))
        else:
            found += oracle(tabkind, names, rep, parses)
            # clause 3 inside a liquid tag: an unknown tag name written on a line of {% liquid %} is a tag of the template too
            blocks, inlines, inner = env_tables(tabkind)
            reg = {n for n, _ in blocks} | set(inlines)
            inner_names = {x for _, v in inner for x in v}
            if rep[0] == "rep":
                for t in sorted(set(liquid_line_names(items))):
                    if t not in reg and t not in inner_names and not t.startswith("end") and t not in dict(rep[3]):
                        found.append(("tags-inside-liquid-tag-not-audited",
                                      f"unknown tag {t} on a line of a liquid tag is not reported (the tag's lines are one unscanned expression token)"))
                        break
        for sig, what in found:
            if seen_sig.get(sig, 0) < 2:
                seen_sig[sig] = seen_sig.get(sig, 0) + 1
                ck.violation("impl-violation", sig, f"[{kind}] {src!r}: {what}",
                             {"type": "items", "env": kind, "items": items, "source": src, "analysis": rep, "parses_strict": parses})
        gcase = f"{{| i_env := env_{tabkind}; i_items := {g_list(g_item(it) for it in items)} |}}"
        if not isinstance(toks, tuple):
            lexcases.append(gcase)
            lexexpected.append(g_list(g_tok(t) for t in toks))
        cases.append(gcase)
        expected.append(g_obs(rep))
        meta.append((kind, items, src, rep, toks))
        if parses and without_skipped_regions(names) is None:
            pcases.append((tabkind == "extra", gcase))
            pmeta.append((kind, items, src))
    ck.sample({"env": meta[len(meta) // 2][0], "source": meta[len(meta) // 2][2], "analysis": meta[len(meta) // 2][3]})
    both = [(c, f"({le}, {ex})", m) for c, ex, m, le in
            ((c, ex, m, g_list(g_tok(t) for t in m[4])) for c, ex, m in zip(cases, expected, meta) if not isinstance(m[4], tuple))]
    mm = ck.coq_mismatches("walk", WIMPORTS, "run_both", "both_match", "icase", "list tok * obs", [b[0] for b in both], [b[1] for b in both],
                           chunk=max(250, -(-len(both) // 4)), preamble=defs)
    ck.traces += 2 * len(both)
    for i in mm[:3]:
        kind, items, src, rep, toks = both[i][2]
        model = ck.coq_eval(WIMPORTS, [f"run_both {both[i][0]}"], preamble=defs)[0]
        ck.violation("correspondence", "c21-walk-correspondence",
                     f"[{kind}] {src!r}: the template lexer yields {toks} and analyze_tags_from_string reports {rep}; TagWalk.lex_items / "
                     "TagWalk.analyze_items say something else",
                     {"type": "items", "env": kind, "items": items, "source": src, "tokens": toks, "impl": rep, "model": model,
                      "broken": "correspondence TagWalk.lex_items ~ Environment.tokenizer, TagWalk.run_items ~ analyze_tags_from_string "
                                "(theorems C21_walk_*, C21_parsed_*)"}, no_input=True)
    for extra in (False, True):
        sub = [(c, m) for (x, c), m in zip(pcases, pmeta) if x == extra]
        mm = ck.coq_mismatches("parse" + str(int(extra)), WIMPORTS, f"run_parses {'true' if extra else 'false'}", "Bool.eqb", "icase", "bool",
                               [c for c, _ in sub], ["true"] * len(sub), chunk=1500, preamble=defs)
        ck.traces += len(sub)
        for i in mm[:3]:
            kind, items, src = sub[i][1]
            ck.violation("correspondence", "c21-parser-correspondence",
                         f"[{kind}] {src!r} parses in strict mode but TagTree.parse_template rejects it: the hypothesis of C21_parsed_report no longer "
                         "covers what the parser accepts",
                         {"type": "items", "env": kind, "items": items, "source": src,
                          "broken": "correspondence TagTree.parse_template >= strict parser (theorem C21_parsed_report)"}, no_input=True)


def register_change_family(ck: Check) -> None:
    """One Environment analysed, its tag register changed (a tag added, a tag removed), and analysed again: the second analysis
    judges names against the register AS IT IS NOW -- a source that now parses in strict mode has nothing reported, a removed tag's
    name is reported unknown (oracle only: the model takes the register as a parameter of each analysis)."""
    from liquid import Environment
    from liquid.extra import WithTag

    src_with = "{% with a: 1 %}{{ a }}{% endwith %}"
    src_tr = "{% tablerow i in (1..2) %}x{% endtablerow %}"
    for first in (src_with, src_tr, "{% if a %}{% endif %}"):
        env = Environment()
        env.analyze_tags_from_string(first)                         # some analysis before the register changes
        env.add_tag(WithTag)
        rep = env.analyze_tags_from_string(src_with)
        ok_parse = True
        try:
            env.from_string(src_with)
        except Exception:  # noqa: BLE001
            ok_parse = False
        got = (sorted(rep.unknown_tags), sorted(rep.unclosed_tags), sorted(rep.unexpected_tags))
        ck.note_case(("register-change", "add", first))
        ck.count("register-change")
        if ok_parse and got != ([], [], []):
            ck.violation("impl-violation", "false-alarm-after-tag-registered",
                         f"Environment analysed ({first!r}), then add_tag(WithTag): {src_with!r} parses in strict mode but is reported "
                         f"unknown/unclosed/unexpected = {got}",
                         {"type": "register-change", "first": first, "change": "add-with", "source": src_with, "report": [list(x) for x in got]})
        env2 = Environment()
        env2.analyze_tags_from_string(first)
        del env2.tags["tablerow"]
        rep2 = env2.analyze_tags_from_string(src_tr)
        ck.note_case(("register-change", "remove", first))
        ck.count("register-change")
        if "tablerow" not in rep2.unknown_tags:
            ck.violation("impl-violation", "unknown-not-reported-after-tag-removed",
                         f"Environment analysed ({first!r}), then tablerow removed from env.tags: {src_tr!r} does not report tablerow as "
                         f"unknown (unknown = {sorted(rep2.unknown_tags)})",
                         {"type": "register-change", "first": first, "change": "remove-tablerow", "source": src_tr,
                          "report": sorted(rep2.unknown_tags)})


def run(ck: Check) -> None:
    ck.rule = (
        "all tag-name sequences of length <=4 (quick) / <=5 over 14 names (block, inner, end, inline, unknown, stray and bad end tags) in "
        "the default environment and <=3 / <=4 over 13 names in the extra environment (exhaustive), plus seeded random sequences of length "
        "3-13 biased towards well-nested templates; each name is written with valid markup. SOURCE CONSTRUCTS (TagWalk.v): every special "
        "construct -- raw / doc / comment blocks with tags inside (nested comments too), an unclosed comment, the inline comment tag, liquid "
        "tags (empty, balanced, with an unclosed block, an unknown tag, a stray end / else / break on a line), output, text -- alone, after an "
        "open block, inside a closed block, before a stray end tag, inside for/else, around an unknown tag, in three environments (default, "
        "extra = liquid.extra's tags + snippet, default tags behind the delimiters <% %> << >>), plus seeded random templates of 2-11 "
        "constructs over 32 + 13 tag names biased towards templates that parse; every tag and output statement carries a seeded choice of "
        "whitespace-control marks. Non-trivial = contains a block or end tag / a special construct; distinct = distinct (environment, case)."
    )
    ck.exhaustive = True
    ck.trusted_base = [
        "Coq 8.16.1 kernel + vm_compute",
        "harness: generators, markup table, source printer, Gallina printers, extraction of the tag register tables from the live Environment "
        "(props/c21.py)",
        "modelled not verified: the template lexer, at the level of which token KINDS each source construct yields (TagWalk.lex_items, compared "
        "with Environment.tokenizer() on every generated source); Python dict/set iteration",
        "assumed: no tag is named 'endend...' (the bad-end-tag pass reads a dict it is still filling)",
    ]
    ck.assumptions = ["the strict parser's accepted language is included in what TagTree.parse_template accepts (the block parser model of C04) "
                      "plus the sources accepted only through the if/unless extraneous-else skip rule (validated on every generated source that "
                      "parses; the older TagAudit.wellnested grammar is still validated on the name sequences)"]
    ck.proof()
    register_change_family(ck)
    genv = {k: g_env(k) for k in ("default", "extra")}
    cases, expected, meta = [], [], []
    wcases, wexpected, wmeta = [], [], []
    seen_sig = {}
    nparse = 0
    for kind, toks in gen(ck):
        rep = analyse(kind, toks)
        parses = parses_strict(kind, toks)
        nparse += parses
        ck.note_case((kind, toks), nontrivial=any(t in ("if", "for", "case", "macro", "block", "with", "translate") or t.startswith("end") for t in toks))
        ck.count(f"env.{kind}")
        ck.count("parses_strict" if parses else "rejected_strict")
        for sig, what in oracle(kind, toks, rep, parses):
            if seen_sig.get(sig, 0) < 2:
                seen_sig[sig] = seen_sig.get(sig, 0) + 1
                ck.violation("impl-violation", sig, f"[{kind}] {source_of(toks)!r}: {what}",
                             {"type": "tags", "env": kind, "toks": toks, "source": source_of(toks), "analysis": rep,
                              "parses_strict": parses})
        gcase = f"{{| c_env := env_{kind}; c_toks := {g_list(g_str(t) for t in toks)} |}}"
        cases.append(gcase)
        expected.append(g_obs(rep))
        meta.append((kind, toks, rep))
        if parses and not interrupt_outside_loop(toks) and without_skipped_regions(toks) is None:
            wcases.append(gcase)
            wexpected.append("true")
            wmeta.append((kind, toks))
    ck.extra["sequences_that_parse_in_strict_mode"] = nparse
    ck.sample({"env": meta[len(meta) // 2][0], "source": source_of(meta[len(meta) // 2][1]), "analysis": meta[len(meta) // 2][2]})
    ck.sample({"env": meta[-1][0], "source": source_of(meta[-1][1]), "analysis": meta[-1][2]})
    defs = f"Definition env_default := {genv['default']}.\nDefinition env_extra := {genv['extra']}."
    wf = ck.coq_eval(IMPORTS, ["wf_envb env_default", "wf_envb env_extra"], preamble=defs)
    ck.extra["wf_envb_on_live_tables"] = wf
    if [w.split(":")[0].strip() for w in wf] != ["true", "true"]:
        ck.violation("correspondence", "c21-wf-env",
                     "the live tag register no longer satisfies TagAudit.wf_envb, the hypothesis of C21_no_false_alarm",
                     {"type": "wf", "tables": {k: env_tables(k) for k in ("default", "extra")}, "wf_envb": wf,
                      "broken": "hypothesis wf_envb of theorem C21_no_false_alarm"}, no_input=True)
    mm = ck.coq_mismatches("audit", IMPORTS, "run_case", "obs_match", "case", "obs", cases, expected, chunk=2500, preamble=defs)
    ck.traces += len(cases)
    for i in mm[:3]:
        kind, toks, rep = meta[i]
        model = ck.coq_eval(IMPORTS, preamble=defs, terms=[f"run_case {{| c_env := env_{kind}; c_toks := {g_list(g_str(t) for t in toks)} |}}"])[0]
        ck.violation("correspondence", "c21-audit-correspondence",
                     f"model TagAudit.audit and analyze_tags_from_string disagree on [{kind}] {source_of(toks)!r}",
                     {"type": "tags", "env": kind, "toks": toks, "source": source_of(toks), "impl": rep, "model": model,
                      "broken": "correspondence TagAudit.run_case ~ Environment.analyze_tags_from_string (theorems C21_*)"},
                     no_input=True)
    cons = ck.coq_eval(WIMPORTS, ["consistentb env_default TagTree.std_blocks TagTree.std_inlines", "consistentb env_extra ext_blocks ext_inlines"],
                       preamble=defs)
    ck.extra["consistentb_on_live_tables"] = cons
    if [w.split(":")[0].strip() for w in cons] != ["true", "true"]:
        ck.violation("correspondence", "c21-consistent-register",
                     "the live tag register is no longer consistent with the parser's register of TagTree.v / TagWalk.v, the hypothesis of C21_parsed_report",
                     {"type": "wf", "tables": {k: env_tables(k) for k in ("default", "extra")}, "consistentb": cons,
                      "broken": "hypothesis consistentb of theorem C21_parsed_report"}, no_input=True)
    run_items(ck, genv, defs)
    mm = ck.coq_mismatches("wn", IMPORTS, "run_wellnested", "Bool.eqb", "case", "bool", wcases, wexpected, chunk=2500, preamble=defs)
    ck.traces += len(wcases)
    for i in mm[:3]:
        kind, toks = wmeta[i]
        ck.violation("correspondence", "c21-grammar-correspondence",
                     f"[{kind}] {source_of(toks)!r} parses in strict mode but TagAudit.wellnested rejects it: the hypothesis of "
                     "C21_no_false_alarm no longer covers what the parser accepts",
                     {"type": "tags", "env": kind, "toks": toks, "source": source_of(toks),
                      "broken": "correspondence TagAudit.wellnested >= strict parser (theorem C21_no_false_alarm)"},
                     no_input=True)


def replay(data) -> int:
    case = data["case"]
    if case.get("type") == "register-change":
        class _Ck:
            def __init__(self):
                self.v = []

            def note_case(self, *a, **k):
                pass

            def count(self, *a, **k):
                pass

            def violation(self, kind, sig, what, d, no_input=False):
                self.v.append(what)
        ck_ = _Ck()
        register_change_family(ck_)  # type: ignore[arg-type]  (a closed family of six scenarios: re-run, report what fails)
        for w in ck_.v:
            print(w)
        print(("VIOLATION reproduced" if ck_.v else "not reproduced") + f" property={data['property']}")
        return 1 if ck_.v else 0
    if case.get("type") == "items":
        items = case["items"]
        rep = analyse_src(case["env"], case["source"])
        parses = parses_src(case["env"], case["source"])
        tabkind = "default" if case["env"] == "delims" else case["env"]
        print("source:", case["source"])
        print("analysis:", rep, "parses in strict mode:", parses)
        bad = oracle(tabkind, visible_names(items), rep, parses)
        blocks, inlines, inner = env_tables(tabkind)
        reg = {n for n, _ in blocks} | set(inlines) | {x for _, v in inner for x in v}
        if rep[0] == "rep" and any(t not in reg and not t.startswith("end") and t not in dict(rep[3]) for t in liquid_line_names(items)):
            bad.append(("tags-inside-liquid-tag-not-audited", "unknown tag on a line of a liquid tag is not reported"))
        for sig, what in bad:
            print(" -", sig, what)
        print(("VIOLATION reproduced" if bad else "not reproduced") + f" property={data['property']}")
        return 1 if bad else 0
    if case.get("type") != "tags":
        print("replay names a proof/correspondence obligation:", case)
        return 1
    rep = analyse(case["env"], case["toks"])
    parses = parses_strict(case["env"], case["toks"])
    print("source:", case["source"])
    print("analysis:", rep, "parses in strict mode:", parses)
    bad = oracle(case["env"], case["toks"], rep, parses)
    for sig, what in bad:
        print(" -", sig, what)
    print(("VIOLATION reproduced" if bad else "not reproduced") + f" property={data['property']}")
    return 1 if bad else 0
