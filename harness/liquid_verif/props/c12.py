"""C12 — Conditions follow Liquid truthiness and operator rules."""

from __future__ import annotations

import decimal
import itertools

from ..core import Check, classify_exc, run_async
from ..g import g_Z, g_bool, g_list, g_nat, g_str

IMPORTS = "PyPrims Cond"
UNDEF = ("undef",)

_ENV = None


def env():
    global _ENV
    if _ENV is None:
        from liquid import Environment

        class E(Environment):
            logical_not_operator = True
            logical_parentheses = True
            ternary_expressions = True

        _ENV = E()
    return _ENV


def render(src, data, use_async=False):
    try:
        t = env().from_string(src)
        return ("out", run_async(t.render_async(**data)) if use_async else t.render(**data))
    except Exception as e:  # noqa: BLE001
        return ("err", classify_exc(e))


# --------------------------------------------------------------------------- operands
class Opd:
    """An operand: a Python value, optionally a literal spelling, and a tag for the value class."""

    def __init__(self, name, value, literal=None):
        self.name, self.value, self.literal = name, value, literal


OPERANDS = [
    Opd("i0", 0, "0"), Opd("i1", 1, "1"), Opd("im1", -1, "-1"), Opd("i2", 2, "2"), Opd("ibig", 10**20, str(10**20)),
    Opd("f1", 1.0, "1.0"), Opd("f15", 1.5, "1.5"), Opd("f05", 0.5, "0.5"), Opd("d15", decimal.Decimal("1.5")),
    Opd("s_empty", "", "''"), Opd("s_space", " ", "' '"), Opd("s_a", "a", "'a'"), Opd("s_b", "b", "'b'"),
    Opd("s_ab", "ab", "'ab'"), Opd("s_1", "1", "'1'"), Opd("s_A", "A", "'A'"),
    Opd("l_empty", []), Opd("l_1", [1]), Opd("l_12", [1, 2]), Opd("l_a", ["a"]),
    Opd("h_empty", {}), Opd("h_a", {"a": 1}),
    Opd("r13", range(1, 4), "(1..3)"), Opd("r31", range(0), "(3..1)"),
    Opd("t", True, "true"), Opd("f", False, "false"), Opd("n", None, "nil"), Opd("u", UNDEF),
    Opd("empty", "EMPTY", "empty"), Opd("blank", "BLANK", "blank"),
]
OPS = ["==", "!=", "<>", "<", ">", "<=", ">=", "contains"]
COQ_OP = {"==": "OEq", "!=": "ONe", "<>": "ONe", "<": "OLt", ">": "OGt", "<=": "OLe", ">=": "OGe", "contains": "OContains"}


def g_dec(d):
    sign, digits, exp = decimal.Decimal(d).as_tuple()
    m = int("".join(map(str, digits))) * (-1 if sign else 1)
    if exp >= 0:
        return f"VInt {g_Z(m * 10 ** exp)}" if False else f"VDec {g_Z(m * 10 ** (exp + 1))} {g_nat(1)}"
    return f"VDec {g_Z(m)} {g_nat(-exp)}"


def g_val(v):
    if v is UNDEF:
        return "VUndef"
    if v is None:
        return "VNil"
    if v == "EMPTY" and isinstance(v, str):
        return "VEmpty"
    if v == "BLANK" and isinstance(v, str):
        return "VBlank"
    if isinstance(v, bool):
        return f"VBool {g_bool(v)}"
    if isinstance(v, int):
        return f"VInt {g_Z(v)}"
    if isinstance(v, float):
        return g_dec(repr(v))
    if isinstance(v, decimal.Decimal):
        return g_dec(v)
    if isinstance(v, str):
        return f"VStr {g_str(v)}"
    if isinstance(v, list):
        return f"VList {g_list(g_val(x) for x in v)}"
    if isinstance(v, dict):
        return "VDict " + g_list(f"({g_str(k)}, {g_val(x)})" for k, x in v.items())
    if isinstance(v, range):
        return f"VRange {g_Z(v.start)} {g_Z(v.stop - 1)}" if len(v) else "VRange (1)%Z (0)%Z"
    raise ValueError(v)


# an expression is a list of tokens: ('lit', Opd) | ('var', Opd) | 'and' | 'or' | 'not' | '(' | ')' | ('op', sym)
def tok_src(t):
    if isinstance(t, tuple):
        if t[0] == "lit":
            return t[1].literal
        if t[0] == "var":
            return t[1].name
        return t[1]
    return t


def expr_src(toks):
    return " ".join(tok_src(t) for t in toks)


def expr_data(toks):
    return {t[1].name: t[1].value for t in toks if isinstance(t, tuple) and t[0] == "var" and t[1].value is not UNDEF}


def g_tok(t):
    if isinstance(t, tuple):
        if t[0] == "lit":
            return f"TLit ({g_val(t[1].value)})"
        if t[0] == "var":
            return f"TVar {g_str(t[1].name)}"
        return f"TOp {COQ_OP[t[1]]}"
    return {"and": "TAnd", "or": "TOr", "not": "TNot", "(": "TLParen", ")": "TRParen"}[t]


def g_env(toks_list):
    seen = {}
    for toks in toks_list:
        for t in toks:
            if isinstance(t, tuple) and t[0] == "var" and t[1].value is not UNDEF:
                seen[t[1].name] = t[1].value
    return g_list(f"({g_str(k)}, {g_val(v)})" for k, v in sorted(seen.items()))


# ------------------------------------------------- documented semantics, written independently of the engine
def is_num(x):
    return isinstance(x, (int, float, decimal.Decimal)) and not isinstance(x, bool)


def exact(x):
    return decimal.Decimal(repr(x)) if isinstance(x, float) else decimal.Decimal(x)


def doc_truthy(v):
    return not (v is False or v is None or v is UNDEF)


def doc_eq(a, b):
    """True / False / None (unspecified)."""
    for x, y in ((a, b), (b, a)):
        if isinstance(x, str) and x in ("EMPTY", "BLANK"):
            if isinstance(y, str) and y in ("EMPTY", "BLANK"):
                return True if x == y else None
            if y is None or y is UNDEF:
                return None
            if isinstance(y, (str, list, dict)) and not isinstance(y, bool):
                if len(y) == 0:
                    return True
                return x == "BLANK" and isinstance(y, str) and y.isspace()
            return False
    nilish = (None, UNDEF)
    if any(a is n for n in nilish) or any(b is n for n in nilish):
        return any(a is n for n in nilish) and any(b is n for n in nilish)
    if isinstance(a, bool) or isinstance(b, bool):
        return isinstance(a, bool) and isinstance(b, bool) and a == b
    if is_num(a) and is_num(b):
        return exact(a) == exact(b)
    if type(a) is type(b) or (isinstance(a, (list, tuple)) and isinstance(b, (list, tuple))):
        return a == b
    return False


def doc_lt(a, b):
    """True/False, 'type' (a Liquid type error is documented) or None (unspecified)."""
    if isinstance(a, bool) or isinstance(b, bool):
        return None
    if isinstance(a, str) and a in ("EMPTY", "BLANK") or isinstance(b, str) and b in ("EMPTY", "BLANK"):
        return None
    if isinstance(a, str) and isinstance(b, str):
        return a < b
    if is_num(a) and is_num(b):
        return exact(a) < exact(b)
    return "type"


def doc_contains(a, b):
    if not doc_truthy(a) or not doc_truthy(b):
        return False
    if isinstance(a, str) and a in ("EMPTY", "BLANK") or isinstance(b, str) and b in ("EMPTY", "BLANK"):
        return None
    if isinstance(a, str):
        return b in a if isinstance(b, str) else None
    if isinstance(a, dict):
        return (b in a) if isinstance(b, str) else None
    if isinstance(a, (list, range)):
        return any(doc_eq(x, b) is True for x in a) if not isinstance(b, (list, dict)) else None
    return "type"


def doc_cmp(op, a, b):
    if op == "==":
        return doc_eq(a, b)
    if op in ("!=", "<>"):
        r = doc_eq(a, b)
        return None if r is None else (not r)
    if op == "<":
        return doc_lt(a, b)
    if op == ">":
        return doc_lt(b, a)
    if op in ("<=", ">="):
        e = doc_eq(a, b)
        if e is True:
            return True
        l = doc_lt(a, b) if op == "<=" else doc_lt(b, a)
        if e is None or l is None:
            return None
        return l
    return doc_contains(a, b)


class Unspecified(Exception):
    pass


class TypeErr(Exception):
    pass


def doc_eval(toks):
    """Documented grouping: and/or have equal precedence and group from the right; comparisons bind tighter;
    parentheses group; `not` (undocumented) negates everything to its right inside the current group."""
    pos = 0

    def atom():
        nonlocal pos
        t = toks[pos]
        if t == "(":
            pos += 1
            v = expr()
            if pos >= len(toks) or toks[pos] != ")":
                raise SyntaxError
            pos += 1
            return v
        if isinstance(t, tuple) and t[0] in ("lit", "var"):
            pos += 1
            return t[1].value
        raise SyntaxError

    def term():
        nonlocal pos
        if pos < len(toks) and toks[pos] == "not":
            pos += 1
            return not doc_truthy(expr())
        left = atom()
        if pos < len(toks) and isinstance(toks[pos], tuple) and toks[pos][0] == "op":
            op = toks[pos][1]
            pos += 1
            right = term_noand()
            r = doc_cmp(op, left, right)
            if r is None:
                raise Unspecified
            if r == "type":
                raise TypeErr
            return r
        return left

    def term_noand():
        return atom()

    def expr():
        nonlocal pos
        left = term()
        if pos < len(toks) and toks[pos] in ("and", "or"):
            op = toks[pos]
            pos += 1
            if op == "and":
                if not doc_truthy(left):
                    skip_rest()
                    return False
                return doc_truthy(expr())
            if doc_truthy(left):
                skip_rest()
                return True
            return doc_truthy(expr())
        return left

    def skip_rest():
        """Short circuit: the right operand is not evaluated (its errors do not occur); skip to the end of the group."""
        nonlocal pos
        depth = 0
        while pos < len(toks):
            if toks[pos] == "(":
                depth += 1
            elif toks[pos] == ")":
                if depth == 0:
                    return
                depth -= 1
            pos += 1

    v = expr()
    if pos != len(toks):
        raise SyntaxError
    return doc_truthy(v)


def doc_obs(toks):
    try:
        return ("out", "T" if doc_eval(toks) else "F")
    except Unspecified:
        return None
    except TypeErr:
        return ("err", "EType")
    except (SyntaxError, IndexError):
        return ("err", "ESyntax")


# ---------------------------------------------------------------------------- cases
def operand_forms(o):
    forms = []
    if o.literal is not None:
        forms.append(("lit", o))
    if o.value not in ("EMPTY", "BLANK") or not isinstance(o.value, str):
        forms.append(("var", o))
    return forms


def gen_pairs(ck):
    for a, b in itertools.product(OPERANDS, repeat=2):
        for op in OPS:
            fa, fb = operand_forms(a), operand_forms(b)
            # every pair once with the first available form, and once with the other forms mixed in by the seed
            choices = [(fa[0], fb[0])]
            if len(fa) > 1 or len(fb) > 1:
                choices.append((fa[-1], fb[-1]))
            for x, y in choices:
                if x[1] is y[1] and x[0] == "var" and y[0] == "var":
                    pass
                yield [x, ("op", op), y]


ATOMS = [Opd("a", True), Opd("b", False), Opd("c", None), Opd("d", UNDEF), Opd("e", 0), Opd("g", "")]


def gen_group_operands(ck):
    """A parenthesised and/or/not group used as an OPERAND of a comparison: the group's value is the boolean of its truthiness
    (so `(false or 0) == true` holds and `(true and nil) == nil` does not), whatever the operands were."""
    atoms = [("var", a) for a in ATOMS] + [("lit", Opd("one", 1, "1")), ("lit", Opd("s", "x", "'x'"))]
    rhs = [("lit", Opd("t", True, "true")), ("lit", Opd("f", False, "false")), ("lit", Opd("n", None, "nil")), ("var", Opd("z", 0)), ("var", Opd("h", ""))]
    for x, y in itertools.product(atoms, repeat=2):
        for lop in ("and", "or"):
            for r in rhs:
                for op in ("==", "!="):
                    yield ["(", x, lop, y, ")", ("op", op), r]
                    if ck.rng.random() < 0.25:
                        yield [r, ("op", op), "(", x, lop, y, ")"]
    for x in atoms:
        for r in rhs:
            yield ["(", "not", x, ")", ("op", "=="), r]


def gen_logic(ck):
    rng = ck.rng
    atoms2 = [("lit", Opd("t", True, "true")), ("lit", Opd("f", False, "false")), ("var", Opd("n", None)), ("var", Opd("z", 0))]
    # all flat and/or chains of 2..4 atoms with optional `not` in front of each atom (exhaustive over true/false atoms)
    tf = atoms2[:2]
    maxn = 3 if ck.quick else 4
    for n in range(1, maxn + 1):
        for ats in itertools.product(tf, repeat=n):
            for ops in itertools.product(["and", "or"], repeat=n - 1):
                for nots in itertools.product([False, True], repeat=n):
                    toks = []
                    for i in range(n):
                        if i:
                            toks.append(ops[i - 1])
                        if nots[i]:
                            toks.append("not")
                        toks.append(ats[i])
                    yield toks
                    # one parenthesisation of every contiguous sub-chain
                    for i in range(n):
                        for j in range(i + 1, n):
                            if (i, j) == (0, n - 1):
                                continue
                            yield parenthesise(toks, i, j)
    # random deeper trees
    for _ in range(600 if ck.quick else 6000):
        yield rand_tree(rng, 3 if ck.quick else 4, atoms2)


def parenthesise(toks, i, j):
    """Wrap atoms i..j (with their nots and operators) in parentheses."""
    out, idx = [], -1
    k = 0
    starts = []
    while k < len(toks):
        t = toks[k]
        if t == "not" or isinstance(t, tuple):
            # beginning of an atom group
            idx += 1
            if idx == i:
                out.append("(")
            if t == "not":
                out.append(t)
                k += 1
                t = toks[k]
            out.append(t)
            if idx == j:
                out.append(")")
        else:
            out.append(t)
        k += 1
    return out


def rand_tree(rng, depth, atoms):
    def go(d):
        r = rng.random()
        if d == 0 or r < 0.25:
            a = rng.choice(atoms)
            return [a]
        if r < 0.4:
            return ["not"] + go(d - 1)
        if r < 0.55:
            return ["("] + go(d - 1) + [")"]
        if r < 0.65:
            x, y = rng.choice(OPERANDS[:8] + OPERANDS[9:16]), rng.choice(OPERANDS[:8] + OPERANDS[9:16])
            return [operand_forms(x)[0], ("op", rng.choice(OPS)), operand_forms(y)[0]]
        return go(d - 1) + [rng.choice(["and", "or"])] + go(d - 1)
    return go(depth)


def run(ck: Check) -> None:
    ck.rule = (
        "operators: every ordered pair of 30 operand representatives (ints incl. 0/1/-1/10^20, floats, a Decimal, empty/blank-like and "
        "ordinary strings, lists, hashes, ranges, true/false/nil/undefined/empty/blank) x 8 operators, as literals and as variables "
        "(exhaustive); logic: every and/or chain of <=3 (quick) / <=4 boolean atoms with every placement of `not` and every single "
        "parenthesisation, plus seeded random trees to depth 3/4 mixing comparisons; constructs: if, unless, elsif chains, case/when, ternary. "
        "Non-trivial = the condition contains an operator; distinct = distinct token list."
    )
    ck.exhaustive = True
    ck.trusted_base = [
        "Coq 8.16.1 kernel + vm_compute",
        "harness: operand table, tokens -> source and -> Gallina printers, independent documented-semantics evaluator (props/c12.py)",
        "modelled not verified: Python ==/< on the operand universe, str.isspace, the expression tokenizer (tokens are generated, then spelled)",
    ]
    ck.assumptions = ["floats are short decimals; ordering comparisons involving booleans and empty/blank against nil are treated as unspecified by the oracle"]
    ck.proof()

    cases, expected, meta = [], [], []
    sigs = {}

    def one(toks, tag):
        src = "{% if " + expr_src(toks) + " %}T{% else %}F{% endif %}"
        data = expr_data(toks)
        s = render(src, data)
        a = render(src, data, True)
        want = doc_obs(toks)
        ck.note_case((tag, expr_src(toks), sorted(map(str, data.items()))), nontrivial=len(toks) > 1)
        ck.count(f"gen.{tag}")
        ck.count(f"obs.{s[0] if s[0] == 'out' else s[1]}")
        bad = s != a or (want is not None and s != want)
        if bad:
            sig = f"{tag}:" + expr_src(toks)[:120] if s == a else "sync-async-differ"
            if (s == a and len(toks) == 3 and toks[1] == ("op", "contains") and isinstance(toks[2][1].value, bool)
                    and isinstance(toks[0][1].value, (list, range))):
                sig = "contains-boolean-matches-integer-member"
            sigs[sig] = sigs.get(sig, 0) + 1
            if (len(sigs) <= 8 and sigs[sig] <= 1) or ck._known_for_sig(sig):
                ck.violation("impl-violation", sig, f"{src!r} data {data!r}: sync {s} async {a}, documented {want}",
                             {"type": "if", "template": src, "data": {k: repr(v) for k, v in data.items()}, "sync": s, "async": a,
                              "reference": want})
        if (len(toks) == 3 and toks[1] == ("op", "contains") and isinstance(toks[0][1].value, str)
                and toks[0][1].value not in ("EMPTY", "BLANK") and isinstance(toks[2][1].value, (list, dict, range))):
            ck.count("model.outside(str() of a collection)")
            return
        cases.append(f"{{| cc_toks := {g_list(g_tok(t) for t in toks)}; cc_env := {g_env([toks])} |}}")
        expected.append(f"OBranch {g_str(s[1])}" if s[0] == "out" else f"OErr {s[1]}")
        meta.append((src, data, s))

    for toks in gen_pairs(ck):
        one(toks, "pair")
    for toks in gen_logic(ck):
        one(toks, "logic")
    for toks in gen_group_operands(ck):
        one(toks, "group-operand")
    ck.sample({"template": meta[len(meta) // 3][0], "data": {k: repr(v) for k, v in meta[len(meta) // 3][1].items()}, "output": meta[len(meta) // 3][2]})
    ck.sample({"template": meta[-1][0], "data": {k: repr(v) for k, v in meta[-1][1].items()}, "output": meta[-1][2]})
    mm = ck.coq_mismatches("if", IMPORTS, "run_if", "obs_eqb", "ccase", "obs", cases, expected, chunk=900)
    ck.traces += len(cases)
    for i in mm[:4]:
        src, data, s = meta[i]
        ck.violation("correspondence", "c12-if-correspondence",
                     f"model Cond.run_if and the implementation disagree on {src!r} data {data!r}: impl {s}",
                     {"type": "if", "template": src, "data": {k: repr(v) for k, v in data.items()}, "impl": s,
                      "broken": "correspondence Cond.run_if ~ {% if %} (theorems C12_*)"}, no_input=True)

    # ---- if/elsif/else, unless, case/when, ternary
    conds = [[("lit", Opd("t", True, "true"))], [("lit", Opd("f", False, "false"))], [("var", Opd("n", None))],
             [("var", Opd("x", 0))], [("var", Opd("s", "")), ("op", "=="), ("lit", Opd("e", "EMPTY", "empty"))],
             [("lit", Opd("i1", 1, "1")), ("op", "<"), ("lit", Opd("s_a", "a", "'a'"))]]
    ccases, cexpected, cmeta = [], [], []
    for unless in (False, True):
        for n in (1, 2, 3):
            for cs in itertools.product(conds, repeat=n):
                for has_else in (False, True):
                    kw = "unless" if unless else "if"
                    src = "{% " + kw + " " + expr_src(cs[0]) + " %}0"
                    for i, c in enumerate(cs[1:], 1):
                        src += "{% elsif " + expr_src(c) + " %}" + str(i)
                    if has_else:
                        src += "{% else %}E"
                    src += "{% end" + kw + " %}"
                    data = {}
                    for c in cs:
                        data.update(expr_data(c))
                    s = render(src, data)
                    a = render(src, data, True)
                    ck.note_case(("chain", src), nontrivial=True)
                    ck.count("gen.chain")
                    if s != a:
                        ck.violation("impl-violation", "sync-async-differ", f"{src!r}: sync {s} async {a}",
                                     {"type": "if", "template": src, "data": {k: repr(v) for k, v in data.items()}, "sync": s, "async": a})
                    ccases.append(f"{{| ch_unless := {g_bool(unless)}; ch_conds := {g_list(g_list(g_tok(t) for t in c) for c in cs)}; "
                                  f"ch_else := {g_bool(has_else)}; ch_env := {g_env(cs)} |}}")
                    cexpected.append(f"OBranch {g_str(s[1])}" if s[0] == "out" else f"OErr {s[1]}")
                    cmeta.append((src, data, s))
    mm = ck.coq_mismatches("chain", IMPORTS, "run_chain", "obs_eqb", "chaincase", "obs", ccases, cexpected, chunk=600)
    ck.traces += len(ccases)
    for i in mm[:3]:
        src, data, s = cmeta[i]
        ck.violation("correspondence", "c12-chain-correspondence", f"model Cond.run_chain and the implementation disagree on {src!r}: impl {s}",
                     {"type": "if", "template": src, "data": {k: repr(v) for k, v in data.items()}, "impl": s,
                      "broken": "correspondence Cond.run_chain ~ if/unless/elsif/else (theorem C12_if_chain)"}, no_input=True)

    # case/when
    whenvals = [Opd("i1", 1, "1"), Opd("s1", "1", "'1'"), Opd("t", True, "true"), Opd("n", None, "nil"), Opd("f1", 1.0, "1.0"),
                Opd("e", "EMPTY", "empty"), Opd("se", "", "''"), Opd("u", UNDEF)]
    kcases, kexpected, kmeta = [], [], []
    for subj in whenvals:
        for w1 in itertools.product(whenvals, repeat=2):
            for w2 in whenvals[:4]:
                for layout in ("w1 w2 else", "w1 else w2", "else w1 w2", "w1 w2"):
                    src = "{% case " + (subj.literal or subj.name) + " %}"
                    blocks = []
                    idx = 0
                    for part in layout.split():
                        if part == "w1":
                            src += "{% when " + ", ".join(x.literal or x.name for x in w1) + " %}" + str(idx)
                            blocks.append("CWhen " + g_list(lit_or_var(x) for x in w1))
                        elif part == "w2":
                            src += "{% when " + (w2.literal or w2.name) + " %}" + str(idx)
                            blocks.append("CWhen " + g_list([lit_or_var(w2)]))
                        else:
                            src += "{% else %}" + str(idx)
                            blocks.append("CElse")
                        idx += 1
                    src += "{% endcase %}"
                    s = render(src, {})
                    a = render(src, {}, True)
                    ck.note_case(("case", src), nontrivial=True)
                    ck.count("gen.case")
                    if s != a:
                        ck.violation("impl-violation", "sync-async-differ", f"{src!r}: sync {s} async {a}",
                                     {"type": "if", "template": src, "data": {}, "sync": s, "async": a})
                    kcases.append(f"{{| cs_val := {lit_or_var(subj)}; cs_blocks := {g_list(blocks)}; cs_env := [] |}}")
                    kexpected.append(f"OBranch {g_str(s[1])}" if s[0] == "out" else f"OErr {s[1]}")
                    kmeta.append((src, {}, s))
    mm = ck.coq_mismatches("case", IMPORTS, "run_case", "obs_eqb", "casecase", "obs", kcases, kexpected, chunk=900)
    ck.traces += len(kcases)
    for i in mm[:3]:
        src, data, s = kmeta[i]
        ck.violation("correspondence", "c12-case-correspondence", f"model Cond.run_case and the implementation disagree on {src!r}: impl {s}",
                     {"type": "if", "template": src, "data": {}, "impl": s,
                      "broken": "correspondence Cond.run_case ~ case/when (theorem C12_case_when)"}, no_input=True)

    # ternary: the branch follows the condition
    tcases, texpected, tmeta = [], [], []
    for toks in itertools.islice(gen_logic(ck), 0, 400 if ck.quick else 3000):
        src = "{{ 'T' if " + expr_src(toks) + " else 'F' }}"
        data = expr_data(toks)
        s = render(src, data)
        a = render(src, data, True)
        ck.note_case(("ternary", src), nontrivial=True)
        ck.count("gen.ternary")
        if s != a:
            ck.violation("impl-violation", "sync-async-differ", f"{src!r}: sync {s} async {a}",
                         {"type": "if", "template": src, "data": {k: repr(v) for k, v in data.items()}, "sync": s, "async": a})
        tcases.append(f"{{| cc_toks := {g_list(g_tok(t) for t in toks)}; cc_env := {g_env([toks])} |}}")
        texpected.append(f"OBranch {g_str(s[1])}" if s[0] == "out" else f"OErr {s[1]}")
        tmeta.append((src, data, s))
    mm = ck.coq_mismatches("tern", IMPORTS, "run_if", "obs_eqb", "ccase", "obs", tcases, texpected, chunk=900)
    ck.traces += len(tcases)
    for i in mm[:3]:
        src, data, s = tmeta[i]
        ck.violation("correspondence", "c12-ternary-correspondence", f"model Cond.run_if and the ternary {src!r} disagree: impl {s}",
                     {"type": "if", "template": src, "data": {k: repr(v) for k, v in data.items()}, "impl": s,
                      "broken": "correspondence Cond.run_if ~ ternary condition (theorem C12_ternary)"}, no_input=True)


def lit_or_var(o):
    if o.literal is not None:
        return f"BLit ({g_val(o.value)})"
    return f"BVar {g_str(o.name)}"


def replay(data) -> int:
    case = data["case"]
    if case.get("type") != "if":
        print("replay names a proof/correspondence obligation:", case)
        return 1
    d = {k: eval(v, {"Decimal": decimal.Decimal, "range": range}) for k, v in case.get("data", {}).items()}  # noqa: S307
    s = render(case["template"], d)
    a = render(case["template"], d, True)
    print("template:", case["template"], "data:", d)
    print("sync:", s, "async:", a, "documented:", case.get("reference"))
    want = case.get("reference")
    bad = s != a or (want is not None and s != tuple(want))
    print(("VIOLATION reproduced" if bad else "not reproduced") + f" property={data['property']}")
    return 1 if bad else 0
