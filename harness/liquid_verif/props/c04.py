"""C04 — Serialising a template back to source preserves its meaning."""

from __future__ import annotations

import itertools
import re

from ..core import Check, classify_exc
from ..g import g_Z, g_list, g_str
from . import c12

IMPORTS = "PyPrims Cond CondPrint CondParen StrLit TagTree PathSyntax"

_ENV = None


def env():
    global _ENV
    if _ENV is None:
        from liquid import DictLoader, Environment

        _ENV = Environment(loader=DictLoader({"p": "[{{ x }}|{{ y }}]", "q": "<{{ q }}>"}))
        _ENV.logical_not_operator = True
        _ENV.logical_parentheses = True
        _ENV.ternary_expressions = True
    return _ENV


DATAS = (
    {},
    {"a": 1, "b": False, "c": "x", "l": [1, 2, 3], "x": "X", "y": "k", "d": {"k": "v", "a b": "sp", "it's": "q"}, "g": "h", "n": 0, "t": True, "f": False, "z": 0},
    {"a": False, "b": True, "c": None, "l": [], "x": [3, 4], "y": 1, "d": {"k": {"j": [5, 6]}}, "g": "", "n": None, "t": True, "f": False, "z": 0},
    {"a": "", "b": "b", "c": 0, "l": ["a", "b"], "x": 0, "y": "a b", "d": {"X": "bx", "k": [7]}, "g": "g h", "t": True, "f": False},
)


def outcome(t, d):
    try:
        return ("out", t.render(**d))
    except Exception as e:  # noqa: BLE001
        return ("err", classify_exc(e))


def roundtrip(src):
    """The property on the implementation: None if it holds for src, else (kind, detail)."""
    try:
        t = env().from_string(src)
    except Exception:  # noqa: BLE001
        return ("orig-rejected", None, None)
    s = str(t)
    try:
        t2 = env().from_string(s)
    except Exception as e:  # noqa: BLE001
        return ("reparse-fails", s, classify_exc(e))
    s2 = str(t2)
    if s2 != s:
        return ("not-idempotent", s, s2)
    for d in DATAS:
        o1, o2 = outcome(t, d), outcome(t2, d)
        if o1 != o2:
            return ("render-differs", s, {"data": d, "original": o1, "reparsed": o2})
    return None


def rt_and_str(src):
    r = roundtrip(src)
    if r and r[0] == "orig-rejected":
        return r, None
    return r, str(env().from_string(src))


def batch(srcs):
    """roundtrip + str() for many sources, on all cores (each worker imports the engine itself)."""
    import concurrent.futures
    import os

    with concurrent.futures.ProcessPoolExecutor(max_workers=min(12, os.cpu_count() or 4)) as ex:
        return list(ex.map(rt_and_str, srcs, chunksize=50))


NIL_RE = re.compile(r"(?<![\w.'\"\[-])(nil|null)(?![\w'\"\]-])")


def report(ck, src, r, layer, counter):
    kind, s, detail = r
    if kind == "orig-rejected":
        ck.count(f"{layer}.rejected-by-parser")
        return
    # the recorded finding: the nil/null literal prints as nothing.  It shows as a syntax error, or (for a trailing argument)
    # as an argument that silently disappears.  It is THIS finding iff the same source with the literal spelled `false` round-trips.
    if NIL_RE.search(src) and roundtrip(NIL_RE.sub("false", src)) is None:
        sig = "nil-literal-serialises-to-nothing"
    else:
        sig = f"{kind}:{src[:100]}"
    if counter[0] < 8 or sig == "nil-literal-serialises-to-nothing":
        counter[0] += 1
        ck.violation("impl-violation", sig, f"{src!r}: str() gives {s!r}; {kind}: {detail!r}",
                     {"type": "roundtrip", "template": src, "str": s, "kind": kind, "detail": detail})


# ------------------------------------------------------------------ layer A: conditions
LIT_BY_SPELLING = {o.literal: o for o in c12.OPERANDS if o.literal is not None}
COND_TOK = re.compile(r"\(\s*-?\d+\s*\.\.\s*-?\d+\s*\)|'[^']*'|\"[^\"]*\"|\(|\)|==|!=|<>|<=|>=|<|>|-?\d+\.\d+|-?\d+|[\w-]+")


def cond_tokens(text, vars_by_name):
    """Tokens of a printed condition, in c12's token vocabulary (None if some token is not in the vocabulary)."""
    out = []
    pos = 0
    text = text.strip()
    while pos < len(text):
        if text[pos].isspace():
            pos += 1
            continue
        m = COND_TOK.match(text, pos)
        if not m:
            return None
        w = m.group(0)
        pos = m.end()
        if w in ("and", "or", "not", "(", ")"):
            out.append(w)
        elif w in c12.COQ_OP or w == "contains":
            out.append(("op", w))
        elif w in LIT_BY_SPELLING:
            out.append(("lit", LIT_BY_SPELLING[w]))
        elif w in vars_by_name:
            out.append(("var", vars_by_name[w]))
        else:
            return None
    return out


def gen_conditions(ck):
    yield from c12.gen_logic(ck)
    rng = ck.rng
    opds = [o for o in c12.OPERANDS if o.name not in ("n",)]  # the nil literal is the recorded known finding (layer D)
    atoms = [("var", c12.Opd("a", True)), ("var", c12.Opd("b", False)), ("lit", c12.OPERANDS[24]), ("lit", c12.OPERANDS[25]), ("var", c12.Opd("c", None))]

    def operand(d):
        if d > 0 and rng.random() < 0.35:
            return ["("] + tree(d - 1) + [")"]
        o = rng.choice(opds)
        return [c12.operand_forms(o)[0]]

    def tree(d):
        r = rng.random()
        if d == 0 or r < 0.2:
            return [rng.choice(atoms)]
        if r < 0.35:
            return ["not"] + tree(d - 1)
        if r < 0.5:
            return ["("] + tree(d - 1) + [")"]
        if r < 0.7:
            return operand(d) + [("op", rng.choice(c12.OPS))] + operand(d)
        return tree(d - 1) + [rng.choice(["and", "or"])] + tree(d - 1)

    for _ in range(500 if ck.quick else 5000):
        yield tree(3 if ck.quick else 4)


SEARCH_VALUES = [True, False, None, 0, 1, "x", "True story", "ab", [1], {"a": 1}]


def search_condition(toks, rng):
    """A condition whose serialisation disagrees with the model: look for data on which the ORIGINAL and the RE-PARSED
    template render differently (operands replaced by variables, values drawn from a small pool)."""
    names, out = [], []
    for t in toks:
        if isinstance(t, tuple) and t[0] in ("lit", "var"):
            names.append(f"v{len(names)}")
            out.append(names[-1])
        else:
            out.append(c12.tok_src(t))
    src = "{% if " + " ".join(out) + " %}1{% else %}2{% endif %}"
    try:
        t1 = env().from_string(src)
        t2 = env().from_string(str(t1))
    except Exception as e:  # noqa: BLE001
        return src, None, ("reparse-fails", classify_exc(e))
    combos = itertools.product(SEARCH_VALUES, repeat=len(names)) if len(names) <= 3 else (
        tuple(rng.choice(SEARCH_VALUES) for _ in names) for _ in range(1500))
    for vals in combos:
        d = dict(zip(names, vals))
        o1, o2 = outcome(t1, d), outcome(t2, d)
        if o1 != o2:
            return src, d, (o1, o2)
    return src, None, None


def search_small_scope():
    """Exhaustive small scope on the implementation: every two-operator condition with explicit grouping over three
    variables, every assignment from a small value pool; returns the first (source, data, outcomes) that breaks the round trip."""
    ops = ["and", "or", "==", "!=", "<", ">=", "contains"]
    shapes = []
    for o1 in ops:
        for o2 in ops:
            shapes.append(f"(v0 {o2} v1) {o1} v2")
            shapes.append(f"v0 {o1} (v1 {o2} v2)")
        shapes += [f"not (v0 {o1} v1)", f"(not v0) {o1} v1", f"v0 {o1} (not v1)", f"not v0 {o1} v1", f"v0 {o1} not v1"]
    pool = [True, False, None, "x", "True story", 1]
    for sh in shapes:
        src = "{% if " + sh + " %}1{% else %}2{% endif %}"
        try:
            t1 = env().from_string(src)
        except Exception:  # noqa: BLE001
            continue
        try:
            t2 = env().from_string(str(t1))
        except Exception as e:  # noqa: BLE001
            return src, {}, ("reparse-fails", classify_exc(e))
        for vals in itertools.product(pool, repeat=3):
            d = dict(zip(("v0", "v1", "v2"), vals))
            o1_, o2_ = outcome(t1, d), outcome(t2, d)
            if o1_ != o2_:
                return src, d, (o1_, o2_)
    return None, None, None


# ------------------------------------------------------------------ layer B: string literals
STR_ALPHABET = ["a", " ", "'", '"', "\\", "\n", "{", "%", "}", "n", "é"]


def gen_strings(ck):
    maxlen = 3 if ck.quick else 4
    for n in range(0, maxlen + 1):
        for cs in itertools.product(STR_ALPHABET, repeat=n):
            s = "".join(cs)
            if "'" in s and '"' in s:
                continue
            if "}}" in s or "%}" in s:  # would close the output statement: not a string literal any more
                continue
            yield s


# ------------------------------------------------------------------ layer E: paths
PATH_NAMES = ["a", "k", "d", "a b", "it's", "X", "", "1x", "a-b", "é", "size", "x"]
PATH_TOK = re.compile(r"\[\s*(?P<idx>-?\d+)\s*\]|\[\s*(?P<q>[\"'])(?P<str>.*?)(?P=q)\s*\]|(?P<lb>\[)|(?P<rb>\])|(?P<dot>\.)|(?P<word>[\w-]+\??)", re.S)


def gen_paths(ck):
    rng = ck.rng

    def seg(d):
        r = rng.random()
        if r < 0.6 or d == 0:
            return ("name", rng.choice(PATH_NAMES))
        if r < 0.8:
            return ("idx", rng.choice([0, 1, -1, 10]))
        return ("nested", path(d - 1))

    def path(d):
        return [seg(d) for _ in range(rng.randrange(1, 4))]

    for n1 in PATH_NAMES:                       # every name as root, alone and followed by every name
        yield [("name", n1)]
        for n2 in PATH_NAMES:
            yield [("name", n1), ("name", n2)]
            yield [("nested", [("name", n1)]), ("name", n2)]
    for _ in range(300 if ck.quick else 3000):
        yield path(2)


def path_source(p, rng, first=True):
    out = []
    for i, (k, v) in enumerate(p):
        if k == "name":
            plain = re.fullmatch(r"[a-zA-Z_\u0080-\uffff][\w-]*", v) is not None
            if plain and rng.random() < 0.7:
                out.append(v if (first and i == 0) else "." + v)
            else:
                q = '"' if "'" in v else "'"
                out.append("[" + q + v + q + "]")
        elif k == "idx":
            out.append(f"[{v}]")
        else:
            out.append("[" + path_source(v, rng) + "]")
    return "".join(out)


def g_path(p):
    return g_list(f"SName {g_str(v)}" if k == "name" else f"SIdx {g_Z(v)}" if k == "idx" else f"SNested {g_path(v)}" for k, v in p)


def path_tokens(text):
    out, pos = [], 0
    while pos < len(text):
        m = PATH_TOK.match(text, pos)
        if not m:
            return None
        pos = m.end()
        if m.group("idx") is not None:
            out.append(f"PIdentIdx {g_Z(int(m.group('idx')))}")
        elif m.group("str") is not None:
            out.append(f"PIdentStr {g_str(m.group('str'))}")
        elif m.group("lb"):
            out.append("PLBr")
        elif m.group("rb"):
            out.append("PRBr")
        elif m.group("dot"):
            out.append("PDot")
        else:
            out.append(f"PWord {g_str(m.group('word'))}")
    return out


# ------------------------------------------------------------------ layer C: tag structure
OUT_EXPRS = ["x", "x | upcase", "'lit'", "l[0]", "d.k", "x if a else c", "(1..3) | join: ','", "d['a b']", "x | default: 'd', allow_false:true"]
INLINES = [("assign", "z = x | upcase"), ("echo", "x"), ("cycle", "'a', 'b'"), ("cycle", "g: 1, 2"), ("increment", "n"), ("decrement", "n"),
           ("include", "'p'"), ("include", "'p' with l[0] as x"), ("render", "'p'"), ("render", "'p' for l as x"), ("render", "'p', x:1"),
           ("#", "note"), ("liquid", "assign z = 1\necho z")]
BLOCKS = {"if": ["a", "a and b", "not a", "x == 'X'"], "unless": ["a", "a or b"], "case": ["x", "a"], "for": ["i in l", "i in (1..3) limit:2", "i in l reversed"],
          "tablerow": ["i in l cols:2", "i in l"], "capture": ["z"], "ifchanged": [""]}
TEXTS = ["a", " b ", "x\ny", "1", "-"]
RAWS = ["{{ x }}", "{% if %}", "a{{b", "{%"]


def gen_trees(ck):
    rng = ck.rng

    def nodes(depth, in_for=False):
        out = []
        for _ in range(rng.randrange(0, 4)):
            r = rng.random()
            if r < 0.2:
                if out and out[-1][0] == "text":
                    continue
                out.append(("text", rng.choice(TEXTS)))
            elif r < 0.27:
                out.append(("raw", rng.choice(RAWS)))
            elif r < 0.32:
                out.append(("comment", rng.choice(["c", "hidden {{ x }}", " "])))
            elif r < 0.5:
                out.append(("out", rng.choice(OUT_EXPRS)))
            elif r < 0.7 or depth == 0:
                name, e = rng.choice(INLINES + ([("break", ""), ("continue", "")] if in_for else []))
                out.append(("inline", name, e))
            else:
                out.append(block(depth - 1, in_for))
        return out

    def block(depth, in_for):
        name = rng.choice(list(BLOCKS))
        e = rng.choice(BLOCKS[name])
        inner_for = in_for or name in ("for", "tablerow")
        secs = []
        if name in ("if", "unless"):
            for _ in range(rng.randrange(0, 3)):
                secs.append(("elsif", rng.choice(BLOCKS["if"]), nodes(depth, in_for)))
            if rng.random() < 0.5:
                secs.append(("else", "", nodes(depth, in_for)))
            body = nodes(depth, in_for)
        elif name == "case":
            # when and else sections in ANY order (an else may come before a later when, and there may be several)
            for _ in range(rng.randrange(0, 4)):
                if rng.random() < 0.3:
                    secs.append(("else", "", nodes(depth, in_for)))
                else:
                    secs.append(("when", rng.choice(["1", "2, 3", "'X'", "y"]), nodes(depth, in_for)))
            body = []
        elif name == "for":
            body = nodes(depth, True)
            if rng.random() < 0.4:
                secs.append(("else", "", nodes(depth, in_for)))
        else:
            body = nodes(depth, inner_for)
        return ("block", name, e, body, secs)

    # systematic: every block tag, every inline tag, each alone and nested once
    for name, es in BLOCKS.items():
        for e in es:
            yield [("block", name, e, [] if name == "case" else [("out", "x")], [])]
    for order in itertools.product(["when1", "when2", "else"], repeat=3):
        secs = [("else", "", [("text", f"e{i}")]) if o == "else" else ("when", "'X'" if o == "when1" else "1, 'k'", [("text", f"w{i}")]) for i, o in enumerate(order)]
        yield [("block", "case", "x", [], secs)]
        yield [("block", "case", "y", [], secs)]
    for name, e in INLINES:
        yield [("inline", name, e)]
        yield [("block", "if", "a", [("inline", name, e)], [("else", "", [("text", "a"), ("inline", name, e)])])]
    for _ in range(500 if ck.quick else 5000):
        t = nodes(2 if ck.quick else 3)
        if t:
            yield t


def tree_source(ns):
    out = []
    for n in ns:
        k = n[0]
        if k == "text":
            out.append(n[1])
        elif k == "raw":
            out.append("{% raw %}" + n[1] + "{% endraw %}")
        elif k == "comment":
            out.append("{% comment %}" + n[1] + "{% endcomment %}")
        elif k == "out":
            out.append("{{ " + n[1] + " }}")
        elif k == "inline":
            out.append("{% " + n[1] + (" " + n[2] if n[2] else "") + " %}")
        else:
            _, name, e, body, secs = n
            out.append("{% " + name + (" " + e if e else "") + " %}" + tree_source(body))
            for sn, se, sb in secs:
                out.append("{% " + sn + (" " + se if se else "") + " %}" + tree_source(sb))
            out.append("{% end" + name + " %}")
    return "".join(out)


def g_nodes(ns):
    out = []
    for n in ns:
        k = n[0]
        if k == "text":
            out.append(f"NText {g_str(n[1])}")
        elif k == "raw":
            out.append(f"NRaw {g_str(n[1])}")
        elif k == "comment":
            out.append(f"NComment {g_str(n[1])}")
        elif k == "out":
            out.append(f"NOut {g_str(n[1])}")
        elif k == "inline":
            out.append(f"NInline {g_str(n[1])} {g_str(n[2])}")
        else:
            _, name, e, body, secs = n
            gs = g_list(f"({g_str(sn)}, {g_str(se)}, {g_nodes(sb)})" for sn, se, sb in secs)
            out.append(f"NBlock {g_str(name)} {g_str(e)} {g_nodes(body)} {gs}")
    return g_list(out)


TPL_TOK = re.compile(
    r"\{% raw %\}(?P<raw>.*?)\{% endraw %\}|\{% comment %\}(?P<comment>.*?)\{% endcomment %\}|\{\{ (?P<out>.*?) \}\}"
    r"|\{% (?P<name>#|\w+)(?P<expr>.*?) %\}",
    re.S,
)


def tpl_tokens(text):
    """Tag-level tokens of a serialised template (the serialiser's output is regular: single spaces, no markers)."""
    toks, pos = [], 0
    for m in TPL_TOK.finditer(text):
        if m.start() > pos:
            toks.append(("KText", text[pos:m.start()]))
        pos = m.end()
        if m.group("raw") is not None:
            toks.append(("KRaw", m.group("raw")))
        elif m.group("comment") is not None:
            toks.append(("KComment", m.group("comment")))
        elif m.group("out") is not None:
            toks.append(("KOut", m.group("out")))
        else:
            toks.append(("KTag", m.group("name"), m.group("expr")[1:] if m.group("expr").startswith(" ") else m.group("expr")))
    if pos < len(text):
        toks.append(("KText", text[pos:]))
    # CaseNode.__str__ puts a newline after the case tag (text there is dropped by the parser): not part of the structure
    out = []
    for i, t in enumerate(toks):
        if t == ("KText", "\n") and i > 0 and toks[i - 1][0] == "KTag" and toks[i - 1][1] == "case":
            continue
        out.append(t)
    return out


def g_ttoks(toks):
    return g_list(f"{t[0]} {g_str(t[1])}" if len(t) == 2 else f"KTag {g_str(t[1])} {g_str(t[2])}" for t in toks)


# ------------------------------------------------------------------ layer D: rich random templates (oracle only)
def gen_rich(ck):
    rng = ck.rng
    names = ["a", "b", "c", "x", "y", "l", "d", "g", "n"]
    strs = ["a", "it's", 'say "hi"', "a\\b", "x\ny", "", " ", "a b", "%", "1"]

    def q(s):
        return '"' + s + '"' if "'" in s else "'" + s + "'"

    def path(depth=2):
        r = rng.random()
        root = rng.choice(names)
        if r < 0.1:
            root = "[" + rng.choice(["x", "y", q("a b"), q("x")]) + "]"
        segs = []
        for _ in range(rng.randrange(0, 3)):
            k = rng.random()
            if k < 0.35:
                segs.append("." + rng.choice(["k", "first", "size", "j", "a-b", "X"]))
            elif k < 0.55:
                segs.append(f"[{rng.choice([0, 1, -1])}]")
            elif k < 0.8:
                segs.append("[" + q(rng.choice(["k", "a b", "it's", "X", ""])) + "]")
            elif depth > 0:
                segs.append("[" + path(depth - 1) + "]")
        return root + "".join(segs)

    def prim():
        r = rng.random()
        if r < 0.4:
            return path()
        if r < 0.6:
            return q(rng.choice(strs))
        if r < 0.75:
            return str(rng.choice([0, 1, -3, 42, 1.5, -0.5, 1.0]))
        if r < 0.85:
            return rng.choice(["true", "false", "nil" if rng.random() < 0.15 else "true"])
        return f"({rng.choice([1, 'a', 'n'])}..{rng.choice([3, 'y', 5])})"

    def filt():
        return rng.choice(["upcase", "size", "append: " + prim(), "default: " + prim() + ", allow_false: true", "slice: 1, 2", "join: ', '",
                           "replace: 'a', " + prim(), "first", "plus: " + prim(), "where: 'k', " + prim()])

    def filtered():
        e = prim()
        for _ in range(rng.randrange(0, 3)):
            e += " | " + filt()
        return e

    def cond(d=2):
        r = rng.random()
        if d == 0 or r < 0.3:
            return prim() if rng.random() < 0.5 else prim() + " " + rng.choice(["==", "!=", "<", ">=", "contains", "<>"]) + " " + prim()
        if r < 0.45:
            return "not " + cond(d - 1)
        if r < 0.6:
            return "(" + cond(d - 1) + ")"
        if r < 0.7:
            return prim() + " == " + rng.choice(["empty", "blank", "(" + cond(d - 1) + ")"])
        return cond(d - 1) + rng.choice([" and ", " or "]) + cond(d - 1)

    def output():
        e = filtered()
        r = rng.random()
        if r < 0.2:
            e += " if " + cond(1)
            if rng.random() < 0.6:
                e += " else " + filtered()
            if rng.random() < 0.3:
                e += " || " + filt()
        return e

    def ws():
        return rng.choice(["", "", "", "-"])

    def tag(body):
        return "{%" + ws() + " " + body + " " + ws() + "%}"

    def node(d, in_for):
        r = rng.random()
        if r < 0.15:
            return rng.choice(["a", " b ", "\n", "text {", "} %", "-"])
        if r < 0.35:
            return "{{" + ws() + " " + output() + " " + ws() + "}}"
        if r < 0.42:
            return tag("assign z = " + filtered())
        if r < 0.46:
            return tag("echo " + output())
        if r < 0.50:
            return tag("cycle " + rng.choice(["", q("g") + ": ", "g: ", q("a b") + ": "]) + ", ".join(prim() for _ in range(rng.randrange(1, 4))))
        if r < 0.53:
            return tag(rng.choice(["increment", "decrement"]) + " n")
        if r < 0.58:
            return tag("include " + rng.choice(["'p'", "'p' with " + path() + " as x", "'p' for l as y", "'p', x: " + prim() + ", y: " + prim(), "'q' with " + path()]))
        if r < 0.63:
            return tag("render " + rng.choice(["'p'", "'p' with " + path() + " as x", "'p' for l as y", "'p', x: " + prim(), "'q' for l"]))
        if r < 0.66:
            return rng.choice(["{% raw %}{{ x }} {% if %}{% endraw %}", "{% comment %}c {{ x }}{% endcomment %}", "{% # note %}", "{% doc %}d{% enddoc %}",
                               "{% liquid assign z = " + prim() + "\n echo z | upcase\n if " + cond(1) + "\n echo 'y'\n endif %}"])
        if d == 0:
            return "{{ " + path() + " }}"
        if r < 0.76:
            s = tag("if " + cond()) + nodes(d - 1, in_for)
            for _ in range(rng.randrange(0, 2)):
                s += tag("elsif " + cond(1)) + nodes(d - 1, in_for)
            if rng.random() < 0.5:
                s += tag("else") + nodes(d - 1, in_for)
            return s + tag("endif")
        if r < 0.8:
            return tag("unless " + cond(1)) + nodes(d - 1, in_for) + (tag("else") + nodes(d - 1, in_for) if rng.random() < 0.4 else "") + tag("endunless")
        if r < 0.86:
            s = tag("case " + prim())
            for _ in range(rng.randrange(1, 4)):
                if rng.random() < 0.25:
                    s += tag("else") + nodes(d - 1, in_for)
                else:
                    s += tag("when " + rng.choice([", ", " or "]).join(prim() for _ in range(rng.randrange(1, 3)))) + nodes(d - 1, in_for)
            return s + tag("endcase")
        if r < 0.93:
            args = "".join(rng.choice(["", " limit:" + rng.choice(["2", "n", "y"]), " offset:" + rng.choice(["1", "continue", "n"]), " reversed"]) for _ in range(2))
            s = tag("for i in " + rng.choice(["l", "(1..3)", "d", path(), "(1..y)"]) + args) + nodes(d - 1, True)
            if rng.random() < 0.3:
                s += tag("else") + nodes(d - 1, in_for)
            return s + tag("endfor")
        if r < 0.96:
            return tag("tablerow i in " + rng.choice(["l", "(1..3)"]) + rng.choice(["", " cols:2", " cols:2 limit:1", " offset:1"])) + nodes(d - 1, True) + tag("endtablerow")
        if r < 0.98:
            return tag("capture z") + nodes(d - 1, in_for) + tag("endcapture")
        return tag("ifchanged") + nodes(d - 1, in_for) + tag("endifchanged")

    def nodes(d, in_for):
        return "".join(node(d, in_for) for _ in range(rng.randrange(1, 4)))

    for _ in range(1500 if ck.quick else 15000):
        yield nodes(2 if ck.quick else 3, False)


# corpus: the concrete inputs on which str() used to lose or change meaning (kept so that a regression is reported with them first)
CORPUS = [
    "{% if (a and b) or c %}1{% else %}2{% endif %}", "{% if (not a) and b %}1{% else %}2{% endif %}", "{% if a == (b and c) %}1{% else %}2{% endif %}",
    "{% if (a == b) == c %}1{% else %}2{% endif %}", "{% if a == empty %}1{% endif %}", "{% if a == blank or b %}1{% endif %}",
    "{{ 'a\\b' }}", "{{ 'a\nb' }}", "{{ [x] }}", "{{ [\"a b\"].k }}", "{{ d[\"it's\"] }}", "{% cycle 'a b': 1, 2 %}",
    "{% cycle 'g': 1, 2 %}{% cycle g: 1, 2 %}{% cycle 'h': 1, 2 %}",
    "{% tablerow i in l cols:2 %}{{ i }}{% endtablerow %}", "{% for i in l %}{% ifchanged %}{{ i }}{% endifchanged %}{% endfor %}",
    "{% raw %}{{ x }}{% endraw %}", "{{ x if not a and b else 'z' }}", "{{ x if (a or b) and c }}",
]


def run(ck: Check) -> None:
    ck.rule = (
        "A: every and/or/not chain of <=3 (quick) / <=4 atoms with every single parenthesisation + seeded random condition trees "
        "(depth<=3/4, comparisons with parenthesised operands, empty/blank) inside {% if %}; B: every string value of length <=3/4 over "
        "{a space ' \" \\ newline { % } n e-acute} (not both quotes) as a literal in an output statement; C: every block and inline tag alone "
        "and nested, plus seeded random tag trees (depth<=2/3) with raw/comment/text/output; E: every pair of names from a pool with awkward spellings as root/second segment, bare and bracketed, plus seeded random paths with indexes and nested paths; D: seeded random rich templates (filters, ternaries, "
        "bracketed/quoted/nested paths, ranges, whitespace control, liquid tag, include/render). Every case is checked on the implementation "
        "(str() parses; renders equal on 4 data sets; str of the re-parse is the same text); A-C and E are also evaluated in the Coq model. "
        "Non-trivial = the original source parses; distinct = distinct source."
    )
    ck.exhaustive = True
    ck.trusted_base = [
        "Coq 8.16.1 kernel + vm_compute",
        "harness: generators, tokenisers of the serialised text (conditions, tag level), Gallina printers (props/c04.py, c12 operand table)",
        "modelled not verified: the expression tokenizer for the generated vocabulary, the template lexer (tag-level tokens are taken as given; C10), "
        "paths, filters, arguments and ternaries are opaque payloads of the structure model (their round trip is checked on the implementation only)",
    ]
    ck.assumptions = ["default delimiters; logical_not_operator, logical_parentheses and ternary_expressions enabled; the nil/null literal is the "
                      "recorded known finding (its serialisation to '' is pinned by the existing tests)"]
    ck.proof()
    counter = [0]

    for src in CORPUS:
        r = roundtrip(src)
        ck.note_case(("corpus", src), nontrivial=True)
        ck.count("corpus")
        if r:
            report(ck, src, r, "corpus", counter)

    # ---- A
    cases, expected, meta = [], [], []
    cond_meta, searched = [], []
    conds = list(gen_conditions(ck))
    srcs = ["{% if " + c12.expr_src(toks) + " %}1{% else %}2{% endif %}" for toks in conds]
    for toks, src, (r, s) in zip(conds, srcs, batch(srcs)):
        ck.note_case(("cond", src), nontrivial=not (r and r[0] == "orig-rejected"))
        ck.count("A.conditions")
        if r:
            report(ck, src, r, "A", counter)
            if r[0] == "orig-rejected":
                continue
        m = re.fullmatch(r"\{% if (.*?) %\}1\{% else %\}2\{% endif %\}", s, re.S)
        vars_by_name = {t[1].name: t[1] for t in toks if isinstance(t, tuple) and t[0] == "var"}
        ptoks = cond_tokens(m.group(1), vars_by_name) if m else None
        if ptoks is None:
            ck.violation("correspondence", "c04-condition-text-not-tokenisable", f"str() of {src!r} is {s!r}: not a condition over the generated vocabulary",
                         {"type": "roundtrip", "template": src, "str": s, "broken": "correspondence CondParen.run_print2 ~ BooleanExpression.__str__"}, no_input=True)
            continue
        cases.append("{| pc_toks := " + g_list(c12.g_tok(t) for t in toks) + " |}")
        expected.append("Some " + g_list(c12.g_tok(t) for t in ptoks))
        meta.append((src, s))
        cond_meta.append(toks)
    ck.sample({"template": meta[len(meta) // 2][0], "str": meta[len(meta) // 2][1]})
    mm = ck.coq_mismatches("cond", IMPORTS, "run_print2", "run_print_eqb", "pcase", "option (list tok)", cases, expected, chunk=400)
    ck.traces += len(cases)
    for i in mm[:3]:
        src, s = meta[i]
        model = ck.coq_eval(IMPORTS, [f"run_print2 ({cases[i]})"])[0]
        vsrc, d, diff = search_condition(cond_meta[i], ck.rng)
        if diff is None and not searched:
            searched.append(1)
            vsrc, d, diff = search_small_scope()
        if diff is not None:
            ck.violation("impl-violation", f"condition-roundtrip:{vsrc[:100]}",
                         f"{vsrc!r} (str() = {str(env().from_string(vsrc))!r}) with data {d!r}: original and re-parsed differ: {diff!r}",
                         {"type": "roundtrip-data", "template": vsrc, "data": d, "found_from": src, "model": model})
            continue
        ck.violation("correspondence", "c04-condition-correspondence", f"model CondParen.print2 and str() disagree on {src!r}: str() = {s!r}",
                     {"type": "roundtrip", "template": src, "str": s, "model": model,
                      "broken": "correspondence CondParen.run_print2 ~ BooleanExpression.__str__ (theorems C04_condition_roundtrip, C04_condition_idempotent)"}, no_input=True)

    # ---- B
    cases, expected, meta = [], [], []
    vals = list(gen_strings(ck))
    srcs = ["{{ " + ('"' if "'" in v else "'") + v + ('"' if "'" in v else "'") + " }}" for v in vals]
    for v, src, (r, s) in zip(vals, srcs, batch(srcs)):
        ck.note_case(("str", v), nontrivial=not (r and r[0] == "orig-rejected"))
        ck.count("B.string-literals")
        if r:
            report(ck, src, r, "B", counter)
            if r[0] == "orig-rejected":
                continue
        if not (s.startswith("{{ ") and s.endswith(" }}")):
            continue
        cases.append("{| sl_value := " + g_str(v) + " |}")
        expected.append(g_str(s[3:-3]))
        meta.append((src, s))
    mm = ck.coq_mismatches("strlit", IMPORTS, "run_quote", "str_eqb", "slcase", "str", cases, expected, chunk=500)
    ck.traces += len(cases)
    for i in mm[:3]:
        src, s = meta[i]
        ck.violation("correspondence", "c04-string-literal-correspondence", f"model StrLit.quote_string and str() disagree on {src!r}: str() = {s!r}",
                     {"type": "roundtrip", "template": src, "str": s, "broken": "correspondence StrLit.run_quote ~ StringLiteral.__str__ (theorem C04_string_literal_roundtrip)"}, no_input=True)

    # ---- E
    cases, expected, meta = [], [], []
    paths = list(gen_paths(ck))
    srcs = ["{{ " + path_source(p, ck.rng) + " }}" for p in paths]
    for pth, src, (r, s) in zip(paths, srcs, batch(srcs)):
        ck.note_case(("path", src), nontrivial=not (r and r[0] == "orig-rejected"))
        ck.count("E.paths")
        if r:
            report(ck, src, r, "E", counter)
            if r[0] == "orig-rejected":
                continue
        ptoks = path_tokens(s[3:-3]) if s.startswith("{{ ") and s.endswith(" }}") else None
        if ptoks is None:
            continue
        cases.append("{| pth := " + g_path(pth) + " |}")
        expected.append(g_list(ptoks))
        meta.append((src, s))
    mm = ck.coq_mismatches("path", IMPORTS, "run_path", "list_eqb ptok_eqb", "pathcase", "list ptok", cases, expected, chunk=500)
    ck.traces += len(cases)
    for i in mm[:3]:
        src, s = meta[i]
        model = ck.coq_eval(IMPORTS, [f"run_path ({cases[i]})"])[0]
        ck.violation("correspondence", "c04-path-correspondence", f"model PathSyntax.print_path and str() disagree on {src!r}: str() = {s!r}",
                     {"type": "roundtrip", "template": src, "str": s, "model": model[:1500],
                      "broken": "correspondence PathSyntax.run_path ~ Path.__str__ (theorem C04_path_roundtrip)"}, no_input=True)

    # ---- C
    cases, expected, meta = [], [], []
    trees = list(gen_trees(ck))
    srcs = [tree_source(t) for t in trees]
    for tree, src, (r, s) in zip(trees, srcs, batch(srcs)):
        ck.note_case(("tree", src), nontrivial=not (r and r[0] == "orig-rejected"))
        ck.count("C.tag-trees")
        if r:
            report(ck, src, r, "C", counter)
            if r[0] == "orig-rejected":
                continue
        cases.append("{| tc_nodes := " + g_nodes(tree) + " |}")
        expected.append(g_ttoks(tpl_tokens(s)))
        meta.append((src, s))
    ck.sample({"template": meta[-1][0], "str": meta[-1][1]})
    mm = ck.coq_mismatches("tree", IMPORTS, "run_tprint", "tprint_eqb", "tcase", "list ttok", cases, expected, chunk=200)
    ck.traces += len(cases)
    for i in mm[:3]:
        src, s = meta[i]
        model = ck.coq_eval(IMPORTS, [f"run_tprint ({cases[i]})"])[0]
        ck.violation("correspondence", "c04-structure-correspondence", f"model TagTree.print_nodes and str() disagree on {src!r}: str() = {s!r}",
                     {"type": "roundtrip", "template": src, "str": s, "model": model[:2000],
                      "broken": "correspondence TagTree.run_tprint ~ Node.__str__ of the block/inline tags (theorem C04_structure_roundtrip)"}, no_input=True)

    # ---- D
    parsed = 0
    srcs = list(gen_rich(ck))
    for src, (r, _s) in zip(srcs, batch(srcs)):
        ok = not (r and r[0] == "orig-rejected")
        parsed += ok
        ck.note_case(("rich", src), nontrivial=ok)
        ck.count("D.rich-templates" + ("" if ok else ".rejected"))
        if r:
            report(ck, src, r, "D", counter)
    ck.extra["rich_templates_parsed"] = parsed


def replay(data) -> int:
    case = data["case"]
    if case.get("type") == "roundtrip-data":
        t1 = env().from_string(case["template"])
        t2 = env().from_string(str(t1))
        o1, o2 = outcome(t1, case["data"]), outcome(t2, case["data"])
        print("template:", repr(case["template"]), "str():", repr(str(t1)), "data:", case["data"])
        print("original:", o1, "re-parsed:", o2)
        print(("VIOLATION reproduced" if o1 != o2 else "not reproduced") + f" property={data['property']}")
        return 1 if o1 != o2 else 0
    if case.get("type") != "roundtrip" or "template" not in case:
        print("replay names a proof/correspondence obligation:", case)
        return 1
    r = roundtrip(case["template"])
    print("template:", repr(case["template"]))
    print("round trip:", r)
    bad = r is not None and r[0] != "orig-rejected"
    print(("VIOLATION reproduced" if bad else "not reproduced") + f" property={data['property']}")
    return 1 if bad else 0
