"""C04 — Serialising a template back to source preserves its meaning."""

from __future__ import annotations

import itertools
import os
import re
import time

from ..core import Check, classify_exc
from ..g import g_Z, g_list, g_opt, g_str
from . import c12

IMPORTS = "PyPrims Cond CondPrint CondParen StrLit TagTree PathSyntax ExprSyntax"

_ENV = None


def env():
    global _ENV
    if _ENV is None:
        from liquid import DictLoader, Environment

        _ENV = Environment(loader=DictLoader({"p": "[{{ x }}|{{ y }}]", "q": "<{{ q }}>"}))
        _ENV.logical_not_operator = True
        _ENV.logical_parentheses = True
        _ENV.ternary_expressions = True
    return _ENV


DATAS = (
    {},
    {"a": 1, "b": False, "c": "x", "l": [1, 2, 3], "x": "X", "y": "k", "d": {"k": "v", "a b": "sp", "it's": "q"}, "g": "h", "n": 0, "t": True, "f": False, "z": 0},
    {"a": False, "b": True, "c": None, "l": [], "x": [3, 4], "y": 1, "d": {"k": {"j": [5, 6]}}, "g": "", "n": None, "t": True, "f": False, "z": 0},
    {"a": "", "b": "b", "c": 0, "l": ["a", "b"], "x": 0, "y": "a b", "d": {"X": "bx", "k": [7]}, "g": "g h", "t": True, "f": False},
)


def outcome(t, d):
    try:
        return ("out", t.render(**d))
    except Exception as e:  # noqa: BLE001
        return ("err", classify_exc(e))


def roundtrip(src):
    """The property on the implementation: None if it holds for src, else (kind, detail)."""
    try:
        t = env().from_string(src)
    except Exception:  # noqa: BLE001
        return ("orig-rejected", None, None)
    s = str(t)
    try:
        t2 = env().from_string(s)
    except Exception as e:  # noqa: BLE001
        return ("reparse-fails", s, classify_exc(e))
    s2 = str(t2)
    if s2 != s:
        return ("not-idempotent", s, s2)
    for d in DATAS:
        o1, o2 = outcome(t, d), outcome(t2, d)
        if o1 != o2:
            return ("render-differs", s, {"data": d, "original": o1, "reparsed": o2})
    return None


def rt_and_str(src):
    r = roundtrip(src)
    if r and r[0] == "orig-rejected":
        return r, None
    return r, str(env().from_string(src))


def batch(srcs):
    """roundtrip + str() for many sources, on all cores (each worker imports the engine itself)."""
    import concurrent.futures
    import os

    with concurrent.futures.ProcessPoolExecutor(max_workers=min(12, os.cpu_count() or 4)) as ex:
        return list(ex.map(rt_and_str, srcs, chunksize=50))


NIL_RE = re.compile(r"(?<![\w.'\"\[-])(nil|null)(?![\w'\"\]-])")


def report(ck, src, r, layer, counter):
    kind, s, detail = r
    if kind == "orig-rejected":
        ck.count(f"{layer}.rejected-by-parser")
        return
    # the recorded finding: the nil/null literal prints as nothing.  It shows as a syntax error, or (for a trailing argument)
    # as an argument that silently disappears.  It is THIS finding iff the same source with the literal spelled `false` round-trips.
    if NIL_RE.search(src) and roundtrip(NIL_RE.sub("false", src)) is None:
        sig = "nil-literal-serialises-to-nothing"
    else:
        sig = f"{kind}:{src[:100]}"
    if counter[0] < 12 or sig == "nil-literal-serialises-to-nothing":
        counter[0] += 1
        ck.violation("impl-violation", sig, f"{src!r}: str() gives {s!r}; {kind}: {detail!r}",
                     {"type": "roundtrip", "template": src, "str": s, "kind": kind, "detail": detail})


# ------------------------------------------------------------------ layer A: conditions
LIT_BY_SPELLING = {o.literal: o for o in c12.OPERANDS if o.literal is not None}
COND_TOK = re.compile(r"\(\s*-?\d+\s*\.\.\s*-?\d+\s*\)|'[^']*'|\"[^\"]*\"|\(|\)|==|!=|<>|<=|>=|<|>|-?\d+\.\d+|-?\d+|[\w-]+")


def cond_tokens(text, vars_by_name):
    """Tokens of a printed condition, in c12's token vocabulary (None if some token is not in the vocabulary)."""
    out = []
    pos = 0
    text = text.strip()
    while pos < len(text):
        if text[pos].isspace():
            pos += 1
            continue
        m = COND_TOK.match(text, pos)
        if not m:
            return None
        w = m.group(0)
        pos = m.end()
        if w in ("and", "or", "not", "(", ")"):
            out.append(w)
        elif w in c12.COQ_OP or w == "contains":
            out.append(("op", w))
        elif w in LIT_BY_SPELLING:
            out.append(("lit", LIT_BY_SPELLING[w]))
        elif w in vars_by_name:
            out.append(("var", vars_by_name[w]))
        else:
            return None
    return out


def gen_conditions(ck):
    yield from c12.gen_logic(ck)
    rng = ck.rng
    opds = [o for o in c12.OPERANDS if o.name not in ("n",)]  # the nil literal is the recorded known finding (layer D)
    atoms = [("var", c12.Opd("a", True)), ("var", c12.Opd("b", False)), ("lit", c12.OPERANDS[24]), ("lit", c12.OPERANDS[25]), ("var", c12.Opd("c", None))]

    def operand(d):
        if d > 0 and rng.random() < 0.35:
            return ["("] + tree(d - 1) + [")"]
        o = rng.choice(opds)
        return [c12.operand_forms(o)[0]]

    def tree(d):
        r = rng.random()
        if d == 0 or r < 0.2:
            return [rng.choice(atoms)]
        if r < 0.35:
            return ["not"] + tree(d - 1)
        if r < 0.5:
            return ["("] + tree(d - 1) + [")"]
        if r < 0.7:
            return operand(d) + [("op", rng.choice(c12.OPS))] + operand(d)
        return tree(d - 1) + [rng.choice(["and", "or"])] + tree(d - 1)

    for _ in range(500 if ck.quick else 5000):
        yield tree(3 if ck.quick else 4)


SEARCH_VALUES = [True, False, None, 0, 1, "x", "True story", "ab", [1], {"a": 1}]


def search_condition(toks, rng):
    """A condition whose serialisation disagrees with the model: look for data on which the ORIGINAL and the RE-PARSED
    template render differently (operands replaced by variables, values drawn from a small pool)."""
    names, out = [], []
    for t in toks:
        if isinstance(t, tuple) and t[0] in ("lit", "var"):
            names.append(f"v{len(names)}")
            out.append(names[-1])
        else:
            out.append(c12.tok_src(t))
    src = "{% if " + " ".join(out) + " %}1{% else %}2{% endif %}"
    try:
        t1 = env().from_string(src)
        t2 = env().from_string(str(t1))
    except Exception as e:  # noqa: BLE001
        return src, None, ("reparse-fails", classify_exc(e))
    combos = itertools.product(SEARCH_VALUES, repeat=len(names)) if len(names) <= 3 else (
        tuple(rng.choice(SEARCH_VALUES) for _ in names) for _ in range(1500))
    for vals in combos:
        d = dict(zip(names, vals))
        o1, o2 = outcome(t1, d), outcome(t2, d)
        if o1 != o2:
            return src, d, (o1, o2)
    return src, None, None


def search_small_scope():
    """Exhaustive small scope on the implementation: every two-operator condition with explicit grouping over three
    variables, every assignment from a small value pool; returns the first (source, data, outcomes) that breaks the round trip."""
    ops = ["and", "or", "==", "!=", "<", ">=", "contains"]
    shapes = []
    for o1 in ops:
        for o2 in ops:
            shapes.append(f"(v0 {o2} v1) {o1} v2")
            shapes.append(f"v0 {o1} (v1 {o2} v2)")
        shapes += [f"not (v0 {o1} v1)", f"(not v0) {o1} v1", f"v0 {o1} (not v1)", f"not v0 {o1} v1", f"v0 {o1} not v1"]
    pool = [True, False, None, "x", "True story", 1]
    for sh in shapes:
        src = "{% if " + sh + " %}1{% else %}2{% endif %}"
        try:
            t1 = env().from_string(src)
        except Exception:  # noqa: BLE001
            continue
        try:
            t2 = env().from_string(str(t1))
        except Exception as e:  # noqa: BLE001
            return src, {}, ("reparse-fails", classify_exc(e))
        for vals in itertools.product(pool, repeat=3):
            d = dict(zip(("v0", "v1", "v2"), vals))
            o1_, o2_ = outcome(t1, d), outcome(t2, d)
            if o1_ != o2_:
                return src, d, (o1_, o2_)
    return None, None, None


# ------------------------------------------------------------------ layer B: string literals
STR_ALPHABET = ["a", " ", "'", '"', "\\", "\n", "{", "%", "}", "n", "é"]


def gen_strings(ck):
    maxlen = 3 if ck.quick else 4
    for n in range(0, maxlen + 1):
        for cs in itertools.product(STR_ALPHABET, repeat=n):
            s = "".join(cs)
            if "'" in s and '"' in s:
                continue
            if "}}" in s or "%}" in s:  # would close the output statement: not a string literal any more
                continue
            yield s


# ------------------------------------------------------------------ layer E: paths
PATH_NAMES = ["a", "k", "d", "a b", "it's", "X", "", "1x", "a-b", "é", "size", "x", "2024", "007", "-1"]
PATH_TOK = re.compile(r"\[\s*(?P<idx>-?\d+)\s*\]|\[\s*(?P<q>[\"'])(?P<str>.*?)(?P=q)\s*\]|(?P<lb>\[)|(?P<rb>\])|(?P<dot>\.)|(?P<word>[\w-]+\??)", re.S)


def gen_paths(ck):
    rng = ck.rng

    def seg(d):
        r = rng.random()
        if r < 0.6 or d == 0:
            return ("name", rng.choice(PATH_NAMES))
        if r < 0.8:
            return ("idx", rng.choice([0, 1, -1, 10]))
        return ("nested", path(d - 1))

    def path(d):
        return [seg(d) for _ in range(rng.randrange(1, 4))]

    for n1 in PATH_NAMES:                       # every name as root, alone and followed by every name
        yield [("name", n1)]
        for n2 in PATH_NAMES:
            yield [("name", n1), ("name", n2)]
            yield [("nested", [("name", n1)]), ("name", n2)]
    for _ in range(300 if ck.quick else 3000):
        yield path(2)


def path_source(p, rng, first=True):
    out = []
    for i, (k, v) in enumerate(p):
        if k == "name":
            plain = re.fullmatch(r"[a-zA-Z_\u0080-\uffff][\w-]*", v) is not None
            if plain and rng.random() < 0.7:
                out.append(v if (first and i == 0) else "." + v)
            else:
                q = '"' if "'" in v else "'"
                out.append("[" + q + v + q + "]")
        elif k == "idx":
            out.append(f"[{v}]")
        else:
            out.append("[" + path_source(v, rng) + "]")
    return "".join(out)


def g_path(p):
    return g_list(f"SName {g_str(v)}" if k == "name" else f"SIdx {g_Z(v)}" if k == "idx" else f"SNested {g_path(v)}" for k, v in p)


def path_tokens(text):
    out, pos = [], 0
    while pos < len(text):
        m = PATH_TOK.match(text, pos)
        if not m:
            return None
        pos = m.end()
        if m.group("idx") is not None:
            out.append(f"PIdentIdx {g_Z(int(m.group('idx')))}")
        elif m.group("str") is not None:
            out.append(f"PIdentStr {g_str(m.group('str'))}")
        elif m.group("lb"):
            out.append("PLBr")
        elif m.group("rb"):
            out.append("PRBr")
        elif m.group("dot"):
            out.append("PDot")
        else:
            out.append(f"PWord {g_str(m.group('word'))}")
    return out


# ------------------------------------------------------------------ layer C: tag structure
OUT_EXPRS = ["x", "x | upcase", "'lit'", "l[0]", "d.k", "x if a else c", "(1..3) | join: ','", "d['a b']", "x | default: 'd', allow_false:true"]
INLINES = [("assign", "z = x | upcase"), ("echo", "x"), ("cycle", "'a', 'b'"), ("cycle", "g: 1, 2"), ("increment", "n"), ("decrement", "n"),
           ("include", "'p'"), ("include", "'p' with l[0] as x"), ("render", "'p'"), ("render", "'p' for l as x"), ("render", "'p', x:1"),
           ("#", "note"), ("liquid", "assign z = 1\necho z")]
BLOCKS = {"if": ["a", "a and b", "not a", "x == 'X'"], "unless": ["a", "a or b"], "case": ["x", "a"], "for": ["i in l", "i in (1..3) limit:2", "i in l reversed"],
          "tablerow": ["i in l cols:2", "i in l"], "capture": ["z"], "ifchanged": [""]}
TEXTS = ["a", " b ", "x\ny", "1", "-"]
RAWS = ["{{ x }}", "{% if %}", "a{{b", "{%", "{", "a{", "{{", "%}{"]


def gen_trees(ck):
    rng = ck.rng

    def nodes(depth, in_for=False):
        out = []
        for _ in range(rng.randrange(0, 4)):
            r = rng.random()
            if r < 0.2:
                if out and out[-1][0] == "text":
                    continue
                out.append(("text", rng.choice(TEXTS)))
            elif r < 0.27:
                out.append(("raw", rng.choice(RAWS)))
            elif r < 0.32:
                out.append(("comment", rng.choice(["c", "hidden {{ x }}", " "])))
            elif r < 0.5:
                out.append(("out", rng.choice(OUT_EXPRS)))
            elif r < 0.7 or depth == 0:
                name, e = rng.choice(INLINES + ([("break", ""), ("continue", "")] if in_for else []))
                out.append(("inline", name, e))
            else:
                out.append(block(depth - 1, in_for))
        return out

    def block(depth, in_for):
        name = rng.choice(list(BLOCKS))
        e = rng.choice(BLOCKS[name])
        inner_for = in_for or name in ("for", "tablerow")
        secs = []
        if name in ("if", "unless"):
            for _ in range(rng.randrange(0, 3)):
                secs.append(("elsif", rng.choice(BLOCKS["if"]), nodes(depth, in_for)))
            if rng.random() < 0.5:
                secs.append(("else", "", nodes(depth, in_for)))
            body = nodes(depth, in_for)
        elif name == "case":
            # when and else sections in ANY order (an else may come before a later when, and there may be several)
            for _ in range(rng.randrange(0, 4)):
                if rng.random() < 0.3:
                    secs.append(("else", "", nodes(depth, in_for)))
                else:
                    secs.append(("when", rng.choice(["1", "2, 3", "'X'", "y"]), nodes(depth, in_for)))
            body = []
        elif name == "for":
            body = nodes(depth, True)
            if rng.random() < 0.4:
                secs.append(("else", "", nodes(depth, in_for)))
        else:
            body = nodes(depth, inner_for)
        return ("block", name, e, body, secs)

    # systematic: every block tag, every inline tag, each alone and nested once
    for name, es in BLOCKS.items():
        for e in es:
            yield [("block", name, e, [] if name == "case" else [("out", "x")], [])]
    for order in itertools.product(["when1", "when2", "else"], repeat=3):
        secs = [("else", "", [("text", f"e{i}")]) if o == "else" else ("when", "'X'" if o == "when1" else "1, 'k'", [("text", f"w{i}")]) for i, o in enumerate(order)]
        yield [("block", "case", "x", [], secs)]
        yield [("block", "case", "y", [], secs)]
    for name, e in INLINES:
        yield [("inline", name, e)]
        yield [("block", "if", "a", [("inline", name, e)], [("else", "", [("text", "a"), ("inline", name, e)])])]
    for _ in range(500 if ck.quick else 5000):
        t = nodes(2 if ck.quick else 3)
        if t:
            yield t


def tree_source(ns):
    out = []
    for n in ns:
        k = n[0]
        if k == "text":
            out.append(n[1])
        elif k == "raw":
            out.append("{% raw %}" + n[1] + "{% endraw %}")
        elif k == "comment":
            out.append("{% comment %}" + n[1] + "{% endcomment %}")
        elif k == "out":
            out.append("{{ " + n[1] + " }}")
        elif k == "inline":
            out.append("{% " + n[1] + (" " + n[2] if n[2] else "") + " %}")
        else:
            _, name, e, body, secs = n
            out.append("{% " + name + (" " + e if e else "") + " %}" + tree_source(body))
            for sn, se, sb in secs:
                out.append("{% " + sn + (" " + se if se else "") + " %}" + tree_source(sb))
            out.append("{% end" + name + " %}")
    return "".join(out)


def g_nodes(ns):
    out = []
    for n in ns:
        k = n[0]
        if k == "text":
            out.append(f"NText {g_str(n[1])}")
        elif k == "raw":
            out.append(f"NRaw {g_str(n[1])}")
        elif k == "comment":
            out.append(f"NComment {g_str(n[1])}")
        elif k == "out":
            out.append(f"NOut {g_str(n[1])}")
        elif k == "inline":
            out.append(f"NInline {g_str(n[1])} {g_str(n[2])}")
        else:
            _, name, e, body, secs = n
            gs = g_list(f"({g_str(sn)}, {g_str(se)}, {g_nodes(sb)})" for sn, se, sb in secs)
            out.append(f"NBlock {g_str(name)} {g_str(e)} {g_nodes(body)} {gs}")
    return g_list(out)


TPL_TOK = re.compile(
    r"\{% raw %\}(?P<raw>.*?)\{% endraw %\}|\{% comment %\}(?P<comment>.*?)\{% endcomment %\}|\{\{ (?P<out>.*?) \}\}"
    r"|\{% (?P<name>#|\w+)(?P<expr>.*?) %\}",
    re.S,
)


def tpl_tokens(text):
    """Tag-level tokens of a serialised template (the serialiser's output is regular: single spaces, no markers)."""
    toks, pos = [], 0
    for m in TPL_TOK.finditer(text):
        if m.start() > pos:
            toks.append(("KText", text[pos:m.start()]))
        pos = m.end()
        if m.group("raw") is not None:
            toks.append(("KRaw", m.group("raw")))
        elif m.group("comment") is not None:
            toks.append(("KComment", m.group("comment")))
        elif m.group("out") is not None:
            toks.append(("KOut", m.group("out")))
        else:
            toks.append(("KTag", m.group("name"), m.group("expr")[1:] if m.group("expr").startswith(" ") else m.group("expr")))
    if pos < len(text):
        toks.append(("KText", text[pos:]))
    # CaseNode.__str__ puts a newline after the case tag (text there is dropped by the parser): not part of the structure
    out = []
    for i, t in enumerate(toks):
        if t == ("KText", "\n") and i > 0 and toks[i - 1][0] == "KTag" and toks[i - 1][1] == "case":
            continue
        out.append(t)
    return out


def g_ttoks(toks):
    return g_list(f"{t[0]} {g_str(t[1])}" if len(t) == 2 else f"KTag {g_str(t[1])} {g_str(t[2])}" for t in toks)


# ------------------------------------------------------------------ layer D: rich random templates (oracle only)
def gen_rich(ck):
    rng = ck.rng
    names = ["a", "b", "c", "x", "y", "l", "d", "g", "n"]
    strs = ["a", "it's", 'say "hi"', "a\\b", "x\ny", "", " ", "a b", "%", "1"]

    def q(s):
        return '"' + s + '"' if "'" in s else "'" + s + "'"

    def path(depth=2):
        r = rng.random()
        root = rng.choice(names)
        if r < 0.1:
            root = "[" + rng.choice(["x", "y", q("a b"), q("x")]) + "]"
        segs = []
        for _ in range(rng.randrange(0, 3)):
            k = rng.random()
            if k < 0.35:
                segs.append("." + rng.choice(["k", "first", "size", "j", "a-b", "X"]))
            elif k < 0.55:
                segs.append(f"[{rng.choice([0, 1, -1])}]")
            elif k < 0.8:
                segs.append("[" + q(rng.choice(["k", "a b", "it's", "X", ""])) + "]")
            elif depth > 0:
                segs.append("[" + path(depth - 1) + "]")
        return root + "".join(segs)

    def prim():
        r = rng.random()
        if r < 0.4:
            return path()
        if r < 0.6:
            return q(rng.choice(strs))
        if r < 0.75:
            return str(rng.choice([0, 1, -3, 42, 1.5, -0.5, 1.0]))
        if r < 0.85:
            return rng.choice(["true", "false", "nil" if rng.random() < 0.15 else "true"])
        return f"({rng.choice([1, 'a', 'n'])}..{rng.choice([3, 'y', 5])})"

    def filt():
        return rng.choice(["upcase", "size", "append: " + prim(), "default: " + prim() + ", allow_false: true", "slice: 1, 2", "join: ', '",
                           "replace: 'a', " + prim(), "first", "plus: " + prim(), "where: 'k', " + prim()])

    def filtered():
        e = prim()
        for _ in range(rng.randrange(0, 3)):
            e += " | " + filt()
        return e

    def cond(d=2):
        r = rng.random()
        if d == 0 or r < 0.3:
            return prim() if rng.random() < 0.5 else prim() + " " + rng.choice(["==", "!=", "<", ">=", "contains", "<>"]) + " " + prim()
        if r < 0.45:
            return "not " + cond(d - 1)
        if r < 0.6:
            return "(" + cond(d - 1) + ")"
        if r < 0.7:
            return prim() + " == " + rng.choice(["empty", "blank", "(" + cond(d - 1) + ")"])
        return cond(d - 1) + rng.choice([" and ", " or "]) + cond(d - 1)

    def output():
        e = filtered()
        r = rng.random()
        if r < 0.2:
            e += " if " + cond(1)
            if rng.random() < 0.6:
                e += " else " + filtered()
            if rng.random() < 0.3:
                e += " || " + filt()
        return e

    def ws():
        return rng.choice(["", "", "", "-"])

    def tag(body):
        return "{%" + ws() + " " + body + " " + ws() + "%}"

    def node(d, in_for):
        r = rng.random()
        if r < 0.15:
            return rng.choice(["a", " b ", "\n", "text {", "} %", "-"])
        if r < 0.35:
            return "{{" + ws() + " " + output() + " " + ws() + "}}"
        if r < 0.42:
            return tag("assign z = " + filtered())
        if r < 0.46:
            return tag("echo " + output())
        if r < 0.50:
            return tag("cycle " + rng.choice(["", q("g") + ": ", "g: ", q("a b") + ": "]) + ", ".join(prim() for _ in range(rng.randrange(1, 4))))
        if r < 0.53:
            return tag(rng.choice(["increment", "decrement"]) + " n")
        if r < 0.58:
            return tag("include " + rng.choice(["'p'", "'p' with " + path() + " as x", "'p' for l as y", "'p', x: " + prim() + ", y: " + prim(), "'q' with " + path()]))
        if r < 0.63:
            return tag("render " + rng.choice(["'p'", "'p' with " + path() + " as x", "'p' for l as y", "'p', x: " + prim(), "'q' for l"]))
        if r < 0.66:
            return rng.choice(["{% raw %}{{ x }} {% if %}{% endraw %}", "{% comment %}c {{ x }}{% endcomment %}", "{% # note %}", "{% doc %}d{% enddoc %}",
                               "{% liquid assign z = " + prim() + "\n echo z | upcase\n if " + cond(1) + "\n echo 'y'\n endif %}"])
        if d == 0:
            return "{{ " + path() + " }}"
        if r < 0.76:
            s = tag("if " + cond()) + nodes(d - 1, in_for)
            for _ in range(rng.randrange(0, 2)):
                s += tag("elsif " + cond(1)) + nodes(d - 1, in_for)
            if rng.random() < 0.5:
                s += tag("else") + nodes(d - 1, in_for)
            return s + tag("endif")
        if r < 0.8:
            return tag("unless " + cond(1)) + nodes(d - 1, in_for) + (tag("else") + nodes(d - 1, in_for) if rng.random() < 0.4 else "") + tag("endunless")
        if r < 0.86:
            s = tag("case " + prim())
            for _ in range(rng.randrange(1, 4)):
                if rng.random() < 0.25:
                    s += tag("else") + nodes(d - 1, in_for)
                else:
                    s += tag("when " + rng.choice([", ", " or "]).join(prim() for _ in range(rng.randrange(1, 3)))) + nodes(d - 1, in_for)
            return s + tag("endcase")
        if r < 0.93:
            args = "".join(rng.choice(["", " limit:" + rng.choice(["2", "n", "y"]), " offset:" + rng.choice(["1", "continue", "n"]), " reversed"]) for _ in range(2))
            s = tag("for i in " + rng.choice(["l", "(1..3)", "d", path(), "(1..y)"]) + args) + nodes(d - 1, True)
            if rng.random() < 0.3:
                s += tag("else") + nodes(d - 1, in_for)
            return s + tag("endfor")
        if r < 0.96:
            return tag("tablerow i in " + rng.choice(["l", "(1..3)"]) + rng.choice(["", " cols:2", " cols:2 limit:1", " offset:1"])) + nodes(d - 1, True) + tag("endtablerow")
        if r < 0.98:
            return tag("capture z") + nodes(d - 1, in_for) + tag("endcapture")
        return tag("ifchanged") + nodes(d - 1, in_for) + tag("endifchanged")

    def nodes(d, in_for):
        return "".join(node(d, in_for) for _ in range(rng.randrange(1, 4)))

    for _ in range(1500 if ck.quick else 15000):
        yield nodes(2 if ck.quick else 3, False)

# ------------------------------------------------------------------ layer F: expressions inside tags and output statements
# A SOURCE expression is a list of tokens (what the expression lexer yields for the generated text); the model parses it and
# prints it (ExprSyntax.run_xprint); the implementation's str() of the same source is tokenised by [expr_tokens] below.
KEYWORDS = {"true", "false", "nil", "null", "empty", "blank", "and", "or", "contains", "not", "in", "offset", "limit", "reversed", "cols",
            "continue", "with", "for", "as", "if", "else", "required"}
KW_TOK = {"true": "ETrue", "false": "EFalse", "nil": "ENil", "null": "ENil", "empty": "EEmpty", "blank": "EBlank", "and": "EOtherKw", "or": "EOr",
          "contains": "EOtherKw", "not": "EOtherKw", "in": "EIn", "offset": "EOffset", "limit": "ELimit", "reversed": "EReversed", "cols": "ECols",
          "continue": "EContinue", "with": "EWith", "for": "EFor", "as": "EAs", "if": "EIf", "else": "EElse", "required": "EOtherKw"}
PUNCT = {"dot": ("EDot", "."), "lb": ("ELBr", "["), "rb": ("ERBr", "]"), "rangel": ("ERangeL", "("), "range": ("ERange", ".."), "rp": ("ERParen", ")"),
         "lp": ("ELParen", "("), "colon": ("EColon", ":"), "comma": ("EComma", ","), "pipe": ("EPipe", "|"), "dpipe": ("EDPipe", "||"), "assign": ("EAssign", "=")}
BARE_WORD = re.compile(r"(?:[^\W\d]|\d+[A-Za-z_])[\w-]*\??")      # texts the lexer reads as ONE word (keywords apart)
PLAIN_NAME = re.compile(r"[^\W\d][\w-]*")                           # what path.is_property accepts (keywords apart)


def float_canon(text):
    """The float literal as str() must write it: the shortest representation of the value, without an exponent."""
    import decimal

    s = repr(float(text))
    if "e" in s or "E" in s:
        s = format(decimal.Decimal(s), "f")
        if "." not in s:
            s += ".0"
    return s


def g_etok(t):
    k = t[0]
    if k == "word":
        return f"EWord {g_str(t[1])}"
    if k == "kw":
        return KW_TOK[t[1]]
    if k == "istr":
        return f"EIdentStr {g_str(t[1])}"
    if k == "iidx":
        return f"EIdentIdx {g_Z(t[1])}"
    if k == "int":
        return f"EInt {g_Z(t[1])}"
    if k == "float":
        return f"EFloat {g_str(float_canon(t[1]))}"
    if k == "str":
        return f"EStr {g_str(t[1])}"
    if k == "cond":
        return f"ECond ({c12.g_tok(t[1])})"
    return PUNCT[k][0]


def q_str(s):
    return '"' + s + '"' if "'" in s else "'" + s + "'"


def etok_text(t):
    k = t[0]
    if k in ("word", "kw", "float"):
        return t[1]
    if k == "istr":
        return "[" + q_str(t[1]) + "]"
    if k == "iidx":
        return f"[{t[1]}]"
    if k == "int":
        return str(t[1])
    if k == "str":
        return q_str(t[1])
    if k == "cond":
        return c12.tok_src(t[1])
    return PUNCT[k][1]


def etoks_text(toks, rng):
    """Source text of a token list: path-internal tokens are glued, elsewhere one space (sometimes none around punctuation)."""
    out = []
    for i, t in enumerate(toks):
        k = t[0]
        prev = toks[i - 1][0] if i else None
        glue = (k in ("dot", "iidx", "istr", "lb") and prev in ("word", "istr", "iidx", "rb")) or prev in ("dot", "lb", "rangel") or k in ("rb",) \
            or (k in ("range", "rp") or prev == "range") or (k in ("colon", "comma") and rng.random() < 0.7) or (prev == "colon" and rng.random() < 0.4)
        if i and not glue:
            out.append(" ")
        out.append(etok_text(t))
    return "".join(out)


EXPR_TOK = re.compile(
    r"\[\s*(?P<iidx>-?\d+)\s*\]|\[\s*(?P<iq>[\"'])(?P<istr>.*?)(?P=iq)\s*\]|(?P<sq>[\"'])(?P<str>.*?)(?P=sq)|(?P<rangel>\((?=[^(]+?\.\.))|(?P<range>\.\.)"
    r"|(?P<float>-?\d+\.(?!\.)\d*)|(?P<int>-?\d+\b)|(?P<dot>\.)|(?P<word>\w[\w\-]*\??)|(?P<lp>\()|(?P<rp>\))|(?P<lb>\[)|(?P<rb>\])|(?P<colon>:)|(?P<comma>,)"
    r"|(?P<dpipe>\|\|)|(?P<pipe>\|)|(?P<op>==|!=|<>|<=|>=|<|>)|(?P<assign>=)|(?P<ws>[ \n\t\r]+)", re.S)


def expr_tokens(text, vars_by_name):
    """Tokens (Gallina) of a SERIALISED expression; the condition of a ternary (from `if` to `else`, `||` or the end) goes through
    the condition tokeniser of layer A.  None if the text is outside the vocabulary."""
    toks, pos = [], 0
    while pos < len(text):
        m = EXPR_TOK.match(text, pos)
        if not m:
            return None
        pos = m.end()
        k = m.lastgroup
        if k == "ws":
            continue
        if k == "iq":
            k = "istr"
        if k == "sq":
            k = "str"
        toks.append((k, m.group(k), m.start(), m.end()))
    out, i = [], 0
    while i < len(toks):
        k, v, _a, b = toks[i]
        if k == "word" and v == "if":
            j = i + 1
            while j < len(toks) and not (toks[j][0] == "dpipe" or (toks[j][0] == "word" and toks[j][1] == "else")):
                j += 1
            ctoks = cond_tokens(text[b:toks[j][2] if j < len(toks) else len(text)], vars_by_name)
            if ctoks is None:
                return None
            out.append("EIf")
            out += [f"ECond ({c12.g_tok(t)})" for t in ctoks]
            i = j
            continue
        if k == "word":
            out.append(KW_TOK[v] if v in KEYWORDS else f"EWord {g_str(v)}")
        elif k in ("istr", "str"):
            out.append(("EIdentStr " if k == "istr" else "EStr ") + g_str(v))
        elif k in ("iidx", "int"):
            out.append(("EIdentIdx " if k == "iidx" else "EInt ") + g_Z(int(v)))
        elif k == "float":
            out.append(f"EFloat {g_str(v)}")
        elif k == "op":
            return None                      # a comparison operator outside a ternary's condition
        else:
            out.append(PUNCT[k][0])
        i += 1
    return out


# ---- generated trees (normal form = what the parser builds) and their Gallina
def g_prim(p):
    k = p[0]
    if k == "int":
        return f"PInt {g_Z(p[1])}"
    if k == "float":
        return f"PFloat {g_str(float_canon(p[1]))}"
    if k == "str":
        return f"PStr {g_str(p[1])}"
    if k == "path":
        return f"PPath {g_path(p[1])}"
    if k == "range":
        return f"PRange ({g_prim(p[1])}) ({g_prim(p[2])})"
    return {"true": "PTrue", "false": "PFalse", "nil": "PNil", "empty": "PEmpty", "blank": "PBlank"}[k]


def g_filter(f):
    args = g_list(f"APos ({g_prim(a[1])})" if a[0] == "pos" else f"AKw {g_str(a[1])} ({g_prim(a[2])})" for a in f[1])
    return "{| f_name := " + g_str(f[0]) + "; f_args := " + args + " |}"


def g_fexpr(left, fs):
    return "{| fe_left := " + g_prim(left) + "; fe_filters := " + g_list(g_filter(f) for f in fs) + " |}"


def g_cond(toks):
    """The condition tree as the model's own parser builds it from the tokens (the tree is not generated separately)."""
    return "match Cond.parse flags_on " + g_list(c12.g_tok(t) for t in toks) + " with Ok e => e | _ => BLit VNil end"


def g_expr(e):
    if e[0] == "filt":
        return f"XFilt {g_fexpr(e[1], e[2])}"
    _, left, fs, cond, alt, tail = e
    galt = "None" if alt is None else f"(Some ({g_prim(alt[0])}, {g_list(g_filter(f) for f in alt[1])}))"
    return f"XTern {g_fexpr(left, fs)} ({g_cond(cond)}) {galt} {g_list(g_filter(f) for f in tail)}"


def g_kwargs(l):
    return g_list(f"({g_str(k)}, {g_prim(v)})" for k, v in l)


def g_payload(y):
    k = y[0]
    if k == "expr":
        return f"YExpr ({g_expr(y[1])})"
    if k == "assign":
        return f"YAssign {g_str(y[1])} ({g_expr(y[2])})"
    if k == "loop":
        _, ident, it, lim, off, cols, rev = y
        return ("YLoop {| lp_id := " + g_str(ident) + "; lp_iter := " + g_prim(it) + "; lp_limit := " + g_opt(lim, lambda p: "(" + g_prim(p) + ")")
                + "; lp_offset := " + g_opt(off, lambda p: "(" + g_prim(p) + ")") + "; lp_cols := " + g_opt(cols, lambda p: "(" + g_prim(p) + ")")
                + "; lp_rev := " + ("true" if rev else "false") + " |}")
    if k == "case":
        return f"YCase ({g_prim(y[1])})"
    if k == "when":
        return f"YWhen {g_list(g_prim(p) for p in y[1])}"
    if k == "cycle":
        return f"YCycle {g_opt(y[1], lambda p: '(' + g_prim(p) + ')')} {g_list(g_prim(p) for p in y[2])}"
    if k == "include":
        _, name, bind, args = y
        gb = "None" if bind is None else f"(Some ({g_path(bind[1])}, {g_opt(bind[2], g_str)}))"
        return "YInclude {| in_name := " + g_prim(name) + "; in_bind := " + gb + "; in_args := " + g_kwargs(args) + " |}"
    if k == "render":
        _, name, bind, args = y
        gn = f"RStr {g_str(name[1])}" if name[0] == "str" else f"RIdent {g_str(name[1])}"
        gb = "None" if bind is None else f"(Some ({'true' if bind[0] else 'false'}, {g_path(bind[1])}, {g_opt(bind[2], g_str)}))"
        return "YRender {| rd_name := " + gn + "; rd_bind := " + gb + "; rd_args := " + g_kwargs(args) + " |}"
    return f"YIdent {g_str(y[1])}"


KIND = {"expr": "KExpr", "assign": "KAssign", "loop": "KLoop", "case": "KCase", "when": "KWhen", "cycle": "KCycle", "include": "KInclude",
        "render": "KRender", "ident": "KIdent", "capture": "KCapture"}
SEG_NAMES = ["a", "k", "d", "x", "l", "y", "a b", "it's", "X", "", "1x", "a-b", "é", "size", "first", "if", "empty", "limit", "a?", "contains", "for"]
WORDS = ["x", "y", "l", "d", "a", "n", "g", "k", "v1", "a-b", "é", "1x", "b?"]
STRS = ["a", "it's", 'say "hi"', "a\\b", "", " ", "a b", "1", "continue", ", ", "if x else y", "| f"]
FLOATS = ["1.5", "-0.5", "1.0", "0.00001", "100000000000000000000.0", "2.", "12.125"]
FILTER_NAMES = ["upcase", "size", "append", "default", "slice", "join", "replace", "first", "plus", "where", "f", "a-b", "1x", "f?"]
KW_NAMES = ["allow_false", "k", "j", "x", "y", "a-b", "1x"]


def gen_expr_cases(ck, n=None, damage=True):
    """(kind, tree or None, source tokens, wrapper).  The tree is None where the source was mutated (it may not parse)."""
    rng = ck.rng
    cond_atoms = [("var", c12.Opd("a", True)), ("var", c12.Opd("b", False)), ("var", c12.Opd("c", None))] + \
                 [("lit", o) for o in c12.OPERANDS if o.literal is not None and o.name not in ("n",)]

    def seg(d):
        r = rng.random()
        if r < 0.6 or d == 0:
            return ("name", rng.choice(SEG_NAMES))
        if r < 0.8:
            return ("idx", rng.choice([0, 1, -1, 10]))
        return ("nested", path(d - 1))

    def path(d):
        segs = [seg(d) for _ in range(rng.randrange(1, 4))]
        if segs[0][0] == "idx":
            segs[0] = ("name", rng.choice(SEG_NAMES))
        return segs

    def path_toks(p, first=True):
        out = []
        for i, (k, v) in enumerate(p):
            if k == "name":
                if BARE_WORD.fullmatch(v) and v not in KEYWORDS and rng.random() < 0.75:
                    out += ([] if first and i == 0 else [("dot",)]) + [("word", v)]
                else:
                    out.append(("istr", v))
            elif k == "idx":
                out.append(("iidx", v))
            else:
                out += [("lb",)] + path_toks(v) + [("rb",)]
        return out

    def prim(d=2, nil=False):
        r = rng.random()
        if r < 0.45:
            return ("path", path(d))
        if r < 0.6:
            return ("str", rng.choice(STRS))
        if r < 0.7:
            return ("int", rng.choice([0, 1, -3, 42, 10**20]))
        if r < 0.78:
            return ("float", rng.choice(FLOATS))
        if r < 0.9:
            return (rng.choice(["true", "false", "empty", "blank", "nil" if nil and rng.random() < 0.3 else "true"]),)
        if d == 0:
            return ("int", 3)
        a, b = prim(0), prim(d - 1)
        a, b = (("float", "1.5") if x[0] == "float" else x for x in (a, b))
        return ("range", a if a[0] in ("int", "path", "float") else ("int", 1), b)

    def prim_toks(p):
        k = p[0]
        if k == "path":
            return path_toks(p[1])
        if k == "range":
            return [("rangel",)] + prim_toks(p[1]) + [("range",)] + prim_toks(p[2]) + [("rp",)]
        if k in ("int", "float", "str"):
            return [p]
        return [("kw", rng.choice(["nil", "null"]) if k == "nil" else k)]

    def filt():
        args = []
        for _ in range(rng.choice([0, 0, 1, 1, 2, 3])):
            if rng.random() < 0.3:
                args.append(("kw", rng.choice(KW_NAMES), prim(1)))
            else:
                p = prim(1)
                args.append(("pos", ("int", 7) if p[0] in ("empty", "blank") else p))
        return (rng.choice(FILTER_NAMES), args)

    def filt_toks(f):
        out = [("word", f[0])]
        if f[1] or rng.random() < 0.1:
            out.append(("colon",))
            if rng.random() < 0.1:
                out.append(("comma",))
            for i, a in enumerate(f[1]):
                if i:
                    out.append(("comma",))
                out += prim_toks(a[1]) if a[0] == "pos" else [("word", a[1]), ("colon",)] + prim_toks(a[2])
            if f[1] and rng.random() < 0.1:
                out.append(("comma",))
        return out

    def filters(n):
        return [filt() for _ in range(rng.randrange(0, n))]

    def pipes_toks(fs, seps=("pipe",)):
        out = []
        for f in fs:
            out += [(rng.choice(seps),)] + filt_toks(f)
        return out

    def cond(d):
        r = rng.random()
        if d == 0 or r < 0.3:
            return [rng.choice(cond_atoms)]
        if r < 0.45:
            return ["not"] + cond(d - 1)
        if r < 0.55:
            return ["("] + cond(d - 1) + [")"]
        if r < 0.75:
            return [rng.choice(cond_atoms), ("op", rng.choice(c12.OPS)), rng.choice(cond_atoms)]
        return cond(d - 1) + [rng.choice(["and", "or"])] + cond(d - 1)

    def expr():
        left, fs = prim(), filters(3)
        if rng.random() < 0.6:
            return ("filt", left, fs)
        alt = (prim(), filters(3)) if rng.random() < 0.6 else None
        return ("tern", left, fs, cond(2), alt, filters(3) if rng.random() < 0.4 else [])

    def expr_toks(e):
        out = prim_toks(e[1]) + pipes_toks(e[2])
        if e[0] == "tern":
            _, _l, _f, c, alt, tail = e
            out += [("kw", "if")] + [("cond", t) for t in c]
            if alt is not None:
                out += [("kw", "else")] + prim_toks(alt[0]) + pipes_toks(alt[1])
            if tail:
                out += [("dpipe",)] + filt_toks(tail[0]) + pipes_toks(tail[1:], ("pipe", "pipe", "dpipe"))
        return out

    def ident_toks(s):
        return [("word", s)] if BARE_WORD.fullmatch(s) and s not in KEYWORDS and rng.random() < 0.8 else [("istr", s)]

    def kwargs():
        return [(rng.choice(KW_NAMES), prim(1)) for _ in range(rng.choice([0, 0, 1, 2]))]

    def kwargs_toks(l, lead):
        out = []
        for i, (k, v) in enumerate(l):
            if i or lead:
                out.append(("comma",))
            out += [("word", k), ("colon",)] + prim_toks(v)
        return out

    def bind_toks(bind, kw):
        if bind is None:
            return []
        return [("kw", kw)] + path_toks(bind[1]) + ([("kw", "as"), ("word", bind[2])] if bind[2] is not None else [])

    def one():
        r = rng.random()
        if r < 0.4:
            e = expr()
            return "expr", ("expr", e), expr_toks(e), rng.choice(["out", "echo"])
        if r < 0.48:
            n, e = rng.choice(["z", "a-b", "1x", "a b", "if", "", "é"]), expr()
            return "assign", ("assign", n, e), ident_toks(n) + [("assign",)] + expr_toks(e), "assign"
        if r < 0.63:
            ident, it = rng.choice(["i", "i", "x", "a b", "1x", "a?", "if", "é"]), prim(1)
            if it[0] in ("empty", "blank"):
                it = ("path", [("name", "l")])
            lim = prim(0) if rng.random() < 0.4 else None
            off = (("str", "continue") if rng.random() < 0.4 else prim(0)) if rng.random() < 0.4 else None
            cols = prim(0) if rng.random() < 0.3 else None
            rev = rng.random() < 0.3
            parts = []
            if lim is not None:
                parts.append([("kw", "limit"), ("colon",)] + prim_toks(lim))
            if off is not None:
                parts.append([("kw", "offset"), ("colon",)] + ([("kw", "continue")] if off == ("str", "continue") and rng.random() < 0.7 else prim_toks(off)))
            if cols is not None:
                parts.append([("kw", "cols"), ("colon",)] + prim_toks(cols))
            if rev:
                parts.append([("kw", "reversed")])
            rng.shuffle(parts)
            toks = ident_toks(ident) + [("kw", "in")] + prim_toks(it)
            for part in parts:
                toks += ([("comma",)] if rng.random() < 0.2 else []) + part
            return "loop", ("loop", ident, it, lim, off, cols, rev), toks, rng.choice(["for", "tablerow"])
        if r < 0.68:
            p = prim()
            return "case", ("case", p), prim_toks(p), "case"
        if r < 0.76:
            l = [prim(1, nil=True) for _ in range(rng.randrange(1, 4))]
            toks = prim_toks(l[0])
            for p in l[1:]:
                toks += [rng.choice([("comma",), ("kw", "or")])] + prim_toks(p)
            return "when", ("when", l), toks, "when"
        if r < 0.84:
            g = None
            if rng.random() < 0.5:
                g = rng.choice([("str", "g"), ("str", "a b"), ("path", [("name", "g")]), ("path", [("name", "1x")]), ("int", 1), ("float", "1.5"), ("true",), ("empty",)])
            args = [prim(1) for _ in range(rng.randrange(1, 4))]
            toks = (prim_toks(g) + [("colon",)] if g is not None else [])
            for i, a in enumerate(args):
                toks += ([("comma",)] if i and (rng.random() < 0.8 or a[0] not in ("int", "float", "str", "true", "false")) else []) + prim_toks(a)
            return "cycle", ("cycle", g, args), toks, "cycle"
        if r < 0.92:
            name = rng.choice([("str", "p"), ("str", "q"), ("path", [("name", "y")]), ("path", [("name", "d"), ("name", "k")])])
            bind = (rng.random() < 0.5, path(1), rng.choice([None, "x", "y", "1x", "a?"])) if rng.random() < 0.6 else None
            args = kwargs()
            toks = prim_toks(name) + bind_toks(bind, "for" if bind and bind[0] else "with") + kwargs_toks(args, rng.random() < 0.5)
            return "include", ("include", name, bind, args), toks, "include"
        if r < 0.97:
            name = rng.choice([("str", "p"), ("str", "q"), ("ident", "p"), ("ident", "a b"), ("ident", "1x")])
            bind = (rng.random() < 0.5, path(1), rng.choice([None, "x", "y", "1x"])) if rng.random() < 0.6 else None
            args = kwargs()
            toks = ([name] if name[0] == "str" else ident_toks(name[1])) + bind_toks(bind, "for" if bind and bind[0] else "with") + kwargs_toks(args, rng.random() < 0.5)
            return "render", ("render", name, bind, args), toks, "render"
        n = rng.choice(["n", "a b", "1x", "if", "a-b", "a?", "é"])
        w = rng.choice(["increment", "decrement", "capture"])
        return ("capture" if w == "capture" else "ident"), ("ident", n), ident_toks(n), w

    for _ in range(n if n is not None else 800 if ck.quick else 8000):
        kind, tree, toks, wrap = one()
        if damage and rng.random() < 0.12 and len(toks) > 1:           # a damaged source: the parsers must agree on accepting it or not
            # (not the `if` of a ternary nor its condition: condition tokens are in the condition model's vocabulary and must stay behind an `if`)
            i = rng.choice([j for j, t in enumerate(toks) if t[0] != "cond" and t != ("kw", "if")])
            toks = toks[:i] + rng.choice([[], [("comma",)], [toks[i], ("comma",)], [("colon",)], [toks[i], toks[i]]]) + toks[i + 1:]
            tree = None
        yield kind, tree, toks, wrap


def has_nil(tree):
    return isinstance(tree, (tuple, list)) and (tree == ("nil",) or any(has_nil(x) for x in tree))


# wrapper -> (source format, pattern of the serialised form with the expression as group 1)
WRAPS = {
    "out": ("{{ %s }}", r"\{\{ (.*) \}\}"), "echo": ("{%% echo %s %%}", r"\{% echo (.*) %\}"), "assign": ("{%% assign %s %%}", r"\{% assign (.*) %\}"),
    "for": ("{%% for %s %%}{{ i }}{%% endfor %%}", r"\{% for (.*) %\}\{\{ i \}\}\{% endfor %\}"),
    "tablerow": ("{%% tablerow %s %%}{{ i }}{%% endtablerow %%}", r"\{% tablerow (.*) %\}\{\{ i \}\}\{% endtablerow %\}"),
    "case": ("{%% case %s %%}{%% when 1 %%}a{%% endcase %%}", r"\{% case (.*) %\}\n\{% when 1 %\}a\{% endcase %\}"),
    "when": ("{%% case x %%}{%% when %s %%}a{%% endcase %%}", r"\{% case x %\}\n\{% when (.*) %\}a\{% endcase %\}"),
    "cycle": ("{%% cycle %s %%}", r"\{% cycle (.*) %\}"), "include": ("{%% include %s %%}", r"\{% include (.*) %\}"),
    "render": ("{%% render %s %%}", r"\{% render (.*) %\}"), "increment": ("{%% increment %s %%}", r"\{% increment (.*) %\}"),
    "decrement": ("{%% decrement %s %%}", r"\{% decrement (.*) %\}"), "capture": ("{%% capture %s %%}x{%% endcapture %%}", r"\{% capture (.*) %\}x\{% endcapture %\}"),
}


# ------------------------------------------------------------------ layer G: whole templates with structured payloads
# A template is a tree of ("text", s) | ("raw", s) | ("comment", s) | ("out", toks) | ("tag", name, pay) | ("block", name, pay, body, secs)
# where pay is ("toks", source tokens) | ("cond", condition tokens) | ("none",) | ("opaque", text).  The model (TemplateFull.v) gets the
# tag-level tokens of the SOURCE (expression text as written) and, as its expression lexer, the table text -> tokens.
COND_TAGS = ("if", "elsif", "unless")
OPAQUE_TAGS = ("liquid", "#")
G_COND_VARS = {n: c12.Opd(n, v) for n, v in (("ca", True), ("cb", False), ("cc", None))}


def gen_full(ck):
    rng = ck.rng
    pools = {}
    for _kind, tree, toks, w in gen_expr_cases(ck, n=500 if ck.quick else 4000, damage=False):
        if not has_nil(tree):                       # the nil literal is the recorded finding: layers D and F exercise it
            pools.setdefault(w, []).append(toks)
    atoms = [("var", o) for o in G_COND_VARS.values()] + [("lit", o) for o in c12.OPERANDS if o.literal is not None and o.name not in ("n",)]

    def cond(d):
        r = rng.random()
        if d == 0 or r < 0.25:
            return [rng.choice(atoms)]
        if r < 0.4:
            return ["not"] + cond(d - 1)
        if r < 0.5:
            return ["("] + cond(d - 1) + [")"]
        if r < 0.7:
            return [rng.choice(atoms), ("op", rng.choice(c12.OPS)), rng.choice(atoms)]
        return cond(d - 1) + [rng.choice(["and", "or"])] + cond(d - 1)

    def pay(w):
        return ("toks", rng.choice(pools[w]))

    def inline(in_for):
        name = rng.choice(["assign", "echo", "cycle", "increment", "decrement", "include", "render", "liquid", "#"] + (["break", "continue"] if in_for else []))
        if name in ("break", "continue"):
            return ("tag", name, ("none",))
        if name == "liquid":
            return ("tag", name, ("opaque", "assign z = 1\necho z"))
        if name == "#":
            return ("tag", name, ("opaque", "note"))
        return ("tag", name, pay(name))

    def nodes(depth, in_for):
        out = []
        for _ in range(rng.randrange(0, 4)):
            r = rng.random()
            if r < 0.18:
                if out and out[-1][0] == "text":
                    continue
                out.append(("text", rng.choice(TEXTS)))
            elif r < 0.23:
                out.append(("raw", rng.choice(RAWS)))
            elif r < 0.27:
                out.append(("comment", rng.choice(["c", "hidden {{ x }}"])))
            elif r < 0.5:
                out.append(("out", rng.choice(pools["out"])))
            elif r < 0.72 or depth == 0:
                out.append(inline(in_for))
            else:
                out.append(block(depth - 1, in_for))
        return out

    def block(depth, in_for):
        name = rng.choice(["if", "if", "unless", "case", "for", "for", "tablerow", "capture", "ifchanged"])
        secs = []
        if name in ("if", "unless"):
            p = ("cond", cond(2))
            for _ in range(rng.randrange(0, 3)):
                secs.append(("elsif", ("cond", cond(1)), nodes(depth, in_for)))
            if rng.random() < 0.5:
                secs.append(("else", ("none",), nodes(depth, in_for)))
            body = nodes(depth, in_for)
        elif name == "case":
            p, body = pay("case"), []
            for _ in range(rng.randrange(0, 4)):
                secs.append(("else", ("none",), nodes(depth, in_for)) if rng.random() < 0.3 else ("when", pay("when"), nodes(depth, in_for)))
        elif name == "for":
            p, body = pay("for"), nodes(depth, True)
            if rng.random() < 0.4:
                secs.append(("else", ("none",), nodes(depth, in_for)))
        elif name == "tablerow":
            p, body = pay("tablerow"), nodes(depth, True)
        elif name == "capture":
            p, body = pay("capture"), nodes(depth, in_for)
        else:
            p, body = ("none",), nodes(depth, in_for)
        return ("block", name, p, body, secs)

    for _ in range(150 if ck.quick else 2500):
        t = nodes(2 if ck.quick else 3, False)
        if t:
            yield t


def g_pay_text(p, rng):
    if p[0] == "toks":
        return etoks_text(p[1], rng)
    if p[0] == "cond":
        return c12.expr_src(p[1])
    return p[1] if p[0] == "opaque" else ""


def full_source(ns, rng, ttoks, tab):
    """Source text of the tree; appends its tag-level tokens to [ttoks] and fills [tab]: expression text -> (kind, tokens)."""
    out = []

    def tag(name, p):
        text = g_pay_text(p, rng)
        if p[0] in ("toks", "cond"):
            tab.setdefault(text, set()).add((p[0], tuple(p[1])))
        ttoks.append(("KTag", name, text))
        return "{% " + name + (" " + text if text else "") + " %}"

    for n in ns:
        k = n[0]
        if k == "text":
            ttoks.append(("KText", n[1]))
            out.append(n[1])
        elif k == "raw":
            ttoks.append(("KRaw", n[1]))
            out.append("{% raw %}" + n[1] + "{% endraw %}")
        elif k == "comment":
            ttoks.append(("KComment", n[1]))
            out.append("{% comment %}" + n[1] + "{% endcomment %}")
        elif k == "out":
            text = etoks_text(n[1], rng)
            tab.setdefault(text, set()).add(("toks", tuple(n[1])))
            ttoks.append(("KOut", text))
            out.append("{{ " + text + " }}")
        elif k == "tag":
            out.append(tag(n[1], n[2]))
        else:
            _, name, p, body, secs = n
            out.append(tag(name, p) + full_source(body, rng, ttoks, tab))
            for sn, sp, sb in secs:
                out.append(tag(sn, sp) + full_source(sb, rng, ttoks, tab))
            ttoks.append(("KTag", "end" + name, ""))
            out.append("{% end" + name + " %}")
    return "".join(out)


def g_ftoks(ttoks, vars_by_name):
    """Two-level tokens (Gallina) of a serialised template; None if some expression is outside the vocabulary."""
    out = []
    for t in ttoks:
        if t[0] == "KOut":
            e = expr_tokens(t[1], vars_by_name)
            if e is None:
                return None
            out.append("GOut " + g_list(e))
        elif t[0] == "KTag":
            name, text = t[1], t[2]
            if name in OPAQUE_TAGS:
                out.append(f"GTagText {g_str(name)} {g_str(text)}")
                continue
            if name in COND_TAGS:
                c = cond_tokens(text, vars_by_name)
                e = None if c is None else [f"ECond ({c12.g_tok(x)})" for x in c]
            else:
                e = expr_tokens(text, vars_by_name) if text else []
            if e is None:
                return None
            out.append(f"GTag {g_str(name)} {g_list(e)}")
        else:
            out.append({"KText": "GText ", "KRaw": "GRaw ", "KComment": "GComment "}[t[0]] + g_str(t[1]))
    return out


# corpus: the concrete inputs on which str() used to lose or change meaning (kept so that a regression is reported with them first)
CORPUS = [
    "{% if (a and b) or c %}1{% else %}2{% endif %}", "{% if (not a) and b %}1{% else %}2{% endif %}", "{% if a == (b and c) %}1{% else %}2{% endif %}",
    "{% if (a == b) == c %}1{% else %}2{% endif %}", "{% if a == empty %}1{% endif %}", "{% if a == blank or b %}1{% endif %}",
    "{{ 'a\\b' }}", "{{ 'a\nb' }}", "{{ [x] }}", "{{ [\"a b\"].k }}", "{{ d[\"it's\"] }}", "{% cycle 'a b': 1, 2 %}",
    "{% cycle 'g': 1, 2 %}{% cycle g: 1, 2 %}{% cycle 'h': 1, 2 %}",
    "{% tablerow i in l cols:2 %}{{ i }}{% endtablerow %}", "{% for i in l %}{% ifchanged %}{{ i }}{% endifchanged %}{% endfor %}",
    "{% raw %}{{ x }}{% endraw %}", "{% raw %}{{% endraw %}{{ x }}", "{% raw %}a{{% endraw %}{% if a %}b{% endif %}", "{{ x if not a and b else 'z' }}", "{{ x if (a or b) and c }}",
    # (one per repaired defect of the expression serialisers first, then variants)
    "{{ d['if'] }}", "{% increment ['a b'] %}", "{% include 'p' with a? %}", "{{ x | append: a? }}", "{{ 0.00001 }}",
    "{{ d['empty'].limit }}", "{% assign ['a b'] = 1 %}{{ a }}", "{% for ['a b'] in l %}{{ i }}{% endfor %}", "{% capture ['if'] %}x{% endcapture %}",
    "{% render ['a b'] %}", "{% render 'p' for 1x as y %}", "{{ x | default: 1x, allow_false: true }}", "{{ x | plus: 100000000000000000000.0 }}",
    "{% for i in l offset:continue %}{{ i }}{% endfor %}",
]


def run(ck: Check) -> None:
    ck.rule = (
        "A: every and/or/not chain of <=3 (quick) / <=4 atoms with every single parenthesisation + seeded random condition trees "
        "(depth<=3/4, comparisons with parenthesised operands, empty/blank) inside {% if %}; B: every string value of length <=3/4 over "
        "{a space ' \" \\ newline { % } n e-acute} (not both quotes) as a literal in an output statement; C: every block and inline tag alone "
        "and nested, plus seeded random tag trees (depth<=2/3) with raw/comment/text/output; E: every pair of names from a pool with awkward spellings as root/second segment, bare and bracketed, plus seeded random paths with indexes and nested paths; D: seeded random rich templates (filters, ternaries, "
        "bracketed/quoted/nested paths, ranges, whitespace control, liquid tag, include/render); F: seeded random expression payloads of output/echo, assign, "
        "for/tablerow, case, when, cycle, include, render, capture/increment/decrement (filters with positional/keyword arguments, ternaries with condition trees, "
        "ranges, nested/quoted/keyword-named paths, floats, sloppy commas, offset:continue, 12% damaged by one token) as SOURCE TOKENS: the model parses and prints "
        "them, str() of the same source is tokenised, compared inside Coq (also: the generated tree printed by the model; parse-print-parse-print; every parsed tree "
        "without nil is well formed). Every case is checked on the implementation "
        "G: seeded random WHOLE templates with structured payloads (block tags with sections to depth 2/3, every tag's expression drawn from the payload "
        "generator of F, if/elsif/unless conditions as condition trees, liquid / inline comment opaque): the model gets the tag-level tokens of the source and the "
        "table expression text -> tokens as its lexer, runs the block parser and then each tag's expression parser, prints; str() of the same source is tokenised "
        "at both levels and compared inside Coq; sources the implementation rejects must be rejected by the model. Every case is checked on the implementation "
        "(str() parses; renders equal on 4 data sets; str of the re-parse is the same text); A-C, E, F and G are also evaluated in the Coq model. "
        "Non-trivial = the original source parses; distinct = distinct source."
    )
    ck.exhaustive = True
    ck.trusted_base = [
        "Coq 8.16.1 kernel + vm_compute",
        "harness: generators, tokenisers of the serialised text (conditions, tag level, expressions: a re-statement of the expression lexer's rules), "
        "float_canon (shortest positional spelling of a float), Gallina printers (props/c04.py, c12 operand table)",
        "modelled not verified: the expression lexer (tokens are taken as given: a keyword is never a word, a string has one kind of quote; which characters "
        "RE_PROPERTY / \\w accept beyond ASCII), the template lexer (tag-level tokens are taken as given; C10); the condition of a ternary is in the vocabulary "
        "of the condition model (an operand is one token); that every tree the parser builds without nil is well formed is evaluated on the generated sources "
        "(run_xwf), not proved; in the composed model of whole templates (TemplateFull) the expression lexer and the spelling of a token list are PARAMETERS: "
        "the theorem assumes lex (render ts) = Ok ts for the payloads of the tree (not discharged by ExprLex, whose token record and level differ); the harness's "
        "tokenisers play that role in the correspondence; whitespace control markers and text dropped by the case tag are outside the tag-level tokens",
    ]
    ck.assumptions = ["default delimiters; strict mode, no shorthand indexes, no keyword assignment; logical_not_operator, logical_parentheses and "
                      "ternary_expressions enabled; the nil/null literal is the recorded known finding (its serialisation to '' is pinned by the existing tests)"]
    t00 = time.time()
    ck.proof()
    if os.environ.get("VERIF_TIMING"):
        print(f"proof: {time.time() - t00:.1f}s", flush=True)
    counter = [0]

    for src in CORPUS:
        r = roundtrip(src)
        ck.note_case(("corpus", src), nontrivial=True)
        ck.count("corpus")
        if r:
            report(ck, src, r, "corpus", counter)

    def layer_A():
        cases, expected, meta = [], [], []
        cond_meta, searched = [], []
        conds = list(gen_conditions(ck))
        srcs = ["{% if " + c12.expr_src(toks) + " %}1{% else %}2{% endif %}" for toks in conds]
        for toks, src, (r, s) in zip(conds, srcs, batch(srcs)):
            ck.note_case(("cond", src), nontrivial=not (r and r[0] == "orig-rejected"))
            ck.count("A.conditions")
            if r:
                report(ck, src, r, "A", counter)
                if r[0] == "orig-rejected":
                    continue
            m = re.fullmatch(r"\{% if (.*?) %\}1\{% else %\}2\{% endif %\}", s, re.S)
            vars_by_name = {t[1].name: t[1] for t in toks if isinstance(t, tuple) and t[0] == "var"}
            ptoks = cond_tokens(m.group(1), vars_by_name) if m else None
            if ptoks is None:
                ck.violation("correspondence", "c04-condition-text-not-tokenisable", f"str() of {src!r} is {s!r}: not a condition over the generated vocabulary",
                             {"type": "roundtrip", "template": src, "str": s, "broken": "correspondence CondParen.run_print2 ~ BooleanExpression.__str__"}, no_input=True)
                continue
            cases.append("{| pc_toks := " + g_list(c12.g_tok(t) for t in toks) + " |}")
            expected.append("Some " + g_list(c12.g_tok(t) for t in ptoks))
            meta.append((src, s))
            cond_meta.append(toks)
        ck.sample({"template": meta[len(meta) // 2][0], "str": meta[len(meta) // 2][1]})
        mm = ck.coq_mismatches("cond", IMPORTS, "run_print2", "run_print_eqb", "pcase", "option (list tok)", cases, expected, chunk=400)
        ck.traces += len(cases)
        for i in mm[:3]:
            src, s = meta[i]
            model = ck.coq_eval(IMPORTS, [f"run_print2 ({cases[i]})"])[0]
            vsrc, d, diff = search_condition(cond_meta[i], ck.rng)
            if diff is None and not searched:
                searched.append(1)
                vsrc, d, diff = search_small_scope()
            if diff is not None:
                ck.violation("impl-violation", f"condition-roundtrip:{vsrc[:100]}",
                             f"{vsrc!r} (str() = {str(env().from_string(vsrc))!r}) with data {d!r}: original and re-parsed differ: {diff!r}",
                             {"type": "roundtrip-data", "template": vsrc, "data": d, "found_from": src, "model": model})
                continue
            ck.violation("correspondence", "c04-condition-correspondence", f"model CondParen.print2 and str() disagree on {src!r}: str() = {s!r}",
                         {"type": "roundtrip", "template": src, "str": s, "model": model,
                          "broken": "correspondence CondParen.run_print2 ~ BooleanExpression.__str__ (theorems C04_condition_roundtrip, C04_condition_idempotent)"}, no_input=True)


    def layer_B():
        cases, expected, meta = [], [], []
        vals = list(gen_strings(ck))
        srcs = ["{{ " + ('"' if "'" in v else "'") + v + ('"' if "'" in v else "'") + " }}" for v in vals]
        for v, src, (r, s) in zip(vals, srcs, batch(srcs)):
            ck.note_case(("str", v), nontrivial=not (r and r[0] == "orig-rejected"))
            ck.count("B.string-literals")
            if r:
                report(ck, src, r, "B", counter)
                if r[0] == "orig-rejected":
                    continue
            if not (s.startswith("{{ ") and s.endswith(" }}")):
                continue
            cases.append("{| sl_value := " + g_str(v) + " |}")
            expected.append(g_str(s[3:-3]))
            meta.append((src, s))
        mm = ck.coq_mismatches("strlit", IMPORTS, "run_quote", "str_eqb", "slcase", "str", cases, expected, chunk=500)
        ck.traces += len(cases)
        for i in mm[:3]:
            src, s = meta[i]
            ck.violation("correspondence", "c04-string-literal-correspondence", f"model StrLit.quote_string and str() disagree on {src!r}: str() = {s!r}",
                         {"type": "roundtrip", "template": src, "str": s, "broken": "correspondence StrLit.run_quote ~ StringLiteral.__str__ (theorem C04_string_literal_roundtrip)"}, no_input=True)


    def layer_E():
        cases, expected, meta = [], [], []
        paths = list(gen_paths(ck))
        srcs = ["{{ " + path_source(p, ck.rng) + " }}" for p in paths]
        for pth, src, (r, s) in zip(paths, srcs, batch(srcs)):
            ck.note_case(("path", src), nontrivial=not (r and r[0] == "orig-rejected"))
            ck.count("E.paths")
            if r:
                report(ck, src, r, "E", counter)
                if r[0] == "orig-rejected":
                    continue
            ptoks = path_tokens(s[3:-3]) if s.startswith("{{ ") and s.endswith(" }}") else None
            if ptoks is None:
                continue
            cases.append("{| pth := " + g_path(pth) + " |}")
            expected.append(g_list(ptoks))
            meta.append((src, s))
        mm = ck.coq_mismatches("path", IMPORTS, "run_path", "list_eqb ptok_eqb", "pathcase", "list ptok", cases, expected, chunk=500)
        ck.traces += len(cases)
        for i in mm[:3]:
            src, s = meta[i]
            model = ck.coq_eval(IMPORTS, [f"run_path ({cases[i]})"])[0]
            ck.violation("correspondence", "c04-path-correspondence", f"model PathSyntax.print_path and str() disagree on {src!r}: str() = {s!r}",
                         {"type": "roundtrip", "template": src, "str": s, "model": model[:1500],
                          "broken": "correspondence PathSyntax.run_path ~ Path.__str__ (theorem C04_path_roundtrip)"}, no_input=True)


    def layer_C():
        cases, expected, meta = [], [], []
        trees = list(gen_trees(ck))
        srcs = [tree_source(t) for t in trees]
        for tree, src, (r, s) in zip(trees, srcs, batch(srcs)):
            ck.note_case(("tree", src), nontrivial=not (r and r[0] == "orig-rejected"))
            ck.count("C.tag-trees")
            if r:
                report(ck, src, r, "C", counter)
                if r[0] == "orig-rejected":
                    continue
            cases.append("{| tc_nodes := " + g_nodes(tree) + " |}")
            expected.append(g_ttoks(tpl_tokens(s)))
            meta.append((src, s))
        ck.sample({"template": meta[-1][0], "str": meta[-1][1]})
        mm = ck.coq_mismatches("tree", IMPORTS, "run_tprint", "tprint_eqb", "tcase", "list ttok", cases, expected, chunk=200)
        ck.traces += len(cases)
        for i in mm[:3]:
            src, s = meta[i]
            model = ck.coq_eval(IMPORTS, [f"run_tprint ({cases[i]})"])[0]
            ck.violation("correspondence", "c04-structure-correspondence", f"model TagTree.print_nodes and str() disagree on {src!r}: str() = {s!r}",
                         {"type": "roundtrip", "template": src, "str": s, "model": model[:2000],
                          "broken": "correspondence TagTree.run_tprint ~ Node.__str__ of the block/inline tags (theorem C04_structure_roundtrip)"}, no_input=True)


    def layer_F():
        fcases = list(gen_expr_cases(ck))
        srcs = [WRAPS[w][0] % etoks_text(toks, ck.rng) for _k, _t, toks, w in fcases]
        xcases, xexp, xmeta = [], [], []
        ycases, yexp, ymeta = [], [], []
        for (kind, tree, toks, w), src, (r, s) in zip(fcases, srcs, batch(srcs)):
            rejected = bool(r and r[0] == "orig-rejected")
            ck.note_case(("expr", src), nontrivial=not rejected)
            ck.count("F.expressions." + kind + (".rejected" if rejected else ""))
            case = "{| xc_kind := " + KIND[kind] + "; xc_toks := " + g_list(g_etok(t) for t in toks) + " |}"
            if rejected:
                xcases.append(case)
                xexp.append("(None, true)")
                xmeta.append((src, None))
                continue
            if r:
                report(ck, src, r, "F", counter)
            m = re.fullmatch(WRAPS[w][1], s, re.S)
            vars_by_name = {t[1][1].name: t[1][1] for t in toks if t[0] == "cond" and isinstance(t[1], tuple) and t[1][0] == "var"}
            otoks = expr_tokens(m.group(1), vars_by_name) if m else None
            if otoks is None:
                ck.violation("correspondence", "c04-expression-text-not-tokenisable", f"str() of {src!r} is {s!r}: not an expression over the generated vocabulary",
                             {"type": "roundtrip", "template": src, "str": s, "broken": "correspondence ExprSyntax.run_xprint ~ __str__ of the expression classes"}, no_input=True)
                continue
            xcases.append(case)
            # the second round is compared where the implementation round-trips (not where the recorded nil finding breaks it)
            xexp.append("(Some " + g_list(otoks) + ", " + ("true" if r is None else "false") + ")")
            xmeta.append((src, s))
            if tree is not None:
                ycases.append("{| yc_payload := " + g_payload(tree) + " |}")
                yexp.append(g_list(otoks))
                ymeta.append((src, s))
        ck.sample({"template": xmeta[len(xmeta) // 3][0], "str": xmeta[len(xmeta) // 3][1]})
        for name, fn, eqb, ctype, otype, cs, ex, meta_, what in (
                ("xall", "run_xall", "xall_eqb", "xcase", "option (list etok) * bool", xcases, xexp, xmeta,
                 "parser + serialiser on the source tokens; second round; well-formedness of the parsed tree"),
                ("yprint", "run_yprint", "list_eqb etok_eqb", "ycase", "list etok", ycases, yexp, ymeta, "serialiser on the generated tree")):
            mm = ck.coq_mismatches(name, "PyPrims Cond CondPrint PathSyntax ExprSyntax", fn, eqb, ctype, otype, cs, ex, chunk=200)
            ck.traces += len(cs)
            for i in mm[:3]:
                src, s = meta_[i]
                model = ck.coq_eval(IMPORTS, [f"{fn} ({cs[i]})"])[0]
                ck.violation("correspondence", f"c04-expression-{name}-correspondence", f"model ExprSyntax.{fn} ({what}) and the implementation disagree on {src!r}: str() = {s!r}",
                             {"type": "roundtrip", "template": src, "str": s, "model": model[:2000], "model_case": cs[i][:4000], "expected": ex[i][:4000],
                              "broken": f"correspondence ExprSyntax.{fn} ~ parse/__str__ of the expression classes (theorems C04_expression_roundtrip, C04_expression_idempotent)"}, no_input=True)

    def layer_G():
        trees = list(gen_full(ck))
        srcs, inputs = [], []
        for t in trees:
            ttoks, tab = [], {}
            srcs.append(full_source(t, ck.rng, ttoks, tab))
            inputs.append((ttoks, tab))
        vars_by_name = dict(G_COND_VARS)
        vars_by_name.update({o.name: o for o in (c12.Opd("a", True), c12.Opd("b", False), c12.Opd("c", None))})
        cases, expected, meta = [], [], []
        for src, (ttoks, tab), (r, s) in zip(srcs, inputs, batch(srcs)):
            rejected = bool(r and r[0] == "orig-rejected")
            ck.note_case(("full", src), nontrivial=not rejected)
            if any(len(v) > 1 for v in tab.values()):          # one text, two readings (a bare literal as condition and as payload): no table
                ck.count("G.templates.ambiguous-text-skipped")
                continue
            ck.count("G.templates" + (".rejected" if rejected else ""))
            if r and not rejected:
                report(ck, src, r, "G", counter)
            gtab = g_list("(" + g_str(text) + ", " + g_list((f"ECond ({c12.g_tok(x)})" if kind == "cond" else g_etok(x)) for x in toks) + ")"
                          for text, ((kind, toks),) in ((k, tuple(v)) for k, v in tab.items()))
            case = "{| gc_toks := " + g_ttoks(ttoks) + "; gc_tab := " + gtab + " |}"
            if rejected:
                cases.append(case)
                expected.append("None")
                meta.append((src, None))
                continue
            ftoks = g_ftoks(tpl_tokens(s), vars_by_name)
            if ftoks is None:
                ck.violation("correspondence", "c04-template-text-not-tokenisable", f"str() of {src!r} is {s!r}: an expression outside the generated vocabulary",
                             {"type": "roundtrip", "template": src, "str": s, "broken": "correspondence TemplateFull.run_gprint ~ str(template)"}, no_input=True)
                continue
            cases.append(case)
            expected.append("Some " + g_list(ftoks))
            meta.append((src, s))
        if meta:
            ck.sample({"template": meta[len(meta) // 2][0], "str": meta[len(meta) // 2][1]})
        mm = ck.coq_mismatches("full", "PyPrims Cond CondPrint PathSyntax TagTree ExprSyntax TemplateFull", "run_gprint", "run_gprint_eqb", "gcase",
                               "option (list ftok)", cases, expected, chunk=40 if ck.quick else 100)
        ck.traces += len(cases)
        for i in mm[:3]:
            src, s = meta[i]
            model = ck.coq_eval("PyPrims Cond CondPrint PathSyntax TagTree ExprSyntax TemplateFull", [f"run_gprint ({cases[i]})"])[0]
            ck.violation("correspondence", "c04-template-correspondence", f"model TemplateFull.run_gprint (block parser, then every tag's expression parser, then the serialiser) and str() disagree on {src!r}: str() = {s!r}",
                         {"type": "roundtrip", "template": src, "str": s, "model": model[:3000], "model_case": cases[i][:6000], "expected": expected[i][:6000],
                          "broken": "correspondence TemplateFull.run_gprint ~ str(parse(src)) (theorems C04_template_roundtrip, C04_template_idempotent)"}, no_input=True)

    def layer_D():
        parsed = 0
        srcs = list(gen_rich(ck))
        for src, (r, _s) in zip(srcs, batch(srcs)):
            ok = not (r and r[0] == "orig-rejected")
            parsed += ok
            ck.note_case(("rich", src), nontrivial=ok)
            ck.count("D.rich-templates" + ("" if ok else ".rejected"))
            if r:
                report(ck, src, r, "D", counter)
        ck.extra["rich_templates_parsed"] = parsed


    only = os.environ.get("VERIF_C04_LAYERS", "")       # development aid: run a subset of the layers

    for name, fn in (("A", layer_A), ("B", layer_B), ("E", layer_E), ("C", layer_C), ("F", layer_F), ("G", layer_G), ("D", layer_D)):
        if not only or name in only:
            t0 = time.time()
            fn()
            if os.environ.get("VERIF_TIMING"):
                print(f"layer {name}: {time.time() - t0:.1f}s", flush=True)


def replay(data) -> int:
    case = data["case"]
    if case.get("type") == "roundtrip-data":
        t1 = env().from_string(case["template"])
        t2 = env().from_string(str(t1))
        o1, o2 = outcome(t1, case["data"]), outcome(t2, case["data"])
        print("template:", repr(case["template"]), "str():", repr(str(t1)), "data:", case["data"])
        print("original:", o1, "re-parsed:", o2)
        print(("VIOLATION reproduced" if o1 != o2 else "not reproduced") + f" property={data['property']}")
        return 1 if o1 != o2 else 0
    if case.get("type") != "roundtrip" or "template" not in case:
        print("replay names a proof/correspondence obligation:", case)
        return 1
    r = roundtrip(case["template"])
    print("template:", repr(case["template"]))
    print("round trip:", r)
    bad = r is not None and r[0] != "orig-rejected"
    print(("VIOLATION reproduced" if bad else "not reproduced") + f" property={data['property']}")
    return 1 if bad else 0
