"""C06 — Loop iteration limit bounds nested iteration."""

from __future__ import annotations

import itertools

from ..core import Check
from . import _limits as L

LENGTHS = (0, 1, 2, 3, 5, 12)
LIMITS = (1, 2, 5, 6, 11, 24, 60, 200)
NOT_PUSHED = ("tablerow", "includearr", "renderfor")


def chain(spec):
    """[(kind, n|None), ...] outermost first -> nest with one 'x' leaf innermost."""
    body = [("text", "x")]
    for kind, n in reversed(spec):
        body = [(kind, n, body)] if kind in L.REPEATING else [(kind, body)]
    return body


def constructs(lengths):
    return [(k, n) for k in L.REPEATING for n in lengths] + [(k, None) for k in L.PLAIN]


def wrap(spec, inner):
    """[(kind, n|None), ...] outermost first around the body `inner`."""
    body = inner
    for kind, n in reversed(spec):
        body = [(kind, n, body)] if kind in L.REPEATING else [(kind, body)]
    return body


def inherit_nest(pre, segs):
    """A chain of len(segs) templates: the base template has the constructs `pre` around a block tag; definition i of the
    block (most derived first) has the constructs segs[i] around {{ block.super }}, the last one around the leaf."""
    defs = [wrap(seg, [("super",)]) for seg in segs[:-1]] + [wrap(segs[-1], [("text", "x")])]
    return wrap(pre, [("block", defs)])


def gen_nests(ck: Check):
    """(label, number of templates, nest): exhaustive chains to a tier-dependent depth, then sampled deeper chains, then random
    trees; then the same constructs spread over the templates of an inheritance chain."""
    rng = ck.rng
    full = constructs(LENGTHS)
    depth_full = 2 if ck.quick else 3
    for d in range(1, depth_full + 1):
        for spec in itertools.product(full, repeat=d):
            yield f"chain{d}", 1, chain(spec)
    kinds = L.REPEATING + L.PLAIN
    d = depth_full + 1
    per_shape = 2 if not ck.quick else 1
    for shape in itertools.product(kinds, repeat=d):
        for _ in range(per_shape):
            spec = [(k, rng.choice(LENGTHS[1:] if rng.random() < 0.8 else LENGTHS) if k in L.REPEATING else None) for k in shape]
            yield f"chain{d}s", 1, chain(spec)

    def tree(depth):
        out = []
        for _ in range(rng.randrange(1, 4)):
            r = rng.random()
            if r < 0.3 or depth >= 3:
                out.append(("text", "x"))
            else:
                k = rng.choice(kinds)
                out.append((k, rng.choice(LENGTHS), tree(depth + 1)) if k in L.REPEATING else (k, tree(depth + 1)))
        return out

    for _ in range(70 if ck.quick else 1000):
        yield "tree", 1, tree(0)
    # an error dropped INSIDE a loop (tolerant modes, small context_depth_limit), then more loops: the later loops must
    # be counted on their own
    X = ("text", "x")
    for n, m, k in ((2, 2, 3), (2, 3, 5), (3, 1, 5), (2, 2, 12)):
        yield "leak", 1, [("for", n, [("for", m, [X])]), ("for", k, [X])]
        yield "leak", 1, [("for", n, [("tablerow", m, [X])]), ("for", k, [X])]
        yield "leak", 1, [("for", n, [("include", [("for", m, [X])])]), ("for", k, [("for", 1, [X])])]
        yield "leak", 1, [("include", [("for", n, [("for", m, [X])]), ("for", k, [X])]), ("for", k, [X])]
    # ---- inheritance: every construct around the block tag in the base template (or none), one construct (or none) around
    # block.super in the overriding definition and around the leaf in the parent definition: exhaustive; three templates and
    # two constructs per definition: sampled; random trees with blocks anywhere
    # (a block tag with a stack stands in the chain's own templates, not in a partial or macro: for / tablerow around it)
    small = [()] + [(c,) for c in constructs((2, 3) if ck.quick else (0, 2, 3, 5))]
    pres = [()] + [((k, n),) for k in ("for", "tablerow") for n in ((2,) if ck.quick else (2, 5))]
    for pre in pres:
        for s0 in small:
            for s1 in small:
                yield "inherit2", 2, inherit_nest(pre, [s0, s1])
    pool = [(c,) for c in constructs(LENGTHS[1:])] + [()]
    for _ in range(150 if ck.quick else 1500):
        segs = [tuple(c for seg in (rng.choice(pool), rng.choice(pool) if rng.random() < 0.4 else ()) for c in seg) for _ in range(3)]
        yield "inherit3", 3, inherit_nest(rng.choice(pres + [((k, n), (k2, 2)) for k in ("for", "tablerow") for n in (2, 3) for k2 in ("for", "tablerow")]), segs)
    for i in range(60 if ck.quick else 600):
        levels = 2 + i % 2
        t = L.gen_tree(rng, maxdepth=3, lengths=(1, 2, 3), width=2, level=levels - 1, blocks=3.0)
        yield "inherit-tree", levels, only_leaves(t)


def only_leaves(nest):
    """Keep the loops, partials, macros and blocks of a random tree; every text becomes the leaf 'x' (one per run of adjacent
    texts), echo / assign / capture / ifchanged go (this check counts leaf executions)."""
    out = []
    for n in nest:
        k = n[0]
        if k == "text":
            if not (out and out[-1][0] == "text"):
                out.append(("text", "x"))
        elif k in ("echo", "assign"):
            continue
        elif k in ("capture", "ifchanged"):
            for m in only_leaves(L.body_of(n)):
                if not (m[0] == "text" and out and out[-1][0] == "text"):
                    out.append(m)
        elif k == "block":
            out.append((k, [only_leaves(d) or [("text", "x")] for d in n[1]]))
        elif k in L.BODY1:
            out.append((k, only_leaves(n[1]) or [("text", "x")]))
        elif k in L.BODY2:
            out.append((k, n[1], only_leaves(n[2]) or [("text", "x")]))
        else:
            out.append(tuple(n))
    return out


shape_of = L.shape_of


def culprit(nest, limit, prod=1, inside=None, insup=False):
    """(EXPANDED form) the outermost tablerow / include-with-array / render-for on a path whose product exceeds the limit
    (None if the excess does not pass through one); 'super' if the path passes through a block.super: identifies the failing input class."""
    for n in nest:
        k = n[0]
        r_ = L._inner(n, insup)
        if r_ is None:
            continue
        b, ins = r_
        if k in L.REPEATING:
            if n[1] == 0:
                continue
            p = prod * n[1]
            if p > limit and inside is not None:
                return inside
            r = culprit(b, limit, p, inside or (k if k in NOT_PUSHED else None), ins)
        else:
            r = culprit(b, limit, prod, inside or ("super" if k == "superx" else None), ins)
        if r:
            return r
    return None


def judge(nest, limit, base, s, a):
    """Oracle, independent of the model: -> (signature, what) or None."""
    if s != a:
        return "c06-sync-async-differ", f"sync {s[:2]} but async {a[:2]}"
    if base[0] != "out":
        return None  # the unlimited render itself fails (include inside render/macro): nothing to bound
    over = L.max_loop_product(nest) > limit
    if s[0] == "out":
        if L.max_leaf_product(nest) > limit or over:
            c = culprit(nest, limit)
            sig = f"c06-{c}-length-not-carried" if c else "c06-over-limit:" + shape_of(nest)[:120]
            return sig, (f"completed with {s[1].count('x')} leaf executions although enclosing lengths multiply to "
                         f"{max(L.max_leaf_product(nest), L.max_loop_product(nest))} > limit {limit}")
        if s[1] != base[1]:
            return "c06-output-differs-from-unlimited:" + shape_of(nest)[:100], "limited render completed with a different output"
    elif s[1] == "XLoop" and not over:
        return "c06-raises-below-limit:" + shape_of(nest)[:100], (
            f"LoopIterationLimitError although no reached nest multiplies to more than {limit} (largest {L.max_loop_product(nest)})")
    elif s[1] != "XLoop":
        return "c06-other-error:" + s[1], f"{s[1]} raised under a loop limit only"
    return None


def judge_tolerant(nest, lim, s, a, same_without_loop_limit):
    """WARN / LAX oracle, independent of the model: errors are dropped per top-level node, yet (i) no leaf may have run
    while the product of its enclosing lengths exceeded the limit, (ii) a limit that no reached nest exceeds changes nothing."""
    if s != a:
        return f"c06-{lim.mode}-sync-async-differ", f"sync {s[:2]} but async {a[:2]}"
    if s[0] != "out":
        return None
    allowed = L.leaf_count_within(nest, lim.loop)
    if s[1].count("x") > allowed:
        c = culprit(nest, lim.loop)
        sig = f"c06-{c}-length-not-carried" if c else f"c06-{lim.mode}-leaf-over-limit:" + shape_of(nest)[:100]
        return sig, (f"in {lim.mode} mode {s[1].count('x')} leaves were executed but only {allowed} leaf executions have "
                     f"enclosing lengths multiplying to <= {lim.loop}")
    if same_without_loop_limit is not None and L.max_loop_product(nest) <= lim.loop and s[:2] != same_without_loop_limit[:2]:
        return (f"c06-{lim.mode}-false-alarm-after-dropped-error",
                f"no reached nest multiplies to more than {lim.loop}, yet the loop limit changes the {lim.mode}-mode output "
                f"({s[1].count('x')} leaves instead of {same_without_loop_limit[1].count('x') if same_without_loop_limit[0] == 'out' else same_without_loop_limit})")
    return None


# ---- loops across template inheritance (extends / block / block.super of liquid.extra; outside the Coq model): the lengths of
# all loops that are entered when a for tag runs multiply, whichever template of the chain each loop is written in
def _loop(kind, var, n, body):
    if kind == "for":
        return "{% for " + var + " in (1.." + str(n) + ") %}" + body + "{% endfor %}"
    return "{% tablerow " + var + " in (1.." + str(n) + ") %}" + body + "{% endtablerow %}"


SUPER = "{{ block.super }}"
INHERIT_SHAPES = {
    # name -> (templates by lengths (a, b, c) and loop kind, the chain of lengths enclosing the leaf)
    "child-loop-around-super": lambda k, a, b, c: (
        {"base": "{% block b %}" + _loop("for", "j", b, "x") + "{% endblock %}",
         "main": "{% extends 'base' %}{% block b %}" + _loop(k, "i", a, SUPER) + "{% endblock %}"}, [a, b]),
    "three-levels": lambda k, a, b, c: (
        {"base": "{% block b %}" + _loop(k, "j", c, "x") + "{% endblock %}",
         "mid": "{% extends 'base' %}{% block b %}" + _loop("for", "m", b, SUPER) + "{% endblock %}",
         "main": "{% extends 'mid' %}{% block b %}" + _loop("for", "i", a, SUPER) + "{% endblock %}"}, [a, b, c]),
    "base-loop-around-block": lambda k, a, b, c: (
        {"base": _loop("for", "o", c, "{% block b %}" + _loop("for", "j", b, "x") + "{% endblock %}"),
         "main": "{% extends 'base' %}{% block b %}" + _loop(k, "i", a, SUPER) + "{% endblock %}"}, [c, a, b]),
    "super-renders-partial": lambda k, a, b, c: (
        {"base": "{% block b %}{% render 'p' %}{% endblock %}", "p": _loop(k, "j", b, "x"),
         "main": "{% extends 'base' %}{% block b %}" + _loop("for", "i", a, SUPER) + "{% endblock %}"}, [a, b]),
    "override-without-super": lambda k, a, b, c: (
        {"base": _loop("for", "o", c, "{% block b %}no{% endblock %}"),
         "main": "{% extends 'base' %}{% block b %}" + _loop(k, "i", a, _loop("for", "j", b, "x")) + "{% endblock %}"}, [c, a, b]),
}


def _render_chain(templates, limit, use_async, data=None):
    from liquid import DictLoader, Environment
    import liquid.extra as ex

    from ..core import run_async

    env = type("VerifEnv", (Environment,), {"loop_iteration_limit": limit})(loader=DictLoader(dict(templates)))
    ex.add_tags(env)
    try:
        t = env.get_template("main")
        data = data or {}
        return ("out", (run_async(t.render_async(**data)) if use_async else t.render(**data)).count("x"))
    except Exception as e:  # noqa: BLE001
        return ("err", L.classify(e))


def judge_chain(lengths, limit, s, a):
    prod = 1
    over = False
    for n in lengths:               # a for tag raises when the product including its own length exceeds the limit
        prod *= n
        over = over or prod > limit
    if s != a:
        return "c06-inherit-sync-async-differ", f"sync {s} but async {a}"
    if over and s != ("err", "XLoop"):
        return "c06-inherit-over-limit", (f"loops of lengths {lengths} (product {prod}) are entered one inside the other under "
                                          f"loop_iteration_limit {limit}, but the render gave {s} instead of LoopIterationLimitError")
    if not over and s != ("out", prod):
        return "c06-inherit-within-limit", f"lengths {lengths} multiply to {prod} <= limit {limit} but the render gave {s}"
    return None


def cols_family(ck: Check) -> None:
    """tablerow with an explicit cols argument (smaller than, equal to, larger than the number of items; 0; nil): the tablerow
    contributes the number of ITEMS it repeats its block for, whatever the table layout is (oracle only: cols is outside the
    model's nests).  Inner constructs: for, include-for, render-for; also nested inside a for."""
    inner = {
        "for": lambda m: ("{% for j in (1.." + str(m) + ") %}x{% endfor %}", {}),
        "includefor": lambda m: ("{% include 'p' for arr %}", {"p": "x"}),
        "renderfor": lambda m: ("{% render 'p' for arr %}", {"p": "x"}),
    }
    for kind, mk in inner.items():
        for length in (2, 3, 6):
            for m in (2, 3, 6):
                for cols in ("1", "2", str(length), str(length + 2), "0", "nil", "nosuch"):
                    for outer in (None, 2):
                        body, parts = mk(m)
                        src = "{% tablerow i in (1.." + str(length) + ") cols: " + cols + " %}" + body + "{% endtablerow %}"
                        lengths = [length, m]
                        if outer:
                            src = "{% for o in (1.." + str(outer) + ") %}" + src + "{% endfor %}"
                            lengths = [outer] + lengths
                        prod = 1
                        for n in lengths:
                            prod *= n
                        templates = dict(parts, main=src)
                        for limit in sorted({prod - 1, prod}):
                            res = []
                            for use_async in (False, True):
                                from liquid import DictLoader, Environment
                                from ..core import run_async
                                env = type("VerifEnv", (Environment,), {"loop_iteration_limit": limit})(loader=DictLoader(templates))
                                try:
                                    t = env.get_template("main")
                                    o = run_async(t.render_async(arr=list(range(m)))) if use_async else t.render(arr=list(range(m)))
                                    res.append(("out", o.count("x")))
                                except Exception as e:  # noqa: BLE001
                                    res.append(("err", L.classify(e)))
                            ck.note_case(("cols", kind, length, m, cols, outer, limit), nontrivial=True)
                            ck.count("cols." + ("raised" if res[0][0] == "err" else "completed"))
                            v = judge_chain(lengths, limit, res[0], res[1])
                            if v is not None and sum(1 for y in ck.violations if y.signature.startswith("c06-tablerow-cols")) < 3:
                                ck.violation("impl-violation", f"c06-tablerow-cols:{v[0]}:{kind}", f"{templates!r} limit {limit}: {v[1]}",
                                             {"kind": "inherit", "templates": templates, "lengths": lengths, "limit": limit,
                                              "sync": res[0], "async": res[1], "data": {"arr": list(range(m))}})


def inheritance_family(ck: Check) -> None:
    lens = (1, 2, 3) if ck.quick else (1, 2, 3, 5)
    for name, mk in INHERIT_SHAPES.items():
        for kind in ("for", "tablerow"):
            for a in lens:
                for b in lens:
                    for c in (lens if name in ("three-levels", "base-loop-around-block", "override-without-super") else (1,)):
                        templates, lengths = mk(kind, a, b, c)
                        prod = a * b * c
                        for limit in sorted({1, prod - 1, prod, 200} - {0}):
                            s = _render_chain(templates, limit, False)
                            x = _render_chain(templates, limit, True)
                            ck.note_case(("inherit", name, kind, a, b, c, limit), nontrivial=prod >= 2)
                            ck.count("inherit." + ("raised" if s[0] == "err" else "completed"))
                            v = judge_chain(lengths, limit, s, x)
                            if v is not None and sum(1 for y in ck.violations if y.signature == v[0] + ":" + name) < 2:
                                ck.violation("impl-violation", v[0] + ":" + name, f"{templates!r} limit {limit}: {v[1]}",
                                             {"kind": "inherit", "templates": templates, "lengths": lengths, "limit": limit, "sync": s, "async": x})


def run(ck: Check) -> None:
    ck.rule = (
        "every chain of for / tablerow / include-with-array / render-for (lengths 0,1,2,3,5,12) and include / render / macro call "
        "around one leaf, exhaustively to depth 2 (quick) or 3 (thorough), every shape one level deeper with sampled lengths, plus seeded "
        "random trees with several leaves; each nest rendered (sync and async) without a limit and under every loop_iteration_limit in "
        "{1,2,5,6,11,24,60,200}; leaf executions counted from the output; the chains to depth 2, the trees and a sample of the rest "
        "also in WARN and LAX mode (limits 2, 5, 24; with context_depth_limit 5 / 6 so that an error is dropped inside a loop). Non-trivial = at least one repeating construct of length >= 2; "
        "The same constructs spread over CHAINS of 2 and 3 templates printed from the model's nests (extends / block / {{ block.super }}): any construct (or none) "
        "around the block tag in the base template, around block.super in each overriding definition and around the leaf in the last one - exhaustive for "
        "two templates and one construct each (lengths 2, 3; thorough 0,2,3,5), sampled for three templates / two constructs, plus random trees with "
        "block tags and block.super anywhere; limits 1, 2, 5, 6, 24, 200, P-1, P. "
        "Plus five hand-written inheritance shapes (oracle only): loops written in the child, the parent and the base of a chain, entered one inside the other, lengths 1..3 (5), limits 1, P-1, P, 200. distinct = distinct (nest, limit)."
    )
    ck.exhaustive = True
    ck.trusted_base = [
        "Coq 8.16.1 kernel + vm_compute",
        "harness: nest generator, Liquid/partials printer, Gallina printer, product arithmetic of the oracle (props/_limits.py, props/c06.py)",
        "modelled not verified: range/array length evaluation, DictLoader, the stack discipline of Python context managers",
    ]
    ck.assumptions = [
        "loop_iteration_limit >= 1 (plus context_depth_limit in the tolerant-mode runs); lengths are static (ranges and arrays of known size); no break/continue; block names distinct, no required blocks",
        "leaf executions are observed as the number of 'x' in the output",
    ]
    ck.proof()
    inheritance_family(ck)
    cols_family(ck)

    sw = L.Sweeps()
    nolim = L.Limits()
    for label, levels, nest in gen_nests(ck):
        printed = L.to_source(nest, levels)
        xn = L.expand(nest)        # what the oracles read: every block.super with the definition it renders
        inherit = label.startswith("inherit")
        base, _ = L.run_impl(nest, nolim, False, printed)
        if base[0] == "out" and base[1].count("x") != L.leaf_count(xn):
            ck.violation("correspondence", "c06-generator-count", "unlimited render executes a different number of leaves than the nest says",
                         {"main": nest, "levels": levels, "limits": nolim.as_dict(), "impl": base, "expected_leaves": L.leaf_count(xn),
                          "broken": "harness printer / oracle arithmetic"}, no_input=True)
        nontriv = L.max_loop_product(xn) >= 2
        sw.group(nest, printed)
        mp = L.max_loop_product(xn)
        limits = LIMITS if not inherit else sorted({1, 2, 5, 6, 24, 200} | ({mp - 1, mp} - {0, -1} if mp <= 240 else set()))
        for limit in limits:
            lim = L.Limits(loop=limit)
            s, _ = L.run_impl(nest, lim, False, printed)
            a = s if inherit and ck.quick and limit not in (2, 6, mp) else L.run_impl(nest, lim, True, printed)[0]
            ck.note_case((nest, limit), nontrivial=nontriv)
            ck.count(f"{label}.{'raised' if s[0] == 'err' else 'completed'}")
            v = judge(xn, limit, base, s, a)
            if v is not None:
                ck.violation("impl-violation", v[0], f"{printed[0]!r} partials {printed[1]!r} limit {limit}: {v[1]}",
                             {"main": nest, "levels": levels, "limits": lim.as_dict(), "template": printed[0], "partials": printed[1],
                              "sync": s, "async": a, "unlimited": base})
            if s[0] == "err" and s[1].startswith("other:"):
                ck.violation("impl-violation", "c06-foreign-error:" + s[1], f"{printed[0]!r}: {s[1]}",
                             {"main": nest, "levels": levels, "limits": lim.as_dict(), "template": printed[0], "partials": printed[1], "sync": s, "async": a})
                continue
            sw.add(lim, [], s, explained=v is not None)
        # WARN / LAX: errors are dropped per top-level node; with a small context_depth_limit too (an error inside a loop)
        if base[0] != "out" or not (label in ("chain1", "chain2", "tree", "leak", "inherit-tree") or ck.rng.random() < 0.12):
            continue
        for mode in ("lax", "warn"):
            configs = [L.Limits(loop=limit, mode=mode) for limit in ((2, 24) if label == "chain2" else (2, 5, 24))]
            if label in ("tree", "leak", "inherit-tree") or ck.rng.random() < 0.25:
                # (an inheritance chain renders the base template's nodes two scopes deep: 6, 7 there)
                configs += [L.Limits(loop=limit, depth=d + (1 if levels > 1 else 0), mode=mode)
                            for limit in ((5, 6, 15, 24) if label == "leak" else (5, 24)) for d in (5, 6)]
            for lim in configs:
                s, _ = L.run_impl(nest, lim, False, printed)
                a, _ = L.run_impl(nest, lim, True, printed)
                ref = None
                if lim.depth != L.DEFAULT_DEPTH:
                    ref, _ = L.run_impl(nest, lim.replace(loop=None), False, printed)
                ck.note_case((nest, lim.key()), nontrivial=nontriv)
                ck.count(f"{mode}.{'escaped' if s[0] == 'err' else 'completed'}")
                v = judge_tolerant(xn, lim, s, a, ref)
                if v is not None:
                    ck.violation("impl-violation", v[0], f"{printed[0]!r} partials {printed[1]!r} limits {lim.as_dict()}: {v[1]}",
                                 {"main": nest, "levels": levels, "limits": lim.as_dict(), "template": printed[0], "partials": printed[1],
                                  "sync": s, "async": a, "kind": "tolerant"})
                if s[0] == "err" and s[1].startswith("other:"):
                    continue
                sw.add(lim, [], s, explained=v is not None)
    g = sw.groups[len(sw.groups) // 3]
    ck.sample({"template": g[1][0], "partials": g[1][1], "limit": g[2][3][0].loop, "observed": g[2][3][2][:2]})
    g = sw.groups[-100]
    ck.sample({"template": g[1][0], "partials": g[1][1], "limit": g[2][3][0].loop, "observed": g[2][3][2][:2]})
    for nest, printed, lim, sizes, s, _ in sw.mismatches(ck, "c06", chunk=120)[:3]:
        model = ck.coq_eval(L.IMPORTS, [f"run_case ({L.g_case(lim, L.expand(nest), [], printed[3])})"])[0]
        ck.violation("correspondence", "c06-correspondence",
                     f"model Limits.run_case and the implementation disagree on {printed[0]!r} partials {printed[1]!r} limits {lim.as_dict()}",
                     {"main": nest, "limits": lim.as_dict(), "template": printed[0], "partials": printed[1], "impl": s, "model": model[:300],
                      "broken": "correspondence Limits.run_case ~ render under loop_iteration_limit (theorems C06_bound, C06_raises)"},
                     no_input=True)


def replay(data) -> int:
    case = data["case"]
    if case.get("kind") == "inherit":
        s_, a_ = (_render_chain(case["templates"], case["limit"], False, case.get("data")),
                  _render_chain(case["templates"], case["limit"], True, case.get("data")))
        print("templates:", case["templates"], "loop_iteration_limit:", case["limit"], "enclosing lengths:", case["lengths"])
        print("sync :", s_, "async:", a_)
        v = judge_chain(case["lengths"], case["limit"], s_, a_)
        print(("VIOLATION reproduced: " + v[1] if v else "not reproduced") + f" property={data['property']}")
        return 1 if v else 0
    if "main" not in case or data.get("kind") != "impl-violation":
        print("replay names a proof/correspondence obligation:", {k: case[k] for k in case if k != "main"})
        return 1
    nest = case["main"]
    lim = L.Limits.from_dict(case["limits"])
    printed = L.to_source(nest, case.get("levels", 1))
    xn = L.expand(nest)
    base, _ = L.run_impl(nest, L.Limits(), False, printed)
    s, _ = L.run_impl(nest, lim, False, printed)
    a, _ = L.run_impl(nest, lim, True, printed)
    if case.get("kind") == "tolerant":
        ref = None
        if lim.depth != L.DEFAULT_DEPTH:
            ref, _ = L.run_impl(nest, lim.replace(loop=None), False, printed)
        print("template:", printed[0], "partials:", printed[1], "limits:", lim.as_dict())
        print("sync :", s[:2], "async:", a[:2], "without the loop limit:", ref[:2] if ref else None)
        v = judge_tolerant(xn, lim, s, a, ref)
        print(("VIOLATION reproduced: " + v[1] if v else "not reproduced") + f" property={data['property']}")
        return 1 if v else 0
    print("template:", printed[0], "partials:", printed[1], "loop_iteration_limit:", lim.loop)
    print("sync :", s[:2] if s[0] == "err" else ("out", f"{s[1].count('x')} leaf executions"))
    print("async:", a[:2] if a[0] == "err" else ("out", f"{a[1].count('x')} leaf executions"))
    print("largest product of enclosing lengths:", L.max_loop_product(xn))
    v = judge(xn, lim.loop, base, s, a)
    print(("VIOLATION reproduced: " + v[1] if v else "not reproduced") + f" property={data['property']}")
    return 1 if v else 0
