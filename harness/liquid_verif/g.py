"""Printers from Python values to Gallina terms (text)."""


def g_N(n: int) -> str:
    assert n >= 0
    return f"{n}%N"


def g_Z(z: int) -> str:
    return f"({z})%Z"


def g_nat(n: int) -> str:
    assert 0 <= n < 5000, n
    return f"{n}%nat"


def g_bool(b: bool) -> str:
    return "true" if b else "false"


def g_list(items) -> str:
    return "[" + "; ".join(items) + "]"


def g_str(s: str) -> str:
    """Python str -> list N of code points."""
    if not s:
        return "(@nil N)"
    return "[" + "; ".join(str(ord(c)) for c in s) + "]%N"


def g_opt(x, f) -> str:
    return "None" if x is None else f"(Some {f(x)})"


def g_pair(a: str, b: str) -> str:
    return f"({a}, {b})"
